#!/usr/bin/env python3
"""Regenerates /verif/MANIFEST.json from the table below (run after claiming a new property)."""
import json, os
HERE = os.path.dirname(os.path.dirname(os.path.abspath(__file__)))

HOOK_COMMITS = []

# id -> (technique, level text, level note, design ref)
CLAIMED = {
 "C03": ("runtime monitor: socket zoo on each medium fed with arbitrary bytes, valid frames of every protocol, structured mutants (checksum-repaired), replies to the stack's own frames and the upstream fuzz seeds; catch_unwind + tx cap + watchdog, then an independent liveness probe",
         "Exploration by runtime monitoring: ~10^5 (quick) / ~1.5*10^6 (thorough) sequences of 1..64 frames interleaved with time advances on Ethernet, raw-IP and IEEE 802.15.4 interfaces carrying TCP (listening/connecting/established), UDP, ICMP, raw, DNS and DHCPv4 sockets, multicast groups and both reassemblers. Every poll/poll_ingress_single/poll_egress/poll_at runs under catch_unwind with a 40 000-frames-per-poll cap and a 15 s watchdog; afterwards an ARP/NS + echo probe from an identity the fuzz traffic never used must be answered, and - after the reassembly timeout has passed - an echo request delivered as two fragments in reverse order (IPv4) or as FRAG1/FRAGN (6LoWPAN) as well. Failing histories are minimised. Profiles chk (overflow checks on) and rel.",
         "Trusted: the probe judge (independent parsers), the watchdog. Frames are built with smoltcp's own emitters where convenient - the oracle is 'no panic / returns / still answers', not frame correctness. A panic in poll_at is reported under its own prefix.",
         "DESIGN.md §4 C03"),
 "C09": ("runtime monitor: random socket programs with unique datagram ids; egress oracle = wire sequence per socket equals accepted sends (exactly once, in order, unmodified), ingress oracle = FIFO model of what may and must be in each receive buffer",
         "Exploration by runtime monitoring: 130 000 (quick) / ~3*10^6 (thorough) random programs of bind/close/send/send_slice/send_with/recv/recv_slice/peek/peek_slice on 1..4 UDP, ICMP and raw sockets (IPv4/IPv6, metadata rings 1..8, payload rings 1..4096 forcing wrap-around padding) interleaved with polls, blocked-device windows, token caps, immediate/late/absent neighbor resolution and inbound datagrams (fragmented, broadcast, bad checksums, wrong MAC). Every datagram carries a unique id; independent reassembly of IPv4 fragments. Part icmp-errors: ICMP sockets bound to a UDP/TCP port receive exactly the error messages that quote datagrams from that port, with the sender of the error as source.",
         "Trusted: harness/src/mon/c09.rs models, harness/src/sim/dgram.rs, harness/src/indep/x3. A datagram queued behind an unresolvable head of the same socket is not owed; among several matching UDP sockets any one may deliver.",
         "DESIGN.md §4 C09"),
 "C10": ("runtime monitor: independent frame validator (written from the RFCs) applied to every frame emitted by dedicated traffic scenarios on all three media, all MTU classes and checksum-offload settings, with garbage-prefilled transmit buffers",
         "Exploration by runtime monitoring: six scenario families (TCP transfers, datagram sockets with resolved/unresolved neighbors, replies to valid and invalid input incl. ICMP errors, DHCP with a scripted server applying Configured/Deconfigured, DNS/mDNS, multicast joins) on Ethernet, raw IP and IEEE 802.15.4, MTUs from the protocol minimum upward, every ChecksumCapabilities setting; ~1.8*10^6 frames (quick) judged by validate_frame: length fields consistent with each other and the frame size, mandatory checksums, option lists terminated/padded, DHCP/DNS/NDISC/MLD structure, 6LoWPAN dispatch/IPHC/fragment rules, frame <= MTU, and the source-address rule with its DHCP/MLD/raw-socket exemptions. Fragments are also reassembled and judged as datagrams.",
         "Trusted: harness/src/indep/x1/*.rs (validator and helper parsers; no call into smoltcp::wire), the scenario scripts in harness/src/sim/{traffic,scen}.rs. SHOULD-level rules (576-byte ICMPv4 limit, IGMP Router Alert) are not enforced.",
         "DESIGN.md §4 C10"),
 "C12": ("runtime monitor: independent IPv4 fragmenter/reassembler; egress parts reassemble everything the stack emits (single and back-to-back datagrams), ingress parts deliver every permutation with every single duplication of <= 4 fragments (sampled beyond, interleaved datagrams) to a fresh interface with a must-deliver rule from a range-set model",
         "Exploration by runtime monitoring: ~5.5*10^5 cases quick: every fragment <= MTU, 8-aligned, consistent id/MF, each accepted datagram one complete byte-exact reassembly, no id sharing or byte interleaving; ingress: delivered == original or nothing, and delivered whenever the arrival order never needs more open ranges than ASSEMBLER_MAX_SEGMENT_COUNT, the size fits REASSEMBLY_BUFFER_SIZE and a slot is free. Both the default build and chk-big (32 ranges, 4 slots, 4096-byte buffer).",
         "Trusted: harness/src/indep/x3/frag4.rs, the range-set model in harness/src/mon/c12.rs. Known finding: the single Fragmenter is overwritten by a second oversized datagram (known_findings.json).",
         "DESIGN.md §4 C12"),
 "C18": ("runtime monitor: the harness is the DHCP server/network (independent DHCP codec); event stream, poll_at and emitted messages judged against an upper bound of the lease computed from the delivered valid ACKs",
         "Exploration by runtime monitoring: ~39 000 scripted histories (quick) with OFFER/ACK/NAK/other, stale or foreign xid/chaddr, missing server-id, bad masks, non-unicast yiaddr, lease/T1/T2 in {absent,0,1,equal,inverted,60,2^32-1}, duplicates, reordering, loss, unanswered ARP, time advances over several leases, retry configurations and max-lease settings, polled by poll_at plus random early and late polls. Configured only after a valid ACK delivered after a transmission with the matching xid; Deconfigured by the first poll at or after E = (delivery + min(lease,max_lease)) of the most recent ACK the client is certain to have taken, raised by later ACKs it may have taken; poll_at <= E while configured; renew before rebind before expiry; bounded solicitation spacing.",
         "Trusted: harness/src/indep/x2/dhcp.rs, harness/src/sim/dhcp_net.rs. 'Valid ACK' is judged permissively (weakens the oracle only). Runs without guaranteed neighbor resolution report expiry problems under an ':arp-unreliable' suffix (recorded known finding).",
         "DESIGN.md §4 C18"),
 "C19": ("runtime monitor: the harness answers every DNS query (independent DNS codec with loop-safe decompression) with responses that are valid or wrong in exactly one respect, truncated, compressed in hostile ways or CNAME-chained; results, timing and termination judged",
         "Exploration by runtime monitoring: 40 000 cases quick (resolve / wrong-in-one-respect / fuzz / names): a query may complete with addresses only if a delivered response matched server, port, transaction id, QR and question, and the addresses are records on the CNAME chain of the queried name; every started query ends within servers x 25 s of virtual time under poll_at-driven polling; retransmission spacing non-decreasing and <= 10 s, next server not before 10 s; each case runs under a 30 s watchdog for non-returning calls. chk-big adds 3 servers / 4 results in the thorough tier.",
         "Trusted: harness/src/indep/x2/dns.rs, harness/src/sim/dns_net.rs. Liveness restated as bounded termination in virtual time.",
         "DESIGN.md §4 C19"),
 "C20": ("runtime monitor: two IEEE 802.15.4 hosts + an independent RFC 4944/6282 codec (802.15.4 MAC, IPHC, NHC, FRAG1/FRAGN, reassembler); frame-level and end-to-end comparison against independently constructed datagrams, fragment permutations, indep-built inbound frames",
         "Exploration by runtime monitoring: five parts (emit: UDP/ICMPv6 over the address-class x port-class x hop-limit x payload grid, compared on the link with the datagram an independent codec constructs and with a Medium::Ip twin, and end to end at B incl. a raw socket; tcp: transfers over 6LoWPAN; perm: every permutation with one duplication of <= 4 fragments (sampled beyond) with a must-deliver rule for trackable orders; recv: frames built by the independent compressor incl. context-based and elided-checksum forms; b2b: datagrams queued back to back). ~1.4*10^5 cases quick, ~10x thorough.",
         "Trusted: harness/src/indep/{ieee802154,lowpan,udp6,icmp6}.rs written from the RFCs, the bounded range-tracker model for 'trackable order'. Unicast A->B uses extended addresses (neighbor discovery cannot learn short ones). Known findings: fragmenter overwritten while busy, elided UDP checksum not recomputed, MLD report panic on 802.15.4 (known_findings.json).",
         "DESIGN.md §4 C20"),
 "C16": ("runtime monitor: harness plays all Ethernet neighbors (ARP and NDISC); evidence list of valid announcements + independently computed next hop judge every emitted unicast frame; discovery spacing and exactly-once delivery of queued datagrams",
         "Exploration by runtime monitoring: 4 000 (quick) / 150 000 (thorough) seeded scenarios of 30..250 steps on an Ethernet interface with IPv4 and IPv6, 2..12 on-link neighbors (more than the 8 / 3 cache slots of the two build variants), two gateways and an expiring route: timely / late (1, 3, 61 s) / absent answers, unsolicited and gratuitous announcements with another hardware address, off-link senders, hop limit 64, broadcast/multicast hardware addresses, ARP for another target, confirming and foreign-address inbound traffic, address changes, time steps straddling 1 s and 60 s. Every emitted unicast IP frame must go to a hardware address announced for its independently computed next hop by a valid message (or confirming traffic) less than 60 s ago; discovery requests >= 1 s apart; every accepted datagram appears exactly once after its next hop answers.",
         "Trusted: the evidence model and next-hop computation in harness/src/mon/c16.rs, the independent ARP/NDISC/UDP builders in harness/src/indep/mini.rs. Confirming traffic may revive a mapping that was announced once. IEEE 802.15.4 neighbor handling is only exercised by the C20 scenarios.",
         "DESIGN.md §4 C16"),
 "C11": ("runtime monitor: table-driven exhaustive class grid (one fresh interface per cell) judged by a decision table over socket deltas and emitted frames; 802.15.4 PAN filter part",
         "Exploration by runtime monitoring with an exhaustive finite grid: 64 000 cells = medium/link-layer destination (IP; Ethernet ours/other station/broadcast/multicast) x IPv4/IPv6 x 8 source classes x 10 destination classes x 10 protocols x 4 socket configurations x group joined, every cell visited in both tiers (thorough: 8 seeds per cell), plus 144 IEEE 802.15.4 cells (destination PAN ours/other/broadcast x link destination x IPv6 destination x UDP/echo x interface PAN set/unset). Each packet is injected with poll_ingress_single followed by one egress pass; socket deltas and emitted frames (parsed independently) are judged by the rules of the statement.",
         "Trusted: the decision table in harness/src/mon/c11.rs, the independent builders/parsers in harness/src/indep. any_ip is off. 802.15.4 frames of the PAN part are built with smoltcp's own emitters (the oracle does not judge them). A UDP socket bound to a specific address also receiving broadcast/multicast datagrams is treated as matching its endpoint (documented behaviour of udp::Socket).",
         "DESIGN.md §4 C11"),
 "C04": ("runtime monitor: scripted consistent peer (independent TCP codec) vs. one real socket; receiver model = bytes that arrived inside a window the socket advertised; every emitted ACK, every delivered byte and Finished are judged",
         "Exploration by runtime monitoring: 20 000 (quick) / 600 000 (thorough) scripted conversations of 20..400 events: segments placed left of, overlapping, inside, behind a hole, overrunning, at and beyond the advertised right edge, with/without FIN, duplicates, arbitrary ACK numbers and windows, ISNs near 2^31/2^32, receive buffers 1 B..70 000 B with and without window scaling, interleaved with reads. The monitor keeps the set S of bytes that arrived inside a window the socket had put on the wire; delivered bytes must equal the peer's bytes and stay within the contiguous prefix of S; every ACK number <= that prefix (+1 for an in-order in-window FIN); Finished only after every byte before the FIN.",
         "Trusted: harness/src/sim/tcp_peer.rs (receiver model, segment generator) and harness/src/indep (TCP/IP builder+parser). 'Advertised window' is the highest right edge ever put on the wire (weakest sound reading).",
         "DESIGN.md §4 C04"),
 "C17": ("runtime monitor: one event at a time (one injected segment, one egress pass with a time step, or one API call) with state() before/after, judged against an explicit table of permitted RFC 9293 edges whose guards are computed from the monitor's own bookkeeping",
         "Exploration by runtime monitoring: the scripted-peer simulation in state-machine focus (more RSTs, closes, aborts, ACK numbers around ISS / SND.UNA / SND.NXT / FIN+1 / beyond), 20 000 quick / 600 000 thorough conversations. Every state change must be an edge of the RFC 9293 diagram caused by the prescribed event: ESTABLISHED only on ack==ISS+1, CLOSE-WAIT/CLOSING/TIME-WAIT only on an in-order in-window FIN, FIN-WAIT-2 / LAST-ACK->CLOSED / CLOSING->TIME-WAIT only on ack==own FIN+1, resets only by an RST whose sequence number is inside the advertised window (or the expected RST|ACK in SYN-SENT), TIME-WAIT ends by its 10 s timer and only by it. In half of the conversations a cooperative epilogue follows (in-order, in-window stream, PSH on data, FIN|PSH|ACK at the end, cumulative ACKs, reliable link, application reading): there the FIN edge must be *taken* - whole stream delivered, FIN acknowledged, a FIN-received state reached. A third of the cases reuse the socket for further connections. Evidence lists the distinct (state,event,next) edges observed and the number of forbidden-edge attempts exercised.",
         "Trusted: the transition table and event classification in harness/src/sim/tcp_peer.rs. Unchanged states are never judged during the hostile script (only in the cooperative epilogue a transition is owed). close() in SYN-RECEIVED is a recorded defect (known_findings.json); runs containing it are attributed to it.",
         "DESIGN.md §4 C17"),
 "C06": ("runtime monitor: seeded generators for every wire Repr type; emit into zero/0xFF/garbage buffers of the declared length, parse back and compare; mutated-but-parsable packets re-emitted and re-parsed",
         "Exploration by runtime monitoring: 28 wire representation types (Ethernet ... 6LoWPAN fragments), ~2*10^5 (quick) / ~1.4*10^7 (thorough) generated values with boundary-biased fields; three passes per value (buffer independence + no panic, parse(emit(r)) == r, and parse(emit(parse(mutant))) == parse(mutant)). Every domain restriction applied by the generators is listed in the evidence file's assumptions.",
         "Trusted: the generators and structural diff in harness/src/gen/wire.rs and harness/src/mon/c06.rs; smoltcp's own fill_checksum is used to keep mutants parsable. Known findings (IPHC traffic-class/flow-label never emitted, 802.15.4 layouts emit does not implement, truncated ICMPv4/NDISC quotes) are listed in known_findings.json by exact signature.",
         "DESIGN.md §4 C06"),
 "C07": ("runtime monitor: hand-written accessor tables for every exported packet view, fed with arbitrary bytes, every truncation and single-field corruption of a corpus of well-formed packets, hostile DNS names and option lists; panic / non-termination capture",
         "Exploration by runtime monitoring: 25 view types x 303 accessor rows; ~1.8*10^6 (quick) / ~10^8 (thorough) inputs, each handed to every type: new_checked, every accessor applicable to the packet's own message type, Repr::parse with both checksum settings, Display and PrettyPrinter, all under catch_unwind with a helper-thread watchdog for calls that do not return. Profile chk keeps overflow checks and debug assertions on; thorough also runs the plain release profile.",
         "Trusted: the applicability predicates in harness/src/mon/c07/tables.rs (taken from the accessors' documentation), the watchdog (15 s per call: 10^7 x the normal cost).",
         "DESIGN.md §4 C07"),
 "C08": ("runtime monitor: independent RFC 1071 reference vs. checksum::data/combine/pseudo_header and the fill/verify helpers of IPv4, UDP, TCP, ICMPv4, ICMPv6 over all lengths and alignments; emitted-valid and enforced parts are judged by the frame validator and corruption drivers listed in the evidence parts",
         "Exploration by runtime monitoring: (a) every length 0..2048 (thorough 0..65535) at every start alignment 0..7 with random / all-zero / all-0xFF / single-non-zero-byte contents, combine over a boundary grid (thorough: all 2^32 pairs), pseudo headers v4/v6, fill_checksum followed by reference verification, verify_checksum against reference on checksum+-k and single bit flips, the UDP zero rule. (b) emitted valid: every IPv4 header / ICMPv4 / ICMPv6 / UDP / TCP checksum of every frame emitted by v4/v6 traffic scenarios verifies under the independent implementation for each offload setting with tx checksumming on (1.2*10^6 frames quick). (c) enforced: valid packets to live sockets (echo, UDP, TCP SYN/data, fragments, DHCP OFFER/ACK, DNS response, ICMP socket) with every single bit and sampled double bits of the checksummed region flipped (6*10^6 corrupted packets quick): if the reference says the packet no longer verifies it must emit no frame and change no observable socket quantity; accepted again with rx checksumming off.",
         "Trusted: the reference implementation in harness/src/mon/c08a.rs and harness/src/indep/cksum.rs (u64 accumulator over big-endian words, fold, complement).",
         "DESIGN.md §4 C08"),
 "C01": ("runtime monitor: two real endpoints over a seeded faulty link, offset-keyed stream content compared at every recv (history + executable model)",
         "Exploration by runtime monitoring: 15 000 (quick) / 600 000 (thorough) seeded executions of two real smoltcp interfaces (IPv4/IPv6, IP and Ethernet media, MTU 68..1500, buffers 1 B..256 KiB with window scaling, none/Reno/CUBIC, Nagle, delayed ACK, timestamps) joined by a link that drops, duplicates, delays, reorders and corrupts one byte per seeded fate schedule; every byte handed to either application is compared with the peer's byte at that stream offset and Finished is only accepted once the peer closed and everything was handed over. A third of the completed runs (and every run the applications abort half-way) reuse the same two sockets for further connections; keep-alive is on for a share of the sockets; half of the socket sets have a hole in front of the TCP socket. Evidence reports bytes compared, retransmissions, reorderings, corruptions and sequence wraps actually observed.",
         "Trusted: the simulator and stream oracle (harness/src/sim/tcpsim.rs), the independent TCP/IP parser used for statistics. Corruption is single-byte (always detected). Executions not generated are not judged; ISN wrap coverage comes from a committed table of seeds that is re-measured on the tree under test (counted in evidence).",
         "DESIGN.md §4 C01"),
 "C02": ("runtime monitor: poll_at-driven two-endpoint simulation with a per-step safety invariant (finite deadline while SYN/FIN/data unacknowledged), a quiescence check and a bounded-progress check in virtual time",
         "Exploration by runtime monitoring: the same simulation polled only on frame arrival and at the instant poll_at last returned. (I) after every poll a socket with an unacknowledged SYN/FIN or queued data must report a finite deadline; (Q) an execution with nothing in flight, no deadline and no enabled application action must be complete; (B) once the network is reliable, some observable progress at least every 900 virtual seconds until all bytes are delivered and both sockets are CLOSED/TIME-WAIT. Liveness is restated as bounded progress; slower livelocks are out of reach.",
         "Trusted: the scheduler discipline in harness/src/sim/tcpsim.rs (never polls later than promised, never earlier except for the explicit early polls), the 900 s bound (RTO and persist back-off are capped at 60 s).",
         "DESIGN.md §4 C02"),
 "C05": ("runtime monitor: per-segment sender oracle fed only by frames delivered to the socket and by the application's writes (window edge, MSS/MTU, content, ordering, FIN placement, window-field scaling)",
         "Exploration by runtime monitoring: every segment emitted by both sockets of the two-endpoint simulation (15 000 quick / 600 000 thorough executions) is judged by an independent monitor: data within the highest right edge ever delivered (one-byte probes excepted), payload+options within announced MSS (clamped at 48, 536 if absent) and MTU, payload equal to the application's bytes also when retransmitted, no gap in new data, FIN exactly at the end of the written stream, SYN window unscaled, later windows within the buffer under the negotiated shift.",
         "Trusted: harness/src/mon/tcp_sender.rs and the independent TCP parser. 'Learned window' is read as the maximum right edge ever delivered (weakest sound reading). Peers with arbitrary MSS / window-scale announcements are driven by the scripted-peer part when present (see evidence parts).",
         "DESIGN.md §4 C05"),
 "C13": ("runtime monitor: extra polls at instants before the deadline promised by poll_at must transmit nothing (S); polls without rx/tx must leave a strictly later deadline (N); riding on every simulation driver",
         "Exploration by runtime monitoring: (S) between an answer of Interface::poll_at and the next frame reception or socket/interface call, extra polls at random instants in [now, deadline) (first, last, interior; any instant when the answer is None) and the drivers' own early polls must transmit nothing; (N) a poll that neither received nor transmitted on a device that hands out tokens must leave poll_at None or strictly later. Drivers: the two-endpoint TCP simulation (all TCP timers) and - through a probe inside the simulated host that tracks every mutable access to the socket set and the interface - datagram sockets with unresolved neighbors, egress fragmentation, neighbor-discovery back-off, DHCP, DNS/mDNS and the scenario families with SLAAC on/off with and without router advertisements: ~6*10^7 evaluations quick. IGMP/MLD reports are ignored as the statement says.",
         "Trusted: the probe placement logic (harness/src/sim/tcpsim.rs, harness/src/sim/hostprobe.rs, Host::poll in harness/src/sim/mod.rs). Only the drivers listed in the evidence file are covered; intervals in which the driver touched a socket are not judged.",
         "DESIGN.md §4 C13"),
 "C14": ("runtime monitor: executable queue model compared with the real RingBuffer/PacketBuffer after every operation; reachable-state closure + random programs",
         "Exploration by runtime monitoring: every operation with every argument is applied from every reachable (read pointer, length, staged-set) state of small buffers (closure, capacities 0..5 quick / 0..9 thorough) and in 40 000 (quick) / 4 000 000 (thorough) random programs on capacities up to 4096; each step's return value, slice length/content and every observer is compared with a VecDeque model using unique element ids. Held on what was executed, not a proof.",
         "Trusted: the model (harness/src/mon/c14.rs), rustc, that staged elements survive dequeues/enqueue_unallocated and are invalidated by queue-interface enqueues/clear. Refusals of a non-empty PacketBuffer are not judged.",
         "DESIGN.md §4 C14"),
 "C15": ("runtime monitor: bitmap reference model vs. the real Assembler; exhaustive reachable-state closure over a bounded universe + random walks, for max 4 and max 32 ranges",
         "Exploration by runtime monitoring with an exhaustive small scope: all reachable tracker states over a universe of 14 (quick) / 18 (thorough) offsets with max 4 ranges, and 11/14 offsets with max 32 ranges (build variant chk-big), times every add/remove_front/add_then_remove_front/clear with every argument inside the universe; plus random walks over universes up to 120 offsets in which the 32-range limit binds. Both directions of 'refused only when' are judged.",
         "Trusted: the bitmap model (harness/src/mon/c15.rs), Assembler's Clone/PartialEq for the 'unchanged' judgement. Offsets beyond the universe are covered by the walks only.",
         "DESIGN.md §4 C15"),
}

NOT_YET = "monitor not built yet in this revision of /verif (see DESIGN.md §11 build order); no claim is made"

def main():
    props = [json.loads(l) for l in open(os.path.join(HERE, "properties.jsonl"))]
    checks = []
    na = []
    for p in props:
        pid = p["id"]
        if pid in CLAIMED:
            tech, text, note, ref = CLAIMED[pid]
            checks.append({
                "property_id": pid,
                "quick_cmd": f"./check {pid} quick",
                "thorough_cmd": f"./check {pid} thorough",
                "evidence_file": f"/verif/evidence/{pid}.json",
                "replay_cmd_template": "./check --replay {path}",
                "engine": "vmon",
                "level_claimed": {"category": "exploration", "text": text, "design_ref": ref},
                "level_note": note,
                "technique": tech,
            })
        else:
            na.append({"property_id": pid, "reason": NOT_YET})
    m = {
        "version": 1,
        "setup_cmd": "./check --setup",
        "hooks": {
            "guard": "--cfg smoltcp_verif",
            "enable": "checks build /repo as a path dependency with RUSTFLAGS='--cfg smoltcp_verif' (see ./check, ensure_build)",
            "baseline_off_cmd": "cd /repo && CARGO_NET_OFFLINE=true cargo test --workspace --no-fail-fast --offline",
            "source_commits": HOOK_COMMITS,
            "add_only": True,
        },
        "engines": [{
            "name": "vmon",
            "path": "/verif/harness",
            "serves_properties": sorted(CLAIMED),
            "kind_free_text": "Rust harness crate (no dependencies except smoltcp by path) holding simulators, reference models, an independent codec and one monitor per property; ./check builds it against /repo's working tree in profiles chk (opt+debug-assertions+overflow-checks), chk-big (larger compile-time limits) and rel, runs it, merges evidence and applies known_findings.json",
        }],
        "checks": checks,
        "notes": "Technique family: runtime monitoring. Verdicts are three-valued: exit 0 held / exit 1 VIOLATION / exit 3 INCONCLUSIVE (never on the unchanged tree). Known findings: /verif/known_findings.json. VERIF_SEED selects the PRNG stream.",
        "not_applicable": na,
    }
    json.dump(m, open(os.path.join(HERE, "MANIFEST.json"), "w"), indent=1)
    print("claimed:", sorted(CLAIMED), "unclaimed:", [x["property_id"] for x in na])

if __name__ == "__main__":
    main()
