#!/usr/bin/env python3
"""Regenerates /verif/MANIFEST.json from the table below (run after claiming a new property)."""
import json, os
HERE = os.path.dirname(os.path.dirname(os.path.abspath(__file__)))

HOOK_COMMITS = []

# id -> (technique, level text, level note, design ref)
CLAIMED = {
 "C14": ("runtime monitor: executable queue model compared with the real RingBuffer/PacketBuffer after every operation; reachable-state closure + random programs",
         "Exploration by runtime monitoring: every operation with every argument is applied from every reachable (read pointer, length, staged-set) state of small buffers (closure, capacities 0..5 quick / 0..9 thorough) and in 40 000 (quick) / 4 000 000 (thorough) random programs on capacities up to 4096; each step's return value, slice length/content and every observer is compared with a VecDeque model using unique element ids. Held on what was executed, not a proof.",
         "Trusted: the model (harness/src/mon/c14.rs), rustc, that staged elements survive dequeues/enqueue_unallocated and are invalidated by queue-interface enqueues/clear. Refusals of a non-empty PacketBuffer are not judged.",
         "DESIGN.md §4 C14"),
 "C15": ("runtime monitor: bitmap reference model vs. the real Assembler; exhaustive reachable-state closure over a bounded universe + random walks, for max 4 and max 32 ranges",
         "Exploration by runtime monitoring with an exhaustive small scope: all reachable tracker states over a universe of 14 (quick) / 18 (thorough) offsets with max 4 ranges, and 11/14 offsets with max 32 ranges (build variant chk-big), times every add/remove_front/add_then_remove_front/clear with every argument inside the universe; plus random walks over universes up to 120 offsets in which the 32-range limit binds. Both directions of 'refused only when' are judged.",
         "Trusted: the bitmap model (harness/src/mon/c15.rs), Assembler's Clone/PartialEq for the 'unchanged' judgement. Offsets beyond the universe are covered by the walks only.",
         "DESIGN.md §4 C15"),
}

NOT_YET = "monitor not built yet in this revision of /verif (see DESIGN.md §11 build order); no claim is made"

def main():
    props = [json.loads(l) for l in open(os.path.join(HERE, "properties.jsonl"))]
    checks = []
    na = []
    for p in props:
        pid = p["id"]
        if pid in CLAIMED:
            tech, text, note, ref = CLAIMED[pid]
            checks.append({
                "property_id": pid,
                "quick_cmd": f"./check {pid} quick",
                "thorough_cmd": f"./check {pid} thorough",
                "evidence_file": f"/verif/evidence/{pid}.json",
                "replay_cmd_template": "./check --replay {path}",
                "engine": "vmon",
                "level_claimed": {"category": "exploration", "text": text, "design_ref": ref},
                "level_note": note,
                "technique": tech,
            })
        else:
            na.append({"property_id": pid, "reason": NOT_YET})
    m = {
        "version": 1,
        "setup_cmd": "./check --setup",
        "hooks": {
            "guard": "--cfg smoltcp_verif",
            "enable": "checks build /repo as a path dependency with RUSTFLAGS='--cfg smoltcp_verif' (see ./check, ensure_build)",
            "baseline_off_cmd": "cd /repo && CARGO_NET_OFFLINE=true cargo test --workspace --no-fail-fast --offline",
            "source_commits": HOOK_COMMITS,
            "add_only": True,
        },
        "engines": [{
            "name": "vmon",
            "path": "/verif/harness",
            "serves_properties": sorted(CLAIMED),
            "kind_free_text": "Rust harness crate (no dependencies except smoltcp by path) holding simulators, reference models, an independent codec and one monitor per property; ./check builds it against /repo's working tree in profiles chk (opt+debug-assertions+overflow-checks), chk-big (larger compile-time limits) and rel, runs it, merges evidence and applies known_findings.json",
        }],
        "checks": checks,
        "notes": "Technique family: runtime monitoring. Verdicts are three-valued: exit 0 held / exit 1 VIOLATION / exit 3 INCONCLUSIVE (never on the unchanged tree). Known findings: /verif/known_findings.json. VERIF_SEED selects the PRNG stream.",
        "not_applicable": na,
    }
    json.dump(m, open(os.path.join(HERE, "MANIFEST.json"), "w"), indent=1)
    print("claimed:", sorted(CLAIMED), "unclaimed:", [x["property_id"] for x in na])

if __name__ == "__main__":
    main()
