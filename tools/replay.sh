#!/bin/bash
# tools/replay.sh <prop> <part> <case> [variant-dir]   (uses VERIF_REPO build if given)
bd=${4:-chk}
./build/$bd/target/release/vmon $1 quick --replay $2 $3 2>&1
