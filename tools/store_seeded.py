#!/usr/bin/env python3
"""Copies a confirmed mutant from an agent's worktree into /verif/seeded/<id>/."""
import json, os, shutil, sys, re
def main():
    prop = sys.argv[1]
    wt = f"/tmp/wt-{prop}"
    summ = open(f"/tmp/confirm/{prop}.summary").read().splitlines()
    notes = open(os.path.join(wt, "_out", "notes.md")).read() if os.path.exists(os.path.join(wt, "_out", "notes.md")) else ""
    for k in (1, 2):
        line = [l for l in summ if l.startswith(f"{prop} mutant{k}:")]
        if not line or "suite_exit=0" not in line[0] or "demo_with_mutant_exit=101" not in line[0] or "demo_clean_exit=0" not in line[0]:
            print("not confirmed:", prop, k, line); continue
        sid = f"{prop}-m{k}"
        d = f"/verif/seeded/{sid}"
        os.makedirs(d, exist_ok=True)
        shutil.copy(os.path.join(wt, "_out", f"mutant{k}.diff"), os.path.join(d, "patch.diff"))
        demos = [f for f in os.listdir(f"/tmp/confirm/{prop}-demos") if re.search(rf"_{k}\.rs$", f)]
        shutil.copy(os.path.join(f"/tmp/confirm/{prop}-demos", demos[0]), os.path.join(d, demos[0]))
        meta = {
            "id": sid,
            "breaks_property": prop,
            "origin": "independent sub-agent given only the property text and a scratch worktree of the pinned commit",
            "demonstration": demos[0],
            "demonstration_cmd": f"cp {demos[0]} <repo>/tests/ && CARGO_NET_OFFLINE=true cargo test --offline --test {demos[0][:-3]}",
            "confirmed_by_me": {
                "worktree_commit": "HEAD of /repo at the time the agent ran (pinned commit + fix: commits made until then)",
                "existing_suite_with_patch": re.search(r"\[(.*?)\]", line[0]).group(1),
                "demo_with_patch": "fails (exit 101)",
                "demo_without_patch": "passes (exit 0)",
                "commands": "git apply patch.diff; cargo test --workspace --offline (demo files moved out); cargo test --offline --test <demo>; git checkout -- src; cargo test --offline --test <demo>",
            },
            "needs_to_manifest": "see notes.md (agent's description)",
            "detected_by": "filled in by tools/run_seeded.py (see seeded/RESULTS.md)",
        }
        json.dump(meta, open(os.path.join(d, "meta.json"), "w"), indent=1)
        open(os.path.join(d, "notes.md"), "w").write(notes)
        print("stored", sid)
main()
