#!/bin/bash
# usage: tools/mutant.sh <patch.diff> <tier> <prop> [prop...]
# applies a seeded change to /repo, runs the given checks, and undoes it again.
set -u
patch="$1"; tier="$2"; shift 2
cd /repo || exit 2
if ! git diff --quiet; then echo "/repo has uncommitted changes"; exit 2; fi
git apply "$patch" || { echo "patch does not apply"; exit 2; }
trap 'git -C /repo checkout -- . ' EXIT
cd /verif
for p in "$@"; do
  echo "=== $p ($tier) with $(basename $(dirname $patch))/$(basename $patch)"
  ./check "$p" "$tier" 2>/dev/null | grep -E "VIOLATION|HELD|INCONCLUSIVE|KNOWN|^  \[" | cut -c1-400
  echo "exit=${PIPESTATUS[0]}"
done
