#!/bin/bash
# usage: tools/mutant.sh <patch.diff> <tier> <prop> [prop...]
# Applies a seeded change to a scratch worktree of /repo's HEAD (/tmp/vmut), runs the given
# checks against it through VERIF_REPO, and removes the patch again.  (While no other job uses
# /repo the same can be done in place: git -C /repo apply <patch>; ./check ...; git -C /repo checkout -- .)
set -u
patch="$(realpath "$1")"; tier="$2"; shift 2
VMUT="${VMUT:-/tmp/vmut}"   # a second scratch worktree (VMUT=/tmp/vmut2) lets two runs go on side by side
if [ ! -d "$VMUT" ]; then git -C /repo worktree add --detach "$VMUT" HEAD >/dev/null 2>&1 || exit 2; fi
cd "$VMUT" && git checkout -q --detach "$(git -C /repo rev-parse HEAD)" && git checkout -q -- . || exit 2
if ! git apply "$patch" 2>/dev/null; then
  if ! git apply --3way "$patch" >/dev/null 2>&1; then echo "PATCH-DOES-NOT-APPLY $patch"; git reset -q --hard; exit 2; fi
  git reset -q
fi
cd /verif
for p in "$@"; do
  out=$(VERIF_REPO="$VMUT" ./check "$p" "$tier" 2>/dev/null); rc=$?
  echo "=== $p ($tier) $(basename $(dirname $patch)) exit=$rc"
  echo "$out" | grep -E "VIOLATION|HELD|INCONCLUSIVE|^  \[" | cut -c1-260 | head -8
done
cd "$VMUT" && git checkout -q -- .
