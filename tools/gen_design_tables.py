#!/usr/bin/env python3
"""Regenerate the tables of DESIGN.md section 5.1 / 5.2 from known_findings.json and /repo's git log.

usage: tools/gen_design_tables.py        (rewrites the region between the GENERATED markers)
"""
import json, os, subprocess, sys

HERE = os.path.dirname(os.path.dirname(os.path.abspath(__file__)))
BASE = "595426e"
k = json.load(open(os.path.join(HERE, "known_findings.json")))
log = subprocess.check_output(["git", "-C", "/repo", "log", "--format=%h %s", f"{BASE}..HEAD"], text=True).splitlines()
fx = [f for f in k["findings"] if f["status"] == "fixed"]
kn = [f for f in k["findings"] if f["status"] == "known"]
bycommit = {}
for f in fx:
    bycommit.setdefault(f["commit"][:7], []).append(f)
out = []
out.append(f"### 5.1 Genuine defects repaired in `/repo` ({len(log)} commits)\n\n")
out.append("One unguarded commit each, message starting `fix:`, touching only what the defect requires; the unedited suite "
           "(673 tests + 7 doc tests) passes after every one. `known_findings.json` holds one `fixed:` entry per (property, commit) "
           "with the failing input; the table quotes it. Oldest first.\n\n")
out.append("| commit | subject | found by | failing input / history |\n|---|---|---|---|\n")
missing = []
for l in reversed(log):
    h, s = l.split(" ", 1)
    fs = bycommit.get(h[:7], [])
    if not fs:
        missing.append(l)
    props = ", ".join(sorted(set(f["property"] for f in fs))) or "?"
    what = "; ".join(f["what"] for f in fs)[:330].replace("|", "/").replace("\n", " ")
    out.append(f"| `{h}` | {s[5:] if s.startswith('fix: ') else s} | {props} | {what} |\n")
out.append(f"\n### 5.2 Genuine defects recorded as known findings ({len(kn)} signatures, not repaired)\n\n")
out.append("Each is keyed by the monitor's semantic signature; a different violation of the same property still exits 1. "
           "The check prints one `KNOWN-FINDING:` line per entry of its property and says whether this run's workload reproduced it.\n\n"
           "| property | signature | what fails, and why it is not repaired here |\n|---|---|---|\n")
for f in sorted(kn, key=lambda f: f["property"]):
    out.append(f"| {f['property']} | `{f['signature'][:110]}` | {f['what'][:520].replace('|', '/')} |\n")
text = "".join(out)
p = os.path.join(HERE, "DESIGN.md")
s = open(p).read()
b, e = "<!-- BEGIN GENERATED (tools/gen_design_tables.py) -->\n", "<!-- END GENERATED -->\n"
if b not in s or e not in s:
    sys.exit("markers not found in DESIGN.md")
s = s[: s.index(b) + len(b)] + text + s[s.index(e):]
open(p, "w").write(s)
if missing:
    print("commits without a fixed: entry:", missing)
print(f"{len(log)} fixes, {len(kn)} known findings")
