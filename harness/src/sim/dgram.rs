//! Datagram scenario substrate shared by C09 (datagram sockets) and C12 (IPv4
//! fragmentation): one smoltcp host on a link whose other side is the harness.
//! The harness side answers ARP / Neighbor Solicitations itself (immediately, late
//! or never), builds inbound datagrams with `indep`, and judges every transmitted
//! frame with `indep` only.
use super::*;
use crate::indep::x3::eth::{self, Eth, Mac};
use crate::indep::{self, ip, Addr};
use crate::indep::x3::{frag4, icmp as iicmp, udp as iudp};
use crate::util::rng::{mix, stream_byte, Rng};
use smoltcp::iface::Config;
use smoltcp::phy::Medium;
use smoltcp::wire::{EthernetAddress, HardwareAddress, IpAddress, IpCidr, Ipv4Address, Ipv6Address};

// ------------------------------------------------------------------ address plan

pub const HOST_MAC: Mac = [0x02, 0, 0, 0, 0, 0x01];
pub const GW_MAC: Mac = [0x02, 0, 0, 0, 0, 0xfe];

pub fn a4(a: u8, b: u8, c: u8, d: u8) -> Addr {
    Addr::V4([a, b, c, d])
}
/// fd00::<last> (on-link prefix fd00::/64) or fd77::<last> (off-link)
pub fn a6(prefix: u16, last: u16) -> Addr {
    let mut a = [0u8; 16];
    a[0] = (prefix >> 8) as u8;
    a[1] = prefix as u8;
    a[14] = (last >> 8) as u8;
    a[15] = last as u8;
    Addr::V6(a)
}
pub fn host_addr(v6: bool) -> Addr {
    if v6 {
        a6(0xfd00, 1)
    } else {
        a4(192, 168, 1, 1)
    }
}
pub fn gw_addr(v6: bool) -> Addr {
    if v6 {
        a6(0xfd00, 0xfe)
    } else {
        a4(192, 168, 1, 254)
    }
}
pub const SUBNET_BROADCAST: Addr = Addr::V4([192, 168, 1, 255]);
pub const LIMITED_BROADCAST: Addr = Addr::V4([255, 255, 255, 255]);
pub const ALL_SYSTEMS_V4: Addr = Addr::V4([224, 0, 0, 1]);
pub const ALL_NODES_V6: Addr = Addr::V6([0xff, 0x02, 0, 0, 0, 0, 0, 0, 0, 0, 0, 0, 0, 0, 0, 1]);

#[derive(Clone, Debug)]
pub struct Peer {
    pub name: &'static str,
    pub v4: Addr,
    pub v6: Addr,
    pub mac: Mac,
    pub on_link: bool,
    /// false: nobody ever answers ARP / NS for this address
    pub resolves: bool,
}

impl Peer {
    pub fn addr(&self, v6: bool) -> Addr {
        if v6 {
            self.v6
        } else {
            self.v4
        }
    }
    /// MAC address frames of this peer arrive from (its own, or the gateway's when off-link)
    pub fn link_mac(&self) -> Mac {
        if self.on_link {
            self.mac
        } else {
            GW_MAC
        }
    }
}

pub const PEER_NEVER: usize = 3;

pub fn peers() -> Vec<Peer> {
    vec![
        Peer { name: "P0", v4: a4(192, 168, 1, 10), v6: a6(0xfd00, 0x10), mac: [0x02, 0, 0, 0, 1, 0x10], on_link: true, resolves: true },
        Peer { name: "P1", v4: a4(192, 168, 1, 11), v6: a6(0xfd00, 0x11), mac: [0x02, 0, 0, 0, 1, 0x11], on_link: true, resolves: true },
        Peer { name: "P2-offlink", v4: a4(10, 9, 8, 7), v6: a6(0xfd77, 7), mac: [0x02, 0, 0, 0, 1, 0x12], on_link: false, resolves: true },
        Peer { name: "PN-never", v4: a4(192, 168, 1, 99), v6: a6(0xfd00, 0x99), mac: [0x02, 0, 0, 0, 1, 0x99], on_link: true, resolves: false },
    ]
}

fn on_link(a: &Addr) -> bool {
    match a {
        Addr::V4(b) => b[0] == 192 && b[1] == 168 && b[2] == 1,
        Addr::V6(b) => b[0] == 0xfd && b[1] == 0 && b[2..8].iter().all(|x| *x == 0),
    }
}

#[derive(Clone, Copy, Debug, PartialEq)]
pub enum Hop {
    Mac(Mac),
    /// nobody answers neighbor discovery for the next hop: a frame must never appear
    Never,
}

/// Ethernet destination a frame for IP destination `dst` must carry.
pub fn hop_for(dst: &Addr) -> Hop {
    if *dst == LIMITED_BROADCAST || *dst == SUBNET_BROADCAST {
        return Hop::Mac(eth::BROADCAST);
    }
    if dst.is_multicast() {
        return Hop::Mac(match dst {
            Addr::V4(a) => eth::mcast_mac_v4(a),
            Addr::V6(a) => eth::mcast_mac_v6(a),
        });
    }
    if !on_link(dst) {
        return Hop::Mac(GW_MAC);
    }
    if *dst == gw_addr(false) || *dst == gw_addr(true) {
        return Hop::Mac(GW_MAC);
    }
    for p in peers() {
        if (p.v4 == *dst || p.v6 == *dst) && p.resolves {
            return Hop::Mac(p.mac);
        }
    }
    Hop::Never
}

/// Does the host's interface accept a packet for this destination at all?
pub fn host_accepts_dst(dst: &Addr) -> bool {
    *dst == host_addr(false)
        || *dst == host_addr(true)
        || *dst == LIMITED_BROADCAST
        || *dst == SUBNET_BROADCAST
        || *dst == ALL_SYSTEMS_V4
        || *dst == ALL_NODES_V6
}

pub fn cidr(a: &Addr, prefix: u8) -> IpCidr {
    IpCidr::new(a.to_smol(), prefix)
}

// ------------------------------------------------------------------ host construction

#[derive(Clone, Debug)]
pub struct NetCfg {
    pub ethernet: bool,
    /// IP MTU (the device MTU is 14 bytes larger on Ethernet)
    pub ip_mtu: usize,
}

impl NetCfg {
    pub fn medium(&self) -> Medium {
        if self.ethernet {
            Medium::Ethernet
        } else {
            Medium::Ip
        }
    }
}

pub fn make_host(cfg: &NetCfg, seed: u64, now: Micros) -> Host {
    let dev_mtu = if cfg.ethernet { cfg.ip_mtu + 14 } else { cfg.ip_mtu };
    let dev = SimDevice::new(cfg.medium(), dev_mtu);
    let hw = if cfg.ethernet { HardwareAddress::Ethernet(EthernetAddress(HOST_MAC)) } else { HardwareAddress::Ip };
    let mut c = Config::new(hw);
    c.random_seed = seed;
    let addrs = [cidr(&host_addr(false), 24), cidr(&host_addr(true), 64)];
    let mut h = Host::with_config(dev, c, &addrs, now);
    if let IpAddress::Ipv4(g) = gw_addr(false).to_smol() {
        let _ = h.iface.routes_mut().add_default_ipv4_route(g);
    }
    if let IpAddress::Ipv6(g) = gw_addr(true).to_smol() {
        let _ = h.iface.routes_mut().add_default_ipv6_route(g);
    }
    h
}

pub fn smol4(a: &Addr) -> Ipv4Address {
    match a.to_smol() {
        IpAddress::Ipv4(x) => x,
        _ => panic!("not an IPv4 address"),
    }
}
pub fn smol6(a: &Addr) -> Ipv6Address {
    match a.to_smol() {
        IpAddress::Ipv6(x) => x,
        _ => panic!("not an IPv6 address"),
    }
}

// ------------------------------------------------------------------ link layer helpers

/// Wrap an IP packet for delivery to the host (Ethernet: from `src_mac` to the host's MAC).
pub fn wrap_for_host(cfg: &NetCfg, src_mac: &Mac, dst_mac: &Mac, ip_pkt: &[u8]) -> Vec<u8> {
    if cfg.ethernet {
        let et = if ip_pkt[0] >> 4 == 6 { eth::ETHERTYPE_IPV6 } else { eth::ETHERTYPE_IPV4 };
        let mut f = eth::build(dst_mac, src_mac, et, ip_pkt);
        // real network interfaces pad short frames to 60 octets (without FCS): half of the short
        // frames arrive padded, with non-zero filler (the IP length fields say where the packet ends)
        if f.len() < 60 && ip_pkt.iter().fold(0u8, |a, b| a ^ b) & 1 == 1 {
            f.resize(60, 0xEE);
        }
        f
    } else {
        ip_pkt.to_vec()
    }
}

/// What a transmitted frame is, judged by `indep`.
pub enum Frame<'a> {
    Arp(Eth, eth::Arp),
    /// Neighbor solicitation / advertisement sent by the host
    Nd(Option<Eth>, ip::IpInfo, eth::Nd),
    Ip(Option<Eth>, &'a [u8]),
    Bad(&'static str, String),
}

pub fn classify<'a>(cfg: &NetCfg, frame: &'a [u8]) -> Frame<'a> {
    let (eh, pl): (Option<Eth>, &[u8]) = if cfg.ethernet {
        match eth::parse(frame) {
            Ok((e, p)) => (Some(e), p),
            Err(e) => return Frame::Bad("link:malformed", e),
        }
    } else {
        (None, frame)
    };
    if let Some(e) = &eh {
        match e.ethertype {
            eth::ETHERTYPE_ARP => {
                return match eth::parse_arp(pl) {
                    Ok(a) => Frame::Arp(e.clone(), a),
                    Err(m) => Frame::Bad("arp:malformed", m),
                }
            }
            eth::ETHERTYPE_IPV4 | eth::ETHERTYPE_IPV6 => {}
            t => return Frame::Bad("link:ethertype", format!("ethertype {:#06x}", t)),
        }
        if pl.is_empty() {
            return Frame::Bad("ip:malformed", "empty Ethernet payload".into());
        }
        let want = if pl[0] >> 4 == 6 { eth::ETHERTYPE_IPV6 } else { eth::ETHERTYPE_IPV4 };
        if e.ethertype != want {
            return Frame::Bad("link:ethertype", format!("ethertype {:#06x} carries an IP version {} packet", e.ethertype, pl[0] >> 4));
        }
    }
    if pl.is_empty() {
        return Frame::Bad("ip:malformed", "empty frame".into());
    }
    if pl[0] >> 4 == 6 {
        if let Ok(info) = ip::parse_v6(pl, true) {
            if info.proto == ip::PROTO_ICMPV6 && info.payload_len >= 1 {
                let t = pl[info.payload_off];
                if t == iicmp::V6_NEIGHBOR_SOLICIT || t == iicmp::V6_NEIGHBOR_ADVERT {
                    return match eth::parse_nd(&info.src, &info.dst, &pl[info.payload_off..info.payload_off + info.payload_len]) {
                        Ok(nd) => Frame::Nd(eh, info, nd),
                        Err(m) => Frame::Bad("ndisc:malformed", m),
                    };
                }
            }
        }
    }
    Frame::Ip(eh, pl)
}

// ------------------------------------------------------------------ the harness side of the link

pub struct Net {
    pub cfg: NetCfg,
    /// delay range (us) before a neighbor request is answered; (0,0) = at once
    pub delay: (Micros, Micros),
    pub replies: Vec<(Micros, Vec<u8>)>,
    pub arp_requests: u64,
    pub ns_requests: u64,
    pub never_requests: u64,
    pub answered: u64,
}

impl Net {
    pub fn new(cfg: NetCfg) -> Net {
        Net { cfg, delay: (0, 0), replies: Vec::new(), arp_requests: 0, ns_requests: 0, never_requests: 0, answered: 0 }
    }

    fn mac_of_neighbor(a: &Addr) -> Option<Mac> {
        if *a == gw_addr(false) || *a == gw_addr(true) {
            return Some(GW_MAC);
        }
        peers().into_iter().find(|p| p.resolves && p.on_link && (p.v4 == *a || p.v6 == *a)).map(|p| p.mac)
    }

    /// React to an ARP request / neighbor solicitation of the host.  Returns true
    /// if it was a request for a neighbor that will be answered.
    pub fn on_frame(&mut self, now: Micros, f: &Frame, rng: &mut Rng) -> bool {
        let d = if self.delay.1 > 0 { rng.range(self.delay.0 as u64, self.delay.1 as u64) as Micros } else { 0 };
        match f {
            Frame::Arp(_, a) if a.op == eth::ARP_REQUEST => {
                self.arp_requests += 1;
                let target = Addr::V4(a.tpa);
                match Net::mac_of_neighbor(&target) {
                    Some(mac) => {
                        let rep = eth::Arp { op: eth::ARP_REPLY, sha: mac, spa: a.tpa, tha: a.sha, tpa: a.spa };
                        let fr = eth::build(&a.sha, &mac, eth::ETHERTYPE_ARP, &eth::build_arp(&rep));
                        self.replies.push((now + d, fr));
                        self.answered += 1;
                        true
                    }
                    None => {
                        self.never_requests += 1;
                        false
                    }
                }
            }
            Frame::Nd(_, info, nd) if nd.ty == 135 => {
                self.ns_requests += 1;
                let target = Addr::V6(nd.target);
                match Net::mac_of_neighbor(&target) {
                    Some(mac) => {
                        let na = eth::Nd { ty: 136, flags: eth::NA_FLAG_SOLICITED | eth::NA_FLAG_OVERRIDE, target: nd.target, lladdr: Some(mac), checksum_ok: true };
                        let msg = eth::build_nd(&target, &info.src, &na);
                        let pkt = ip::build(&target, &info.src, ip::PROTO_ICMPV6, 255, &msg);
                        let fr = eth::build(&HOST_MAC, &mac, eth::ETHERTYPE_IPV6, &pkt);
                        self.replies.push((now + d, fr));
                        self.answered += 1;
                        true
                    }
                    None => {
                        self.never_requests += 1;
                        false
                    }
                }
            }
            _ => false,
        }
    }

    /// Replies whose time has come.
    pub fn due(&mut self, now: Micros) -> Vec<Vec<u8>> {
        let mut out = Vec::new();
        let mut i = 0;
        while i < self.replies.len() {
            if self.replies[i].0 <= now {
                out.push(self.replies.remove(i).1);
            } else {
                i += 1;
            }
        }
        out
    }

    /// An unsolicited ARP request / NS from peer `p` to the host: the host learns the peer's MAC from it.
    pub fn announce(&self, p: &Peer, v6: bool) -> Vec<u8> {
        if v6 {
            let Addr::V6(h) = host_addr(true) else { unreachable!() };
            let sol = Addr::V6(eth::solicited_node(&h));
            let ns = eth::Nd { ty: 135, flags: 0, target: h, lladdr: Some(p.mac), checksum_ok: true };
            let msg = eth::build_nd(&p.v6, &sol, &ns);
            let pkt = ip::build(&p.v6, &sol, ip::PROTO_ICMPV6, 255, &msg);
            let Addr::V6(s) = sol else { unreachable!() };
            eth::build(&eth::mcast_mac_v6(&s), &p.mac, eth::ETHERTYPE_IPV6, &pkt)
        } else {
            let (Addr::V4(spa), Addr::V4(tpa)) = (p.v4, host_addr(false)) else { unreachable!() };
            let req = eth::Arp { op: eth::ARP_REQUEST, sha: p.mac, spa, tha: [0; 6], tpa };
            eth::build(&eth::BROADCAST, &p.mac, eth::ETHERTYPE_ARP, &eth::build_arp(&req))
        }
    }
}

// ------------------------------------------------------------------ wire monitor

#[derive(Clone, Debug)]
pub struct WireDgram {
    /// wire index of the first / last frame that carried a piece of it
    pub first_idx: u64,
    pub last_idx: u64,
    pub pieces: Vec<frag4::Piece>,
    pub info: ip::IpInfo,
    /// the complete IP packet (reassembled if it was fragmented)
    pub packet: Vec<u8>,
    pub dst_mac: Option<Mac>,
}

impl WireDgram {
    pub fn payload(&self) -> &[u8] {
        &self.packet[self.info.payload_off..self.info.payload_off + self.info.payload_len]
    }
    pub fn fragmented(&self) -> bool {
        self.pieces.len() > 1
    }
}

#[derive(Clone, Debug)]
pub struct WireDefect {
    /// signature fragment: "link:src-mac", "ip:exceeds-mtu", "frag:overlap", ...
    pub kind: String,
    pub msg: String,
    pub frame_hex: String,
    pub idx: u64,
}

/// Follows the frames transmitted by the host: link/IP level checks on every
/// frame, IPv4 reassembly, and delivery of complete datagrams in the order of
/// their FIRST fragment (a datagram that started earlier but is still incomplete
/// holds back the ones that started later).
pub struct Wire {
    pub cfg: NetCfg,
    pub idx: u64,
    pub reasm: frag4::Reassembler,
    held: Vec<WireDgram>,
    pub defects: Vec<WireDefect>,
    pub ip_frames: u64,
    pub fragments: u64,
    pub fragmented_datagrams: u64,
    pub max_frags: usize,
    /// destination MAC of the first fragment per key (all fragments must agree)
    frag_mac: Vec<(frag4::FragKey, Option<Mac>)>,
    /// every IPv4 fragment seen: (wire index, key, payload offset, payload length, MF)
    pub frag_log: Vec<(u64, frag4::FragKey, usize, usize, bool)>,
    pub trace: bool,
}

pub fn hex(b: &[u8]) -> String {
    let mut s = String::with_capacity(b.len() * 2);
    for x in b {
        s.push_str(&format!("{:02x}", x));
    }
    s
}
pub fn hex_cap(b: &[u8], cap: usize) -> String {
    if b.len() <= cap {
        hex(b)
    } else {
        format!("{}..({} bytes)", hex(&b[..cap]), b.len())
    }
}

impl Wire {
    pub fn new(cfg: NetCfg) -> Wire {
        Wire {
            cfg,
            idx: 0,
            reasm: frag4::Reassembler::new(),
            held: Vec::new(),
            defects: Vec::new(),
            ip_frames: 0,
            fragments: 0,
            fragmented_datagrams: 0,
            max_frags: 0,
            frag_mac: Vec::new(),
            frag_log: Vec::new(),
            trace: false,
        }
    }

    fn defect(&mut self, kind: &str, msg: String, frame: &[u8]) {
        if self.trace {
            println!("      !! wire defect {}: {}", kind, msg);
        }
        if self.defects.len() < 16 {
            self.defects.push(WireDefect { kind: kind.to_string(), msg, frame_hex: hex_cap(frame, 96), idx: self.idx });
        }
    }

    /// Feed one IP frame (already classified).  Returns nothing; call `ready()`.
    pub fn on_ip(&mut self, eh: Option<&Eth>, pkt: &[u8]) {
        let idx = self.idx;
        self.idx += 1;
        self.ip_frames += 1;
        if let Some(e) = eh {
            if e.src != HOST_MAC {
                self.defect("link:src-mac", format!("frame sent with source MAC {}", eth::mac_str(&e.src)), pkt);
            }
        }
        let info = match ip::parse(pkt, true) {
            Ok(i) => i,
            Err(m) => {
                self.defect("ip:malformed", m, pkt);
                return;
            }
        };
        if !info.v4_header_ok {
            self.defect("ip:header-checksum", "IPv4 header checksum does not verify".into(), pkt);
            return;
        }
        if info.total_len > self.cfg.ip_mtu {
            self.defect("ip:exceeds-mtu", format!("IP packet of {} bytes on a link with IP MTU {}", info.total_len, self.cfg.ip_mtu), pkt);
        }
        if let Some(e) = eh {
            match hop_for(&info.dst) {
                Hop::Mac(m) if m == e.dst => {}
                Hop::Mac(m) => self.defect(
                    "link:dst-mac",
                    format!("packet for {} sent to MAC {}, next hop has {}", info.dst, eth::mac_str(&e.dst), eth::mac_str(&m)),
                    pkt,
                ),
                Hop::Never => self.defect(
                    "link:dst-unresolved",
                    format!("packet for {} sent to MAC {} although nobody ever answered for that neighbor", info.dst, eth::mac_str(&e.dst)),
                    pkt,
                ),
            }
        }
        let dst_mac = eh.map(|e| e.dst);
        if !info.src.is_v4() {
            self.held.push(WireDgram {
                first_idx: idx,
                last_idx: idx,
                pieces: vec![frag4::Piece { off: 0, len: info.payload_len, mf: false, idx }],
                packet: pkt[..info.total_len].to_vec(),
                info,
                dst_mac,
            });
            return;
        }
        let is_frag = info.more_frags || info.frag_offset != 0;
        if is_frag {
            self.fragments += 1;
            let key = frag4::key_of(pkt);
            if self.frag_log.len() < 4096 {
                self.frag_log.push((idx, key, info.frag_offset, info.payload_len, info.more_frags));
            }
            match self.frag_mac.iter().find(|(k, _)| *k == key) {
                Some((_, m)) if *m != dst_mac => {
                    self.defect("frag:dst-mac-differs", format!("fragments of {} sent to different MAC addresses", key), pkt);
                }
                Some(_) => {}
                None => self.frag_mac.push((key, dst_mac)),
            }
            if self.trace {
                println!(
                    "      frag {} off {} len {} {}",
                    key,
                    info.frag_offset,
                    info.payload_len,
                    if info.more_frags { "MF" } else { "last" }
                );
            }
        }
        match self.reasm.push(idx, pkt) {
            Ok(Some(done)) => {
                if done.pieces.len() > 1 {
                    self.fragmented_datagrams += 1;
                    self.max_frags = self.max_frags.max(done.pieces.len());
                    self.frag_mac.retain(|(k, _)| *k != done.key);
                }
                match ip::parse_v4(&done.packet, true) {
                    Ok(i2) => self.held.push(WireDgram { first_idx: done.first_idx, last_idx: done.last_idx, pieces: done.pieces, info: i2, packet: done.packet, dst_mac }),
                    Err(m) => self.defect("frag:reassembly-malformed", m, pkt),
                }
            }
            Ok(None) => {}
            Err(d) => self.defect(&format!("frag:{}", d.kind), d.msg, pkt),
        }
    }

    /// Complete datagrams that may be judged now, ordered by first fragment.
    pub fn ready(&mut self, flush: bool) -> Vec<WireDgram> {
        let bound = if flush { u64::MAX } else { self.reasm.partials.iter().map(|p| p.first_idx).min().unwrap_or(u64::MAX) };
        self.held.sort_by_key(|d| d.first_idx);
        let mut out = Vec::new();
        let mut rest = Vec::new();
        for d in std::mem::take(&mut self.held) {
            if d.first_idx < bound {
                out.push(d);
            } else {
                rest.push(d);
            }
        }
        self.held = rest;
        out
    }

    pub fn held_count(&self) -> usize {
        self.held.len()
    }
}

// ------------------------------------------------------------------ expectations

/// Payload of datagram number `n` of socket `sock` in the case tagged `tag`:
/// content is keyed by (tag, sock, n, offset), so any misplaced, merged or
/// foreign byte shows with probability 255/256.
pub fn payload(tag: u64, sock: usize, n: u32, len: usize) -> Vec<u8> {
    let t = mix(&[tag, sock as u64, n as u64]);
    (0..len).map(|i| stream_byte(t, i as u64)).collect()
}

#[derive(Clone, Debug, PartialEq)]
pub enum Body {
    Udp { sport: u16, dport: u16, payload: Vec<u8> },
    /// complete ICMP message as handed to the socket (compared modulo checksum field)
    Icmp { msg: Vec<u8> },
    Raw { payload: Vec<u8> },
}

impl Body {
    pub fn l4_len(&self) -> usize {
        match self {
            Body::Udp { payload, .. } => 8 + payload.len(),
            Body::Icmp { msg } => msg.len(),
            Body::Raw { payload } => payload.len(),
        }
    }
    pub fn kind(&self) -> &'static str {
        match self {
            Body::Udp { .. } => "udp",
            Body::Icmp { .. } => "icmp",
            Body::Raw { .. } => "raw",
        }
    }
}

#[derive(Clone, Debug)]
pub struct Expected {
    pub proto: u8,
    /// required source address; None = any address of the host of that family
    pub src: Option<Addr>,
    pub dst: Addr,
    pub hop: u8,
    pub body: Body,
}

impl Expected {
    pub fn ip_len(&self) -> usize {
        (if self.dst.is_v4() { 20 } else { 40 }) + self.body.l4_len()
    }
    pub fn describe(&self) -> String {
        let b = match &self.body {
            Body::Udp { sport, dport, payload } => format!("UDP {}->{} payload[{}]={}", sport, dport, payload.len(), hex_cap(payload, 24)),
            Body::Icmp { msg } => format!("ICMP msg[{}]={}", msg.len(), hex_cap(msg, 24)),
            Body::Raw { payload } => format!("raw proto {} payload[{}]={}", self.proto, payload.len(), hex_cap(payload, 24)),
        };
        format!(
            "{} -> {} hop {} {}",
            self.src.map(|s| s.to_string()).unwrap_or_else(|| "<any host address>".into()),
            self.dst,
            self.hop,
            b
        )
    }
}

fn cmp_bytes(what: &str, want: &[u8], got: &[u8]) -> Result<(), (String, String)> {
    if want == got {
        return Ok(());
    }
    let kind = if got.len() < want.len() && want[..got.len()] == *got {
        "truncated"
    } else if got.len() > want.len() && got[..want.len()] == *want {
        "extended"
    } else if got.len() != want.len() {
        "length-and-content"
    } else {
        "modified"
    };
    let first = want.iter().zip(got.iter()).position(|(a, b)| a != b).unwrap_or(want.len().min(got.len()));
    Err((
        format!("{}-{}", what, kind),
        format!("{}: sent {} bytes {}, wire carries {} bytes {} (first difference at offset {})", what, want.len(), hex_cap(want, 32), got.len(), hex_cap(got, 32), first),
    ))
}

/// Compare a datagram seen on the wire with what the application handed to the
/// socket.  Err((field, explanation)).
pub fn compare(exp: &Expected, d: &WireDgram) -> Result<(), (String, String)> {
    if d.info.dst != exp.dst {
        return Err(("dst-addr".into(), format!("sent to {}, wire destination is {}", exp.dst, d.info.dst)));
    }
    match exp.src {
        Some(s) if s != d.info.src => return Err(("src-addr".into(), format!("source address {} was requested, wire source is {}", s, d.info.src))),
        None if d.info.src != host_addr(!d.info.src.is_v4()) => {
            return Err(("src-addr".into(), format!("wire source {} is not an address of the host", d.info.src)));
        }
        _ => {}
    }
    if d.info.proto != exp.proto {
        return Err(("protocol".into(), format!("protocol {} expected, wire has {}", exp.proto, d.info.proto)));
    }
    if d.info.hop_limit != exp.hop {
        return Err(("hop-limit".into(), format!("hop limit {} expected, wire has {}", exp.hop, d.info.hop_limit)));
    }
    let pl = d.payload();
    match &exp.body {
        Body::Udp { sport, dport, payload } => {
            let u = iudp::parse(&d.info.src, &d.info.dst, pl).map_err(|e| ("udp-malformed".to_string(), e))?;
            if u.sport != *sport || u.dport != *dport {
                return Err(("udp-ports".into(), format!("ports {}->{} expected, wire has {}->{}", sport, dport, u.sport, u.dport)));
            }
            cmp_bytes("payload", payload, &u.payload)?;
            // (a zero checksum is legal on IPv4, RFC 768; `checksum_ok` already refuses it on IPv6)
            if !u.checksum_ok {
                return Err(("udp-checksum".into(), format!("UDP checksum {:#06x} does not verify", u.checksum)));
            }
        }
        Body::Icmp { msg } => {
            cmp_bytes("message", &iicmp::without_checksum(msg), &iicmp::without_checksum(pl))?;
            let ok = if d.info.src.is_v4() { iicmp::parse4(pl).map(|m| m.checksum_ok) } else { iicmp::parse6(&d.info.src, &d.info.dst, pl).map(|m| m.checksum_ok) };
            if ok != Ok(true) {
                return Err(("icmp-checksum".into(), "ICMP checksum does not verify".into()));
            }
        }
        Body::Raw { payload } => cmp_bytes("payload", payload, pl)?,
    }
    Ok(())
}

// ------------------------------------------------------------------ inbound datagram builders

#[derive(Clone, Debug)]
pub struct Inbound {
    pub src: Addr,
    pub dst: Addr,
    pub proto: u8,
    pub hop: u8,
    /// IP payload (UDP datagram / ICMP message / raw payload)
    pub l4: Vec<u8>,
    pub src_mac: Mac,
}

impl Inbound {
    pub fn packet(&self, ident: u16) -> Vec<u8> {
        match (&self.src, &self.dst) {
            (Addr::V4(s), Addr::V4(d)) => ip::build_v4(s, d, self.proto, self.hop, ident, false, false, 0, &self.l4),
            _ => ip::build(&self.src, &self.dst, self.proto, self.hop, &self.l4),
        }
    }
    /// Ethernet destination used when the packet is delivered to the host
    pub fn dst_mac(&self) -> Mac {
        match hop_for(&self.dst) {
            Hop::Mac(m) if self.dst.is_multicast() || self.dst == LIMITED_BROADCAST || self.dst == SUBNET_BROADCAST => m,
            _ => HOST_MAC,
        }
    }
}

/// Frames delivering `inb`; IPv4 packets are cut at `cuts` (payload offsets) if given.
pub fn frames_for(cfg: &NetCfg, inb: &Inbound, ident: u16, cuts: &[usize]) -> indep::R<Vec<Vec<u8>>> {
    frames_for_opts(cfg, inb, ident, cuts, &[])
}

/// The same with IPv4 options (`opts`, a multiple of 4 octets, at most 40) in the header of every
/// piece: IHL, total length and header checksum are adjusted, nothing else changes.
pub fn frames_for_opts(cfg: &NetCfg, inb: &Inbound, ident: u16, cuts: &[usize], opts: &[u8]) -> indep::R<Vec<Vec<u8>>> {
    let pkt = inb.packet(ident);
    let mut pieces = if inb.src.is_v4() && !cuts.is_empty() { frag4::fragment_at(&pkt, cuts)? } else { vec![pkt] };
    if inb.src.is_v4() && !opts.is_empty() && opts.len() % 4 == 0 && opts.len() <= 40 {
        for p in pieces.iter_mut() {
            let mut q = Vec::with_capacity(p.len() + opts.len());
            q.extend_from_slice(&p[..20]);
            q.extend_from_slice(opts);
            q.extend_from_slice(&p[20..]);
            q[0] = 0x40 | ((20 + opts.len()) / 4) as u8;
            let tl = q.len() as u16;
            indep::put16(&mut q, 2, tl);
            indep::put16(&mut q, 10, 0);
            let c = indep::cksum::checksum(&[&q[..20 + opts.len()]]);
            indep::put16(&mut q, 10, c);
            *p = q;
        }
    }
    Ok(pieces.iter().map(|p| wrap_for_host(cfg, &inb.src_mac, &inb.dst_mac(), p)).collect())
}
