//! A scripted TCP peer (harness code, frames built with `indep`) talking to ONE
//! smoltcp socket through a real `Interface`, one event at a time.  Feeds the
//! oracles of C04 (receiver accepts exactly the in-window in-sequence bytes),
//! C17 (state diagram) and C05 part ii (sender discipline against arbitrary
//! peers: MSS / window-scale / shrinking windows / duplicate ACKs).
use super::*;
use crate::indep::{ip, tcp as itcp, Addr};
use crate::mon::tcp_sender::SenderMon;
use crate::util::json::Json;
use crate::util::rng::{stream_byte, Rng};
use crate::util::run::Violation;
use smoltcp::iface::SocketHandle;
use smoltcp::socket::tcp::{self, State};
use smoltcp::time::Duration;
use smoltcp::wire::{IpAddress, IpCidr, IpEndpoint, Ipv4Address, Ipv6Address};

const SOCK_PORT: u16 = 80;
const PEER_PORT: u16 = 40000;

#[derive(Clone, Debug)]
pub struct PeerCfg {
    pub v6: bool,
    pub mtu: usize,
    pub rx_buf: usize,
    pub tx_buf: usize,
    pub active: bool,
    pub peer_mss: Option<u16>,
    pub peer_ws: Option<u8>,
    pub peer_ts: bool,
    pub peer_sack: bool,
    pub irs: u32,
    pub fin_at: u64,
    pub sock_total: u64,
    pub nagle: bool,
    pub ack_delay_ms: Option<u64>,
    pub cc: u8,
    pub seed: u64,
    pub steps: usize,
    /// 0: receiver-centred (C04), 1: state-machine-centred (C17), 2: sender-centred (C05)
    pub focus: u8,
    pub keep_alive_ms: Option<u64>,
    /// user timeout (`set_timeout`): the socket aborts when the peer stays silent that long
    pub timeout_ms: Option<u64>,
    /// a peer that acknowledges sparingly (mostly partial ACKs and "everything but the last octet /
    /// the FIN"), closes its window often, and talks to a socket without keep-alive or user timeout:
    /// the socket's data and FIN stay in flight for long, its retransmission timers carry the run
    pub stingy: bool,
}

pub fn random_cfg(rng: &mut Rng, focus: u8) -> PeerCfg {
    let v6 = rng.chance(1, 3);
    let min_mtu = if v6 { 1280 } else { 68 };
    let any_mtu = rng.urange(min_mtu, 1500);
    let mtu = *rng.pick(&[min_mtu, 1500, 576.max(min_mtu), any_mtu]);
    let rx_buf = match rng.below(7) {
        0 => 1,
        1 => rng.urange(2, 64),
        2 => rng.urange(64, 600),
        3 => 1460,
        4 => rng.urange(600, 5000),
        5 => rng.urange(65536, 70000),
        _ => 65535,
    };
    let irs = match rng.below(10) {
        0 => u32::MAX - rng.below(3000) as u32,
        1 => 0x7fff_ffff - rng.below(3000) as u32,
        2 => 0,
        _ => rng.u32(),
    };
    let stingy = focus == 2 && rng.chance(1, 3);
    PeerCfg {
        v6,
        mtu,
        rx_buf,
        tx_buf: *rng.pick(&[1usize, 64, 1000, 4096, 65535, 100_000]),
        active: rng.chance(1, 3),
        peer_mss: *rng.pick(&[None, Some(0), Some(1), Some(47), Some(48), Some(100), Some(536), Some(1460), Some(65535)]),
        peer_ws: *rng.pick(&[None, None, Some(0), Some(1), Some(2), Some(7), Some(14), Some(15), Some(255)]),
        peer_ts: rng.chance(1, 3),
        peer_sack: rng.bool(),
        irs,
        fin_at: match rng.below(5) {
            0 => 0,
            1 => rng.range(1, 20),
            // (with a receive buffer above 64 KiB the stream may be longer than the largest unscaled window)
            _ => rng.range(20, (rx_buf as u64 * 6).clamp(200, if rx_buf > 65535 { 150_000 } else { 20_000 })),
        },
        sock_total: if focus == 2 { rng.range(100, 30_000) } else { *rng.pick(&[0u64, 0, 5, 300, 5000]) },
        nagle: rng.bool(),
        ack_delay_ms: *rng.pick(&[None, Some(10), Some(200)]),
        cc: rng.below(3) as u8,
        seed: rng.next_u64(),
        steps: rng.urange(20, 400),
        focus,
        keep_alive_ms: if stingy { None } else { *rng.pick(&[None, None, None, Some(500u64), Some(5_000), Some(75_000)]) },
        timeout_ms: if stingy { None } else { *rng.pick(&[None, None, None, None, None, Some(500u64), Some(3_000), Some(30_000)]) },
        stingy,
    }
}

pub struct Tagged {
    pub prop: &'static str,
    pub v: Violation,
}

#[derive(Default, Clone, Debug)]
pub struct PeerStats {
    pub events: u64,
    pub segs_injected: u64,
    pub seg_class: Vec<String>,
    pub transitions: Vec<String>,
    pub forbidden_attempts: u64,
    pub acks_checked: u64,
    pub reads: u64,
    pub bytes_delivered: u64,
    pub max_holes: usize,
    pub finished: bool,
    pub wrap: bool,
    pub blind_rsts: u64,
    pub state_checks: u64,
    pub syns_with_data: u64,
    pub coop_epilogues: u64,
    pub coop_completed: u64,
    /// C02 in its safety form: instants at which the socket had sequence space on the wire that the
    /// peer never acknowledged (so it owes a retransmission) and its poll_at answer was examined
    pub owed_retransmission_checks: u64,
    pub sack_blocks_checked: u64,
    pub keep_alive_calls: u64,
    pub keep_alive_calls_in_time_wait: u64,
}

pub struct PeerSim {
    pub cfg: PeerCfg,
    host: Host,
    h: SocketHandle,
    now: Micros,
    me: Addr,   // socket side
    peer: Addr, // scripted side
    tag_peer: u64,
    // ---- what the socket told us
    iss: Option<u32>,
    sock_ws: Option<u8>,
    last_ack_emitted: Option<u32>,
    last_edge_emitted: Option<u32>,
    edge_max_off: i64,
    snd_max: u32, // highest seq+len seen from the socket
    sock_fin_seen: bool,
    // ---- receiver model (offsets relative to IRS+1)
    ranges: Vec<(u64, u64)>,
    fin_arrived_entitled: bool,
    delivered: u64,
    finished_seen: bool,
    peer_syn_sent: bool,
    // ---- socket app
    written: u64,
    close_at: Option<u64>,
    aborted: bool,
    // ---- state machine bookkeeping
    from_listen: bool,
    closed_in_syn_received: bool,
    tw_entered: Option<Micros>,
    tw_last_touch: Micros,
    /// when this incarnation of the socket was opened (earliest instant its user timeout can count from)
    opened_at: Micros,
    peer_acked_max: u32,
    /// highest ACK number the peer ever put on a segment that the socket could have accepted
    /// (up to everything queued, sent or not, plus the FIN): the socket may have advanced SND.UNA to it
    peer_ack_sent_max: Option<u32>,
    /// every distinct ACK number the peer ever sent (bounded list)
    peer_acks_sent: Vec<u32>,
    pub smon: SenderMon,
    pub stats: PeerStats,
    pub violations: Vec<Tagged>,
    pub log: Vec<String>,
    pub verbose: bool,
}

fn add_range(v: &mut Vec<(u64, u64)>, a: u64, b: u64) {
    if a >= b {
        return;
    }
    v.push((a, b));
    v.sort();
    let mut out: Vec<(u64, u64)> = Vec::new();
    for &(s, e) in v.iter() {
        if let Some(l) = out.last_mut() {
            if s <= l.1 {
                l.1 = l.1.max(e);
                continue;
            }
        }
        out.push((s, e));
    }
    *v = out;
}

#[derive(Clone, Debug)]
enum SegEvent {
    /// peer SYN (maybe with ACK)
    /// `data`: octets of the peer's stream (from offset 0) carried on the SYN itself
    Syn { ack: Option<u32>, data: usize },
    Data { seq: u32, len: usize, fin: bool, ack: Option<u32>, wnd: u16, rst: bool, place: &'static str, ackc: &'static str },
}

impl PeerSim {
    fn addrs(v6: bool) -> (IpAddress, IpAddress) {
        if v6 {
            (
                IpAddress::Ipv6(Ipv6Address::new(0xfd00, 0, 0, 0, 0, 0, 0, 1)),
                IpAddress::Ipv6(Ipv6Address::new(0xfd00, 0, 0, 0, 0, 0, 0, 2)),
            )
        } else {
            (IpAddress::Ipv4(Ipv4Address::new(10, 0, 0, 1)), IpAddress::Ipv4(Ipv4Address::new(10, 0, 0, 2)))
        }
    }

    pub fn new(cfg: PeerCfg, case_tag: u64) -> PeerSim {
        let (a_me, _) = Self::addrs(cfg.v6);
        let plen = if cfg.v6 { 64 } else { 24 };
        let mut host = Host::new(Medium::Ip, cfg.mtu, HardwareAddress::Ip, cfg.seed, &[IpCidr::new(a_me, plen)], 0);
        let s = tcp::Socket::new(tcp::SocketBuffer::new(vec![0u8; cfg.rx_buf]), tcp::SocketBuffer::new(vec![0u8; cfg.tx_buf]));
        let h = host.sockets.add(s);
        Self::on_host(host, h, 0, cfg, case_tag)
    }

    /// Socket reuse: the same socket (and interface) serves another connection with another peer
    /// configuration.  A socket that is not CLOSED is aborted first, except that TIME-WAIT is
    /// sometimes left to expire by itself.  Returns None when the socket cannot be opened again.
    pub fn reuse(mut self, mut cfg: PeerCfg, case_tag: u64, let_time_wait_expire: bool) -> Option<PeerSim> {
        if self.state() == State::TimeWait && let_time_wait_expire {
            for _ in 0..30 {
                self.now += 500_000;
                let _ = self.host.poll(self.now);
                if self.state() == State::Closed {
                    break;
                }
            }
        }
        // a listener that fell back to LISTEN (RST during the handshake) keeps listening for the
        // next peer when the new configuration is a passive open: nothing is called on the socket
        let keep_listening = self.state() == State::Listen && !cfg.active;
        if !keep_listening {
            if self.state() != State::Closed {
                self.sock().abort();
                let _ = self.host.poll(self.now);
            }
            if self.state() != State::Closed {
                return None;
            }
        }
        self.host.dev.rx.clear();
        cfg.v6 = self.cfg.v6;
        cfg.mtu = self.cfg.mtu;
        cfg.rx_buf = self.cfg.rx_buf;
        cfg.tx_buf = self.cfg.tx_buf;
        cfg.seed = self.cfg.seed;
        let now = self.now + 1_000;
        let PeerSim { host, h, .. } = self;
        Some(Self::on_host_ex(host, h, now, cfg, case_tag, keep_listening))
    }

    fn on_host(host: Host, h: SocketHandle, now: Micros, cfg: PeerCfg, case_tag: u64) -> PeerSim {
        Self::on_host_ex(host, h, now, cfg, case_tag, false)
    }

    fn on_host_ex(mut host: Host, h: SocketHandle, now: Micros, cfg: PeerCfg, case_tag: u64, already_listening: bool) -> PeerSim {
        let (a_me, a_peer) = Self::addrs(cfg.v6);
        {
            let s = host.sockets.get_mut::<tcp::Socket>(h);
            s.set_nagle_enabled(cfg.nagle);
            s.set_ack_delay(cfg.ack_delay_ms.map(Duration::from_millis));
            s.set_keep_alive(cfg.keep_alive_ms.map(Duration::from_millis));
            s.set_timeout(cfg.timeout_ms.map(Duration::from_millis));
            s.set_congestion_control(match cfg.cc {
                0 => tcp::CongestionControl::None,
                1 => tcp::CongestionControl::Reno,
                _ => tcp::CongestionControl::Cubic,
            });
        }
        let me = Addr::from_smol(a_me);
        let peer = Addr::from_smol(a_peer);
        let tag_sock = case_tag ^ 0xaaaa;
        let mut smon = SenderMon::new(tag_sock, me, peer, SOCK_PORT, PEER_PORT, cfg.mtu, cfg.rx_buf);
        smon.keep_alive = cfg.keep_alive_ms.is_some();
        let mut sim = PeerSim {
            host,
            h,
            now,
            me,
            peer,
            tag_peer: case_tag ^ 0x5555,
            iss: None,
            sock_ws: None,
            last_ack_emitted: None,
            last_edge_emitted: None,
            edge_max_off: 0,
            snd_max: 0,
            sock_fin_seen: false,
            ranges: Vec::new(),
            fin_arrived_entitled: false,
            delivered: 0,
            finished_seen: false,
            peer_syn_sent: false,
            written: 0,
            close_at: None,
            aborted: false,
            from_listen: false,
            closed_in_syn_received: false,
            tw_entered: None,
            tw_last_touch: now,
            opened_at: now,
            peer_acked_max: 0,
            peer_ack_sent_max: None,
            peer_acks_sent: Vec::new(),
            smon,
            stats: PeerStats::default(),
            violations: Vec::new(),
            log: Vec::new(),
            verbose: false,
            cfg,
        };
        // open the socket
        if sim.cfg.active {
            let cx = sim.host.iface.context();
            sim.host.sockets.get_mut::<tcp::Socket>(h).connect(cx, IpEndpoint::new(a_peer, PEER_PORT), SOCK_PORT).expect("connect");
        } else {
            if !already_listening {
                sim.host.sockets.get_mut::<tcp::Socket>(h).listen(SOCK_PORT).expect("listen");
            }
            sim.from_listen = true;
        }
        sim
    }

    fn sock(&mut self) -> &mut tcp::Socket<'static> {
        self.host.sockets.get_mut::<tcp::Socket>(self.h)
    }
    pub fn state(&mut self) -> State {
        self.sock().state()
    }

    fn note(&mut self, s: String) {
        if self.verbose {
            println!("{:>12.6} {}", self.now as f64 / 1e6, s);
        }
        if self.log.len() >= 80 {
            self.log.remove(0);
        }
        self.log.push(format!("{:.6} {}", self.now as f64 / 1e6, s));
    }

    fn violate(&mut self, prop: &'static str, sig: String, desc: String) {
        // close() in SYN-RECEIVED is a recorded defect of the socket (the SYN is treated as
        // acknowledged, no SYN|ACK is ever sent again, the FIN goes out at the SYN's sequence
        // number): everything observed afterwards in such a run carries that signature
        let sig = if self.closed_in_syn_received && (prop == "C17" || prop == "C05") && !sig.starts_with("edge:close-in-SYN-RECEIVED") && !sig.starts_with("fin:at-the-sequence") {
            format!("after-close-in-SYN-RECEIVED:{}", if prop == "C17" { "state-machine" } else { "sender" })
        } else {
            sig
        };
        if self.violations.iter().any(|t| t.prop == prop && t.v.sig == sig) {
            return;
        }
        if self.verbose {
            println!("{:>12.6} !!! VIOLATION {} [{}] {}", self.now as f64 / 1e6, prop, sig, desc);
        }
        let v = Violation::new(sig, format!("t={:.6}s: {}", self.now as f64 / 1e6, desc)).with(
            Json::obj()
                .set("config", Json::s(format!("{:?}", self.cfg)))
                .set("history_tail", Json::Arr(self.log.iter().map(|s| Json::s(s.clone())).collect())),
        );
        self.violations.push(Tagged { prop, v });
    }

    // ------------------------------------------------------------ model helpers
    fn contig(&self) -> u64 {
        match self.ranges.first() {
            Some((0, e)) => *e,
            _ => 0,
        }
    }
    /// upper bound on the socket's RCV.NXT as a sequence number
    fn rcv_nxt_upper(&self) -> u32 {
        let c = self.contig();
        let fin = self.fin_arrived_entitled && c >= self.cfg.fin_at;
        self.cfg.irs.wrapping_add(1).wrapping_add(c as u32).wrapping_add(fin as u32)
    }
    fn peer_off(&self, seq: u32) -> i64 {
        // offset of a peer sequence number relative to IRS+1, unwrapped around the in-order point
        let base = self.contig();
        let bseq = self.cfg.irs.wrapping_add(1).wrapping_add(base as u32);
        base as i64 + itcp::seq_diff(seq, bseq)
    }
    fn shift_for_sock_windows(&self) -> u32 {
        match (self.sock_ws, self.cfg.peer_ws) {
            (Some(s), Some(_)) => s.min(14) as u32,
            _ => 0,
        }
    }

    // ------------------------------------------------------------ frames from the socket
    fn on_emitted(&mut self, recs: Vec<TxRec>) {
        for r in recs {
            let viol = self.smon.on_emitted(self.now, &r.data);
            for (sig, desc) in viol {
                self.violate("C05", sig, desc);
            }
            let Ok(info) = ip::parse(&r.data, true) else { continue };
            if info.proto != ip::PROTO_TCP {
                continue;
            }
            let Ok(seg) = itcp::parse(&info.src, &info.dst, &r.data[info.payload_off..info.payload_off + info.payload_len]) else {
                continue;
            };
            self.note(format!(
                "sock tx  {} seq={} ack={} wnd={} len={}",
                seg.flag_str(),
                seg.seq,
                seg.ack,
                seg.wnd,
                seg.payload.len()
            ));
            if seg.sport != SOCK_PORT || seg.dport != PEER_PORT {
                continue;
            }
            if seg.is(itcp::RST) {
                continue;
            }
            if seg.is(itcp::SYN) {
                if self.iss.is_none() {
                    self.iss = Some(seg.seq);
                    self.sock_ws = seg.wscale;
                    self.snd_max = seg.seq.wrapping_add(1);
                }
                if !seg.is(itcp::ACK) {
                    // active open: the window of the bare SYN is already an advertisement
                    self.edge_max_off = self.edge_max_off.max(seg.wnd as i64);
                }
            }
            let end = seg.seq.wrapping_add(seg.seg_len());
            if self.iss.is_some() && itcp::seq_lt(self.snd_max, end) {
                self.snd_max = end;
            }
            if seg.is(itcp::FIN) {
                self.sock_fin_seen = true;
            }
            if seg.is(itcp::ACK) && self.peer_syn_sent {
                // ---- C04: the acknowledgment number never covers a byte (or FIN) not received in-window
                self.stats.acks_checked += 1;
                let a = self.peer_off(seg.ack);
                let c = self.contig() as i64;
                let fin_ok = self.fin_arrived_entitled && self.contig() >= self.cfg.fin_at;
                let limit = c + fin_ok as i64;
                if a > limit {
                    let (ranges, fin_at) = (self.ranges.clone(), self.cfg.fin_at);
                    self.violate(
                        "C04",
                        if a == c + 1 && !fin_ok && c as u64 == fin_at { "ack:covers-fin-not-received".into() } else { "ack:covers-bytes-not-received-in-window".into() },
                        format!(
                            "socket acknowledges stream offset {} but only [0,{}) was delivered to it inside a window it advertised (in-window ranges received: {:?}, peer FIN at {}, FIN received in order: {}, highest right edge ever advertised: {})",
                            a, c, ranges, fin_at, fin_ok, self.edge_max_off
                        ),
                    );
                }
                // ---- C04: a SACK block reports octets the socket keeps; it may only keep what reached
                // it inside a window it had advertised
                for &(l, r) in &seg.sack {
                    let (lo, hi) = (self.peer_off(l), self.peer_off(r));
                    if lo < a || hi <= lo || hi as u64 > self.cfg.fin_at {
                        continue;
                    }
                    self.stats.sack_blocks_checked += 1;
                    if !self.ranges.iter().any(|&(s, e)| s as i64 <= lo && hi <= e as i64) {
                        let ranges = self.ranges.clone();
                        self.violate(
                            "C04",
                            "sack:reports-bytes-not-received-in-window".into(),
                            format!(
                                "the socket's SACK block [{},{}) (stream offsets) reports octets it keeps for reassembly, but only {:?} reached it inside a window it had advertised (highest right edge ever advertised: {})",
                                lo, hi, ranges, self.edge_max_off
                            ),
                        );
                    }
                }
                let shift = if seg.is(itcp::SYN) { 0 } else { self.shift_for_sock_windows() };
                let edge = a + ((seg.wnd as i64) << shift);
                self.edge_max_off = self.edge_max_off.max(edge);
                self.last_ack_emitted = Some(seg.ack);
                self.last_edge_emitted = Some(seg.ack.wrapping_add((seg.wnd as u32) << shift));
            }
        }
    }

    fn egress(&mut self) {
        self.host.dev.begin_poll(self.now);
        self.host.iface.poll_egress(inst(self.now), &mut self.host.dev, &mut self.host.sockets);
        let tx = self.host.dev.drain_tx();
        self.on_emitted(tx);
    }

    fn ingress_one(&mut self, frame: Vec<u8>) {
        self.smon.on_delivered(&frame);
        self.host.dev.rx.push_back(frame);
        self.host.dev.begin_poll(self.now);
        self.host.iface.poll_ingress_single(inst(self.now), &mut self.host.dev, &mut self.host.sockets);
        let tx = self.host.dev.drain_tx();
        self.on_emitted(tx);
    }

    // ------------------------------------------------------------ C17 transition judgement
    #[allow(clippy::too_many_arguments)]
    fn judge_transition(&mut self, before: State, after: State, ev: &str, allowed: &[State], why: &str) {
        self.stats.state_checks += 1;
        if before != after {
            let t = format!("{}--{}-->{}", before, ev, after);
            if !self.stats.transitions.contains(&t) {
                self.stats.transitions.push(t);
            }
        }
        if before == after {
            return;
        }
        if !allowed.contains(&after) {
            // one known mechanism gets its own signature: close() called in SYN-RECEIVED, after
            // which the acknowledgment of the SYN is taken for the acknowledgment of the FIN
            let ack_of_syn_as_fin = self.closed_in_syn_received
                && why.contains("ack==ISS+1=true")
                && matches!((before, after), (State::FinWait1, State::FinWait2) | (State::FinWait1, State::TimeWait) | (State::Closing, State::TimeWait) | (State::LastAck, State::Closed));
            self.violate(
                "C17",
                if ack_of_syn_as_fin { "edge:close-in-SYN-RECEIVED:ack-of-SYN-taken-for-ack-of-FIN".to_string() } else { format!("edge:{}->{}:on:{}", before, after, ev) },
                format!("state changed {} -> {} on event [{}]; permitted targets for this event: {:?} ({})", before, after, ev, allowed, why),
            );
        }
        if after == State::TimeWait && before != State::TimeWait {
            self.tw_entered = Some(self.now);
            self.tw_last_touch = self.now;
        }
    }

    // ------------------------------------------------------------ events
    fn build(&self, seg: &itcp::Seg) -> Vec<u8> {
        let b = itcp::build(&self.peer, &self.me, seg);
        ip::build(&self.peer, &self.me, ip::PROTO_TCP, 64, &b)
    }

    fn inject(&mut self, ev: SegEvent) {
        let before = self.state();
        let mut seg = itcp::Seg {
            sport: PEER_PORT,
            dport: SOCK_PORT,
            ..Default::default()
        };
        let evname;
        let mut allowed: Vec<State> = Vec::new();
        let why;
        let iss1 = self.iss.map(|i| i.wrapping_add(1));
        let fin_seq_plus1 = match (self.iss, self.close_at) {
            (Some(i), Some(c)) => Some(i.wrapping_add(1).wrapping_add(c as u32).wrapping_add(1)),
            _ => None,
        };
        match ev {
            SegEvent::Syn { ack, data } => {
                seg.seq = self.cfg.irs;
                seg.payload = (0..data as u64).map(|k| stream_byte(self.tag_peer, k)).collect();
                if data > 0 {
                    self.stats.syns_with_data += 1;
                    // Data on a SYN: a socket that already advertised a window in its own SYN (active
                    // open) is entitled to keep what fits that window; a listener has advertised
                    // nothing yet and is not entitled to acknowledge any of it.
                    if before == State::SynSent && ack.is_some() && ack == iss1 {
                        let lim = self.cfg.rx_buf.min(65535) as u64;
                        add_range(&mut self.ranges, 0, (data as u64).min(lim));
                    }
                }
                seg.flags = itcp::SYN | if ack.is_some() { itcp::ACK } else { 0 };
                seg.ack = ack.unwrap_or(0);
                if let (Some(a), Some(iss)) = (ack, self.iss) {
                    let hi = iss.wrapping_add(1).wrapping_add(self.written as u32).wrapping_add(1);
                    if itcp::seq_le(iss.wrapping_add(1), a) && itcp::seq_le(a, hi) && self.peer_ack_sent_max.map_or(true, |m| itcp::seq_lt(m, a)) {
                        self.peer_ack_sent_max = Some(a);
                    }
                }
                seg.wnd = 65535;
                seg.mss = self.cfg.peer_mss;
                seg.wscale = self.cfg.peer_ws;
                seg.sack_perm = self.cfg.peer_sack;
                if self.cfg.peer_ts {
                    seg.ts = Some(((self.now / 1000) as u32, 0));
                }
                evname = format!("SYN{}{}", if ack.is_some() { "|ACK" } else { "" }, if data > 0 { "+data" } else { "" });
                match before {
                    State::Listen if ack.is_none() => allowed.push(State::SynReceived),
                    State::SynSent => {
                        if ack.is_some() && ack == iss1 {
                            allowed.push(State::Established);
                        }
                        if ack.is_none() {
                            allowed.push(State::SynReceived);
                        }
                    }
                    _ => {}
                }
                why = "a SYN opens a listener or completes/crosses an active open; nothing else".to_string();
                self.peer_syn_sent = true;
            }
            SegEvent::Data { seq, len, fin, ack, wnd, rst, place, ackc } => {
                seg.seq = seq;
                seg.flags = if rst { itcp::RST } else { 0 } | if fin { itcp::FIN } else { 0 } | if ack.is_some() { itcp::ACK } else { 0 } | if len > 0 { itcp::PSH } else { 0 };
                seg.ack = ack.unwrap_or(0);
                if let Some(a) = ack {
                    if !self.peer_acks_sent.contains(&a) && self.peer_acks_sent.len() < 256 {
                        self.peer_acks_sent.push(a);
                    }
                }
                if let (Some(a), Some(iss)) = (ack, self.iss) {
                    let hi = iss.wrapping_add(1).wrapping_add(self.written as u32).wrapping_add(1);
                    if itcp::seq_le(iss.wrapping_add(1), a) && itcp::seq_le(a, hi) && self.peer_ack_sent_max.map_or(true, |m| itcp::seq_lt(m, a)) {
                        self.peer_ack_sent_max = Some(a);
                    }
                }
                seg.wnd = wnd;
                if self.cfg.peer_ts {
                    seg.ts = Some(((self.now / 1000) as u32, 0));
                }
                let off = self.peer_off(seq);
                seg.payload = (0..len as i64).map(|k| stream_byte(self.tag_peer, (off + k).max(0) as u64)).collect();
                evname = format!("{}{}{} seq:{} ack:{}", if rst { "RST" } else if fin { "FIN" } else { "seg" }, if len > 0 { "+data" } else { "" }, if ack.is_some() { "|ACK" } else { "" }, place, ackc);
                // ---- receiver model: bytes the socket is entitled to keep
                let synced = !matches!(before, State::Closed | State::Listen | State::SynSent);
                let mut in_order_fin = false;
                if synced && !rst {
                    let s = off.max(0) as u64;
                    let e = (off + len as i64).max(0) as u64;
                    let lim = self.edge_max_off.max(0) as u64;
                    add_range(&mut self.ranges, s.min(lim), e.min(lim));
                    self.stats.max_holes = self.stats.max_holes.max(self.ranges.len());
                    if fin && (off + len as i64) as u64 == self.cfg.fin_at && self.cfg.fin_at as i64 <= self.edge_max_off {
                        // FIN position inside a window the socket advertised
                        if self.contig() >= self.cfg.fin_at {
                            self.fin_arrived_entitled = true;
                            in_order_fin = true;
                        }
                    }
                }
                // ---- permitted transitions for this event
                let ack_of_fin = ack.is_some() && ack == fin_seq_plus1 && fin_seq_plus1.is_some();
                let ack_is_iss1 = ack.is_some() && ack == iss1;
                // an RST is "in window" if its sequence number lies in what the socket advertised
                let rst_in_window = match (self.last_ack_emitted, self.last_edge_emitted) {
                    (Some(la), Some(le)) => {
                        // right edge: the highest one ever advertised (an edge that moved left - the
                        // ACK advanced by less than the window field shrank - does not take back
                        // what was offered; the socket itself keeps judging by the older, larger one)
                        let le_max = self.cfg.irs.wrapping_add(1).wrapping_add(self.edge_max_off.max(0) as u32);
                        let le = if itcp::seq_lt(le, le_max) { le_max } else { le };
                        itcp::seq_le(la, seq) && (itcp::seq_lt(seq, le) || itcp::seq_le(seq, self.rcv_nxt_upper()))
                    }
                    // nothing acknowledged on the wire yet (SYN|ACK or first ACK still to be sent):
                    // RCV.NXT is IRS+1 and the window is the initial one
                    _ if self.peer_syn_sent => {
                        let lo = self.cfg.irs.wrapping_add(1);
                        let hi = lo.wrapping_add(self.cfg.rx_buf.min(65535) as u32);
                        itcp::seq_le(lo, seq) && (itcp::seq_lt(seq, hi) || seq == lo)
                    }
                    _ => false,
                };
                if rst {
                    self.stats.blind_rsts += (!rst_in_window) as u64;
                    match before {
                        State::SynSent => {
                            if ack_is_iss1 {
                                allowed.push(State::Closed);
                            }
                        }
                        State::SynReceived => {
                            if rst_in_window {
                                allowed.push(if self.from_listen { State::Listen } else { State::Closed });
                                // a listener that was re-targeted keeps listening; a crossed open closes
                                allowed.push(State::Closed);
                            }
                        }
                        State::Listen | State::Closed => {}
                        _ => {
                            if rst_in_window {
                                allowed.push(State::Closed);
                            }
                        }
                    }
                    why = format!("RST: in-window={} (last ack emitted {:?}, advertised edge {:?}, seq {})", rst_in_window, self.last_ack_emitted, self.last_edge_emitted, seq);
                } else {
                    match before {
                        State::SynReceived => {
                            if ack_is_iss1 {
                                allowed.push(State::Established);
                                if in_order_fin {
                                    allowed.push(State::CloseWait);
                                }
                            }
                        }
                        State::Established => {
                            if in_order_fin {
                                allowed.push(State::CloseWait);
                            }
                        }
                        State::FinWait1 => {
                            if ack_of_fin {
                                allowed.push(State::FinWait2);
                            }
                            if in_order_fin {
                                allowed.push(if ack_of_fin { State::TimeWait } else { State::Closing });
                            }
                        }
                        State::FinWait2 => {
                            if in_order_fin {
                                allowed.push(State::TimeWait);
                            }
                        }
                        State::Closing => {
                            if ack_of_fin {
                                allowed.push(State::TimeWait);
                            }
                        }
                        State::LastAck => {
                            if ack_of_fin {
                                allowed.push(State::Closed);
                            }
                        }
                        _ => {}
                    }
                    why = format!(
                        "in-order FIN={} (peer FIN at offset {}, in-window bytes received [0,{})), ack-of-own-FIN={}, ack==ISS+1={}",
                        in_order_fin, self.cfg.fin_at, self.contig(), ack_of_fin, ack_is_iss1
                    );
                    if !in_order_fin && !ack_of_fin && !ack_is_iss1 {
                        self.stats.forbidden_attempts += 1;
                    }
                }
                if let Some(a) = ack {
                    if self.iss.is_some() && itcp::seq_le(a, self.snd_max) && itcp::seq_lt(self.peer_acked_max, a) {
                        self.peer_acked_max = a;
                    }
                }
                let cl = format!("{}|{}|{}{}", before, place, ackc, if fin { "|F" } else if rst { "|R" } else { "" });
                if !self.stats.seg_class.contains(&cl) {
                    self.stats.seg_class.push(cl);
                }
            }
        }
        self.stats.segs_injected += 1;
        self.note(format!("peer tx  {} seq={} ack={} wnd={} len={}  [{}]", seg.flag_str(), seg.seq, seg.ack, seg.wnd, seg.payload.len(), evname));
        let frame = self.build(&seg);
        if before == State::TimeWait {
            self.tw_last_touch = self.now;
        }
        self.ingress_one(frame);
        let after = self.state();
        self.judge_transition(before, after, &evname.split(' ').next().unwrap_or("seg").to_string(), &allowed, &why);
    }

    fn api_close(&mut self) {
        let before = self.state();
        self.sock().close();
        if before == State::SynReceived {
            self.closed_in_syn_received = true;
        }
        if matches!(before, State::SynReceived | State::Established | State::CloseWait) && self.close_at.is_none() {
            self.close_at = Some(self.written);
            self.smon.on_close();
        }
        let after = self.state();
        let allowed: Vec<State> = match before {
            State::Listen | State::SynSent => vec![State::Closed],
            State::SynReceived | State::Established => vec![State::FinWait1],
            State::CloseWait => vec![State::LastAck],
            _ => vec![],
        };
        self.note("api close()".into());
        self.judge_transition(before, after, "close()", &allowed, "close(): LISTEN/SYN-SENT->CLOSED, SYN-RECEIVED/ESTABLISHED->FIN-WAIT-1, CLOSE-WAIT->LAST-ACK");
    }

    fn api_abort(&mut self) {
        let before = self.state();
        self.sock().abort();
        self.aborted = true;
        let after = self.state();
        self.note("api abort()".into());
        self.judge_transition(before, after, "abort()", &[State::Closed], "abort() closes");
    }

    /// The application switches keep-alive on, off or to another interval - in whatever state the
    /// socket happens to be (also half-closed and in TIME-WAIT).  The call itself never changes the
    /// state, and every later oracle (TIME-WAIT ends after 10 s, deadlines, sender rules) still holds.
    fn api_keep_alive(&mut self, rng: &mut Rng) {
        let before = self.state();
        let v = *rng.pick(&[None, Some(500u64), Some(5_000), Some(75_000)]);
        self.sock().set_keep_alive(v.map(Duration::from_millis));
        if v.is_some() {
            self.smon.keep_alive = true;
        }
        self.stats.keep_alive_calls += 1;
        if before == State::TimeWait {
            self.stats.keep_alive_calls_in_time_wait += 1;
        }
        let after = self.state();
        self.note(format!("api set_keep_alive({:?}) in {}", v, before));
        self.judge_transition(before, after, "set_keep_alive()", &[], "set_keep_alive() never changes the state");
    }

    fn api_send(&mut self, rng: &mut Rng) {
        let before = self.state();
        if self.written < self.cfg.sock_total {
            let want = rng.urange(1, 3000).min((self.cfg.sock_total - self.written) as usize);
            let base = self.written;
            let tag = self.smon.tag;
            let data: Vec<u8> = (0..want as u64).map(|k| stream_byte(tag, base + k)).collect();
            if let Ok(n) = self.sock().send_slice(&data) {
                self.written += n as u64;
                self.smon.on_app_write(n as u64);
                if n > 0 {
                    self.note(format!("api send {} (total {})", n, self.written));
                }
            }
        }
        let after = self.state();
        self.judge_transition(before, after, "send()", &[], "send() never changes the state");
    }

    fn api_recv(&mut self, rng: &mut Rng) {
        let before = self.state();
        let want = rng.sizeish(4000).max(1);
        let mut buf = vec![0u8; want];
        let r = self.sock().recv_slice(&mut buf);
        self.stats.reads += 1;
        match r {
            Ok(n) => {
                for k in 0..n {
                    let exp = stream_byte(self.tag_peer, self.delivered + k as u64);
                    if buf[k] != exp {
                        let d = self.delivered;
                        self.violate(
                            "C04",
                            "deliver:wrong-byte".into(),
                            format!("recv returned {:#04x} at stream offset {} where the peer's byte is {:#04x}", buf[k], d + k as u64, exp),
                        );
                        break;
                    }
                }
                self.delivered += n as u64;
                self.stats.bytes_delivered += n as u64;
                if n > 0 {
                    self.note(format!("api recv {} (total {})", n, self.delivered));
                }
                if self.delivered > self.contig() {
                    let (d, c, r) = (self.delivered, self.contig(), self.ranges.clone());
                    self.violate(
                        "C04",
                        "deliver:bytes-not-received-in-window".into(),
                        format!("{} bytes delivered to the application but only [0,{}) arrived inside an advertised window (in-window ranges: {:?})", d, c, r),
                    );
                }
            }
            Err(tcp::RecvError::Finished) => {
                if !self.finished_seen {
                    self.finished_seen = true;
                    self.stats.finished = true;
                    self.note(format!("api recv -> Finished after {}", self.delivered));
                    let ok = self.fin_arrived_entitled && self.delivered == self.cfg.fin_at;
                    if !ok {
                        let (d, f, e) = (self.delivered, self.cfg.fin_at, self.fin_arrived_entitled);
                        self.violate(
                            "C04",
                            "finished:before-all-bytes".into(),
                            format!("recv reported Finished after {} bytes; the peer's FIN sits at offset {} (FIN received in order and in window: {})", d, f, e),
                        );
                    }
                }
            }
            Err(_) => {}
        }
        let after = self.state();
        self.judge_transition(before, after, "recv()", &[], "recv() never changes the state");
    }

    fn time_and_egress(&mut self, dt: Micros) {
        self.now += dt;
        let before = self.state();
        self.egress();
        let after = self.state();
        let mut allowed = vec![];
        if before == State::TimeWait {
            if let Some(t) = self.tw_entered {
                if self.now >= t + 10_000_000 {
                    allowed.push(State::Closed);
                }
            }
        }
        // the user timeout (set_timeout) aborts a connection whose peer stayed silent that long:
        // CLOSED, and nothing else, is then reachable without a segment (weakest bound: counted from
        // the instant the socket was opened)
        if let Some(ms) = self.cfg.timeout_ms {
            if self.now >= self.opened_at + ms as Micros * 1000 && !matches!(before, State::Closed | State::Listen) {
                allowed.push(State::Closed);
            }
        }
        self.judge_transition(before, after, "egress", &allowed, "only TIME-WAIT expiry (10 s after entry) - or the user timeout, to CLOSED - changes the state without a segment or API call");
        // TIME-WAIT must end by itself 10 s after the last segment that could refresh it
        let mut after = after;
        if after == State::TimeWait && self.now >= self.tw_last_touch + 10_000_000 + 1 {
            // a pending ACK may take precedence in one dispatch: give it a second pass
            self.egress();
            after = self.state();
        }
        self.judge_owed_retransmission();
        if after == State::TimeWait && self.now >= self.tw_last_touch + 10_000_000 + 1 {
            let (t, n) = (self.tw_last_touch, self.now);
            self.violate(
                "C17",
                "timewait:did-not-expire".into(),
                format!("socket still in TIME-WAIT at {}us although nothing arrived since {}us (10 s expired) and an egress pass ran", n, t),
            );
        }
    }

    /// C02, safety form, against a peer that shrinks and reopens its window and acknowledges what
    /// it likes: as long as the socket has put sequence space on the wire (SYN, data, FIN) that no
    /// ACK number the peer ever sent covers, it owes a retransmission, so after an egress pass the
    /// interface must name a deadline.  (`peer_ack_sent_max` counts every ACK number the peer sent,
    /// whether or not the socket accepted the segment: the check claims an obligation only where
    /// there certainly is one.)
    fn judge_owed_retransmission(&mut self) {
        let Some(iss) = self.iss else { return };
        let st = self.state();
        if matches!(st, State::Closed | State::Listen | State::TimeWait) || self.closed_in_syn_received {
            return;
        }
        let acked = self.peer_ack_sent_max.unwrap_or(iss);
        if !itcp::seq_lt(acked, self.snd_max) {
            return;
        }
        self.stats.owed_retransmission_checks += 1;
        let now = self.now;
        if self.host.iface.poll_at(inst(now), &self.host.sockets).is_none() {
            let owed = itcp::seq_diff(self.snd_max, acked);
            let fin_only = self.sock_fin_seen && owed == 1;
            self.violate(
                "C02",
                format!("peer:no-deadline-with-unacknowledged-{}:{}", if fin_only { "fin" } else if acked == iss { "syn" } else { "data" }, st),
                format!(
                    "the socket (state {}) has put sequence space up to {} on the wire, the highest ACK number the peer ever sent is {} ({} unacknowledged), an egress pass ran at {}us - and Interface::poll_at returns None: an event loop driven by poll_at never retransmits",
                    st, self.snd_max, acked, owed, now
                ),
            );
        }
    }

    // ------------------------------------------------------------ cooperative epilogue
    /// After the hostile script: a *cooperative* peer.  It (re)sends its stream in order, inside the
    /// window the socket advertises, acknowledging everything the socket sent, with PSH on every
    /// data segment and FIN|PSH|ACK on the last one (as mainstream stacks do), over a reliable link,
    /// while the application keeps reading.  Every safety oracle keeps running; in addition the
    /// RFC 9293 edges for a valid in-order FIN must now be *taken*: the whole stream is delivered,
    /// the FIN is acknowledged and the socket reaches a FIN-received state.
    fn coop_epilogue(&mut self, rng: &mut Rng) {
        let st = self.state();
        if !matches!(st, State::Established | State::FinWait1 | State::FinWait2) || self.fin_arrived_entitled || self.aborted || self.iss.is_none() {
            return;
        }
        if self.cfg.timeout_ms.is_some() {
            // a user timeout may legitimately abort the connection in the middle of the epilogue
            return;
        }
        self.stats.coop_epilogues += 1;
        self.note("---- cooperative epilogue".into());
        let irs1 = self.cfg.irs.wrapping_add(1);
        let fin_at = self.cfg.fin_at as i64;
        let mut done = false;
        // The peer acknowledges cumulatively.  During the hostile script it may have acknowledged
        // octets the socket had queued but not yet transmitted (the socket accepts that and advances
        // SND.UNA), so "everything received" (snd_max) can lie below what it acknowledged before and
        // the monitor cannot know which of those earlier numbers the socket took: the candidates are
        // snd_max and every higher number the peer ever sent; a candidate that makes no progress for
        // three rounds is replaced by the next one.
        let mut cands: Vec<u32> = vec![self.snd_max];
        let sm = self.snd_max;
        let mut higher: Vec<u32> = self.peer_acks_sent.iter().copied().filter(|a| itcp::seq_lt(sm, *a) && itcp::seq_diff(*a, sm) < 200_000).collect();
        higher.sort_by_key(|a| itcp::seq_diff(*a, sm));
        cands.extend(higher);
        let mut cand = 0usize;
        let mut stalled = 0u32;
        let mut last_seen = (self.last_ack_emitted, self.delivered);
        let rounds = 400 + 3 * (self.cfg.fin_at as usize) + 4 * cands.len();
        for _round in 0..rounds {
            let seen = (self.last_ack_emitted, self.delivered);
            if seen == last_seen {
                stalled += 1;
                if stalled >= 3 {
                    stalled = 0;
                    cand += 1;
                }
            } else {
                stalled = 0;
                last_seen = seen;
            }
            // the application keeps up with the peer (TIME-WAIT expiry discards unread data)
            for _ in 0..200 {
                let before = self.delivered;
                self.api_recv(rng);
                if self.delivered == before {
                    break;
                }
            }
            if self.violations.len() > 0 {
                return;
            }
            let st = self.state();
            if matches!(st, State::Closed | State::Listen) {
                break;
            }
            let Some(la) = self.last_ack_emitted else {
                self.time_and_egress(300_000);
                continue;
            };
            let off = self.peer_off(la);
            if off > fin_at {
                done = true;
                break;
            }
            let mut off = off.max(0);
            let mut room = match self.last_edge_emitted {
                Some(e) => itcp::seq_diff(e, la).max(0) as i64,
                None => 0,
            };
            let mss = 536usize.min(self.cfg.mtu.saturating_sub(60)).max(1) as i64;
            if room == 0 && fin_at - off > 0 {
                // zero window: the application reads, the socket announces room again
                self.time_and_egress(300_000);
                continue;
            }
            // a window's worth of segments (at most 32), then the ACKs are collected
            for _ in 0..32 {
                let remaining = fin_at - off;
                let len = remaining.min(room).min(mss).max(0);
                if len == 0 && remaining > 0 {
                    break;
                }
                let fin = off + len == fin_at;
                let seq = irs1.wrapping_add(off as u32);
                let ack = Some(cands[cand % cands.len()]);
                self.inject(SegEvent::Data { seq, len: len as usize, fin, ack, wnd: 65535, rst: false, place: "coop", ackc: "snd.nxt" });
                off += len;
                room -= len;
                if fin || !self.violations.is_empty() {
                    break;
                }
            }
            self.time_and_egress(300_000);
        }
        for _ in 0..400 {
            let before = self.delivered;
            self.api_recv(rng);
            if self.delivered == before {
                break;
            }
        }
        self.api_recv(rng);
        if !self.violations.is_empty() {
            return;
        }
        let st = self.state();
        let fin_state = matches!(st, State::CloseWait | State::LastAck | State::Closing | State::TimeWait | State::Closed);
        let complete = done && self.delivered == self.cfg.fin_at && fin_state;
        if complete {
            self.stats.coop_completed += 1;
        } else if !matches!(st, State::Listen) {
            let (d, f, la) = (self.delivered, self.cfg.fin_at, self.last_ack_emitted);
            let acked = la.map(|a| self.peer_off(a));
            self.violate(
                "C17",
                format!("coop:valid-in-order-fin-not-taken:{}", st),
                format!(
                    "a cooperative peer sent its whole stream ({} octets) in order inside the advertised window, PSH on data and FIN|PSH|ACK at the end, acknowledging everything, over a reliable link (a window per round, for as many rounds as the stream has octets) while the application kept reading: delivered {} of {}, highest stream offset acknowledged {:?} (FIN would be {}), state {} - the RFC 9293 edge for a valid FIN was not taken",
                    f, d, f, acked, f + 1, st
                ),
            );
        }
    }

    // ------------------------------------------------------------ segment generator
    fn gen_segment(&mut self, rng: &mut Rng) -> SegEvent {
        let st = self.state();
        let rn = self.cfg.irs.wrapping_add(1).wrapping_add(self.contig() as u32);
        let edge = self.last_edge_emitted.unwrap_or(rn);
        let wnd_open = itcp::seq_diff(edge, rn).max(0) as u32;
        let mss = 1460usize.min(self.cfg.mtu.saturating_sub(60)).max(1);
        let f_seq = self.cfg.irs.wrapping_add(1).wrapping_add(self.cfg.fin_at as u32);
        // ---- placement relative to RCV.NXT and the advertised right edge
        let (seq, mut len, place): (u32, usize, &'static str) = match rng.below(12) {
            0 => (rn.wrapping_sub(rng.range(1, 3000) as u32), rng.urange(0, 200), "left"),
            1 => (rn.wrapping_sub(rng.range(1, 50) as u32), rng.urange(1, 300), "overlap-left"),
            2 | 3 | 4 => (rn, rng.urange(0, mss), "in-order"),
            5 => (rn.wrapping_add(rng.range(1, 1 + wnd_open as u64 / 2) as u32), rng.urange(1, mss), "hole"),
            6 => (edge.wrapping_sub(rng.range(0, 40) as u32), rng.urange(1, mss), "overrun-right"),
            7 => (edge, rng.urange(0, 100), "at-edge"),
            8 => (edge.wrapping_add(rng.range(1, 100_000) as u32), rng.urange(0, 100), "right"),
            9 => (rn.wrapping_sub(1), 0, "rcvnxt-1"),
            10 => (rn, 0, "empty"),
            _ => (rn.wrapping_add(rng.range(0, wnd_open as u64) as u32), rng.urange(0, mss), "inside"),
        };
        // a consistent peer never sends bytes beyond its FIN position, nor before its first byte
        let off = self.peer_off(seq);
        if off < 0 {
            let cut = (-off) as usize;
            if cut >= len {
                len = 0;
            }
        }
        let (seq, off) = if off < 0 && len > 0 { (self.cfg.irs.wrapping_add(1), 0i64) } else { (seq, off) };
        if off >= 0 && (off as u64 + len as u64) > self.cfg.fin_at {
            len = (self.cfg.fin_at as i64 - off).max(0) as usize;
        }
        let ends_at_f = off >= 0 && (off as u64 + len as u64) == self.cfg.fin_at && seq.wrapping_add(len as u32) == f_seq;
        let fin = ends_at_f && rng.chance(2, 3);
        let rst = !fin && rng.chance(1, if self.cfg.focus == 1 { 12 } else { 60 });
        // ---- acknowledgment number
        let (ack, ackc): (Option<u32>, &'static str) = match self.iss {
            None => (None, "none"),
            Some(iss) => {
                let una = if self.peer_acked_max != 0 { self.peer_acked_max } else { iss.wrapping_add(1) };
                let fin_ack = match self.close_at {
                    Some(c) => iss.wrapping_add(1).wrapping_add(c as u32).wrapping_add(1),
                    None => self.snd_max.wrapping_add(1),
                };
                let pick = if self.cfg.focus == 1 { rng.below(12) } else { rng.below(30) };
                // C05 quantifies over losses/duplicates/reorderings of a peer's ACKs and windows,
                // not over peers that acknowledge data which was never sent
                let pick = if self.cfg.focus == 2 && (pick == 7 || (pick == 6 && !self.sock_fin_seen)) { 8 } else { pick };
                let pick = if self.cfg.stingy {
                    match rng.below(12) {
                        0 => 0,
                        1 => 3,
                        2 | 3 => 4,
                        4 | 5 | 6 => 5,
                        7 | 8 | 9 => 100,
                        10 if self.sock_fin_seen => 6,
                        _ => 8,
                    }
                } else {
                    pick
                };
                match pick {
                    0 => (None, "absent"),
                    1 => (Some(iss), "iss"),
                    2 => (Some(iss.wrapping_add(1)), "iss+1"),
                    3 => (Some(una.wrapping_sub(1)), "una-1"),
                    4 => (Some(una), "una"),
                    5 => (Some(una.wrapping_add(itcp::seq_diff(self.snd_max, una).max(0) as u32 / 2)), "inside"),
                    6 => (Some(fin_ack), "fin+1"),
                    7 => (Some(self.snd_max.wrapping_add(rng.range(2, 5000) as u32)), "beyond"),
                    // everything but the last octet the socket sent - or everything but its FIN
                    100 => (Some(self.snd_max.wrapping_sub(1)), "snd.max-1"),
                    _ => (Some(self.snd_max), "snd.nxt"),
                }
            }
        };
        // ---- window the peer advertises (C05 part ii: growing, shrinking, zero, reopening)
        let wnd: u16 = match rng.below(8) {
            0 => 0,
            4 | 5 if self.cfg.stingy => 0,
            1 => rng.range(1, 100) as u16,
            2 => rng.range(100, 2000) as u16,
            3 => 65535,
            _ => rng.range(500, 65535) as u16,
        };
        let _ = st;
        SegEvent::Data { seq, len, fin, ack, wnd, rst, place, ackc }
    }

    /// C13 (seeded change C13-r10-1): a sender facing a peer whose window is closed and which then
    /// falls silent, driven the way an event loop does it - ask poll_at, sleep, poll - through
    /// `Host::poll`, so that the probe of sim/hostprobe.rs (early polls between two deadlines) rides
    /// along.  With a user timeout set, the abort (RST) competes with the backed-off zero-window
    /// probes; with keep-alive set, so do the keep-alive segments.  Returns the number of timer polls.
    pub fn run_silent_zero_window(&mut self, rng: &mut Rng) -> u64 {
        self.time_and_egress(0);
        if self.cfg.active {
            let a = self.iss.map(|i| i.wrapping_add(1));
            self.inject(SegEvent::Syn { ack: a, data: 0 });
        } else {
            self.inject(SegEvent::Syn { ack: None, data: 0 });
        }
        let first_wnd: u16 = if rng.bool() { 0 } else { rng.range(1, 600) as u16 };
        if let Some(iss) = self.iss {
            let rn = self.cfg.irs.wrapping_add(1);
            self.inject(SegEvent::Data { seq: rn, len: 0, fin: false, ack: Some(iss.wrapping_add(1)), wnd: first_wnd, rst: false, place: "in-order", ackc: "iss+1" });
        }
        for _ in 0..rng.urange(1, 4) {
            self.api_send(rng);
        }
        // the peer answers the first few timer segments with a closed window, then never again
        let mut answers = rng.urange(0, 4);
        let mut polls = 0u64;
        for _ in 0..60 {
            let d = match self.host.poll_at(self.now) {
                Some(d) => d,
                None => break,
            };
            // mostly exactly at the deadline; now and then the loop oversleeps
            let late = *rng.pick(&[0i64, 0, 0, 1, 1_000, 700_000]);
            self.now = self.now.max(d) + late;
            if self.now > 3_600_000_000 {
                break;
            }
            let out = self.host.poll(self.now);
            polls += 1;
            let sent = !out.tx.is_empty();
            self.on_emitted(out.tx);
            if sent && answers > 0 && !matches!(self.state(), State::Closed) {
                answers -= 1;
                let rn = self.cfg.irs.wrapping_add(1);
                let ack = if self.peer_acked_max != 0 && rng.bool() { self.peer_acked_max } else { self.snd_max };
                self.inject(SegEvent::Data { seq: rn, len: 0, fin: false, ack: Some(ack), wnd: 0, rst: false, place: "in-order", ackc: "zero-window" });
                if rng.chance(1, 3) {
                    self.api_send(rng);
                }
            }
        }
        polls
    }

    // ------------------------------------------------------------ main loop
    pub fn run(&mut self, rng: &mut Rng) {
        // ---- handshake prefix (sometimes left incomplete so that handshake states are attacked too)
        self.time_and_egress(0);
        let hs = rng.below(10);
        // one SYN in five carries the first octets of the peer's stream
        let syn_data = if rng.chance(1, 5) { rng.urange(1, 24) } else { 0 };
        if self.cfg.active {
            if hs < 8 {
                let a = self.iss.map(|i| i.wrapping_add(1));
                if hs == 7 {
                    // simultaneous open: SYN without ACK, then the final ACK comes as a normal segment
                    self.inject(SegEvent::Syn { ack: None, data: syn_data });
                } else {
                    self.inject(SegEvent::Syn { ack: a, data: syn_data });
                }
            }
        } else if hs < 9 {
            self.inject(SegEvent::Syn { ack: None, data: syn_data });
            if hs < 8 {
                if let Some(iss) = self.iss {
                    let rn = self.cfg.irs.wrapping_add(1);
                    self.inject(SegEvent::Data { seq: rn, len: 0, fin: false, ack: Some(iss.wrapping_add(1)), wnd: 65535, rst: false, place: "in-order", ackc: "iss+1" });
                }
            }
        }
        // one run in six keeps the hostile script short, so that the cooperative epilogue starts
        // from an open connection more often
        let coop = rng.chance(1, 2);
        let steps = if coop && rng.chance(1, 3) { self.cfg.steps.min(rng.urange(0, 15)) } else { self.cfg.steps };
        for _ in 0..steps {
            self.stats.events += 1;
            let st = self.state();
            let r = rng.below(100);
            // weights depend on the focus
            let (w_seg, w_time, w_send, w_recv, w_close, w_abort) = match self.cfg.focus {
                0 => (60, 10, 5, 20, 4, 1),
                1 => (55, 15, 5, 10, 12, 3),
                _ => (50, 20, 20, 6, 3, 1),
            };
            if r < w_seg {
                if matches!(st, State::Closed) && self.aborted {
                    // nothing to talk to any more
                }
                if !self.peer_syn_sent && rng.chance(1, 2) {
                    let a = if self.cfg.active { self.iss.map(|i| i.wrapping_add(1)) } else { None };
                    self.inject(SegEvent::Syn { ack: a, data: syn_data });
                } else {
                    let ev = self.gen_segment(rng);
                    self.inject(ev);
                }
            } else if r < w_seg + w_time {
                let dt = *rng.pick(&[0i64, 1_000, 10_000, 200_000, 1_000_000, 3_000_000, 10_000_000, 61_000_000]);
                self.time_and_egress(dt);
                // now and then the application changes the keep-alive setting (not against the stingy
                // peers of C02, whose runs live on the socket having no other timer)
                let toggle = rng.chance(1, if self.state() == State::TimeWait { 3 } else { 25 });
                if toggle && !self.cfg.stingy {
                    self.api_keep_alive(rng);
                }
            } else if r < w_seg + w_time + w_send {
                self.api_send(rng);
                if rng.bool() {
                    self.time_and_egress(0);
                }
            } else if r < w_seg + w_time + w_send + w_recv {
                self.api_recv(rng);
            } else if r < w_seg + w_time + w_send + w_recv + w_close {
                if self.written >= self.cfg.sock_total || rng.chance(1, 4) {
                    self.api_close();
                }
            } else if r < w_seg + w_time + w_send + w_recv + w_close + w_abort {
                self.api_abort();
            } else {
                self.time_and_egress(0);
            }
            if self.from_listen && self.peer_syn_sent && self.state() == State::Listen {
                // the listener went back to LISTEN (RST in SYN-RECEIVED): a second incarnation
                // would need a fresh model; the run ends here
                break;
            }
            if itcp::seq_lt(self.cfg.irs.wrapping_add(1).wrapping_add(self.contig() as u32), self.cfg.irs) {
                self.stats.wrap = true;
            }
        }
        if coop {
            self.coop_epilogue(rng);
        }
        // drain: read everything that was delivered
        for _ in 0..8 {
            self.api_recv(rng);
        }
    }
}
