//! Traffic scenarios shared by the frame-validation monitors (C10, C08b): nodes whose every
//! transmitted frame is handed to the independent validator (`indep::x1::validate::Judge`).
//!
//! A `Node` is one smoltcp interface + sockets + judge.  `Node::poll` polls the interface at a
//! virtual instant, judges every frame the device received from the interface against the
//! interface's addresses *at that instant*, records evidence and returns the frames so that the
//! scenario can deliver them to a peer node or a scripted responder.
use super::*;
use crate::indep::x1::lowpan_v::{self, LlAddr};
use crate::indep::x1::validate::{Defect, FrameInfo, IfaceView, Judge, Medium as VMedium, TxChecksums};
use crate::indep::{self, ip, Addr};
use crate::util::json::Json;
use crate::util::rng::Rng;
use crate::util::run::{catch, CaseOut, Violation};
use smoltcp::iface::{Config, SocketHandle};
use smoltcp::phy::{Checksum, ChecksumCapabilities};
use smoltcp::wire::{HardwareAddress, Ieee802154Address, Ieee802154Pan, IpAddress, IpCidr, Ipv4Address, Ipv6Address};
use std::collections::VecDeque;

pub const PAN: u16 = 0xbeef;

/// What the calling monitor wants to hear about.
#[derive(Clone, Copy, Debug, PartialEq)]
pub enum Focus {
    /// C10: every defect class
    Everything,
    /// C08b: checksum defects only, and a zero UDP/IPv4 checksum counts as "not filled"
    Checksums,
}

impl Focus {
    pub fn wants(&self, d: &Defect) -> bool {
        match self {
            Focus::Everything => true,
            Focus::Checksums => d.sig.ends_with("checksum:wrong") || d.sig.ends_with("checksum:zero"),
        }
    }
}

pub fn medium_name(m: Medium) -> &'static str {
    match m {
        Medium::Ethernet => "eth",
        Medium::Ip => "ip",
        Medium::Ieee802154 => "154",
    }
}

fn cs(tx: bool, rx: bool) -> Checksum {
    match (tx, rx) {
        (true, true) => Checksum::Both,
        (true, false) => Checksum::Tx,
        (false, true) => Checksum::Rx,
        (false, false) => Checksum::None,
    }
}

/// Checksum capabilities of two connected nodes: per protocol the transmit side is on or off at
/// random; a node verifies on receive only what its peer really fills in.
pub fn caps_pair(rng: &mut Rng) -> (ChecksumCapabilities, ChecksumCapabilities) {
    let mut a = ChecksumCapabilities::default();
    let mut b = ChecksumCapabilities::default();
    let uniform = rng.below(3);
    let pick = |rng: &mut Rng| -> (Checksum, Checksum) {
        let (ta, tb) = match uniform {
            0 => (true, true),
            1 => (false, false),
            _ => (rng.bool(), rng.bool()),
        };
        let ra = tb && rng.chance(3, 4);
        let rb = ta && rng.chance(3, 4);
        (cs(ta, ra), cs(tb, rb))
    };
    (a.ipv4, b.ipv4) = pick(rng);
    (a.udp, b.udp) = pick(rng);
    (a.tcp, b.tcp) = pick(rng);
    (a.icmpv4, b.icmpv4) = pick(rng);
    (a.icmpv6, b.icmpv6) = pick(rng);
    (a, b)
}

/// Capabilities of a single node talking to scripted peers (which always send valid checksums).
pub fn caps_single(rng: &mut Rng) -> ChecksumCapabilities {
    let mut a = ChecksumCapabilities::default();
    let uniform = rng.below(3);
    let pick = |rng: &mut Rng| -> Checksum {
        match uniform {
            0 => Checksum::Both,
            1 => {
                if rng.bool() {
                    Checksum::Rx
                } else {
                    Checksum::None
                }
            }
            _ => *rng.pick(&[Checksum::Both, Checksum::Tx, Checksum::Rx, Checksum::None]),
        }
    };
    a.ipv4 = pick(rng);
    a.udp = pick(rng);
    a.tcp = pick(rng);
    a.icmpv4 = pick(rng);
    a.icmpv6 = pick(rng);
    a
}

pub fn caps_label(c: &ChecksumCapabilities) -> String {
    let l = |k: &Checksum| match k {
        Checksum::Both => 'B',
        Checksum::Tx => 'T',
        Checksum::Rx => 'R',
        Checksum::None => 'N',
        #[allow(unreachable_patterns)]
        _ => '?',
    };
    format!("{}{}{}{}{}", l(&c.ipv4), l(&c.udp), l(&c.tcp), l(&c.icmpv4), l(&c.icmpv6))
}

/// coarse class: all on / all off / mixed
pub fn caps_class(c: &ChecksumCapabilities) -> &'static str {
    let v = [c.ipv4.tx(), c.udp.tx(), c.tcp.tx(), c.icmpv4.tx(), c.icmpv6.tx()];
    if v.iter().all(|x| *x) {
        "tx-on"
    } else if v.iter().all(|x| !*x) {
        "tx-off"
    } else {
        "tx-mixed"
    }
}

/// Smallest device MTU on which the IP version may run (RFC 791: 68, RFC 8200: 1280, IEEE 802.15.4 frame: 125).
pub fn min_mtu(medium: Medium, v6: bool) -> usize {
    match medium {
        Medium::Ethernet => 14 + if v6 { 1280 } else { 68 },
        Medium::Ip => {
            if v6 {
                1280
            } else {
                68
            }
        }
        Medium::Ieee802154 => 125,
    }
}

/// MTU choice: (value, class label)
pub fn pick_mtu(rng: &mut Rng, medium: Medium, v6: bool) -> (usize, &'static str) {
    let min = min_mtu(medium, v6);
    let eth = if medium == Medium::Ethernet { 14 } else { 0 };
    match rng.below(8) {
        0 | 1 => (min, "min"),
        2 => (min + rng.urange(1, 9), "min+"),
        3 => (min + rng.urange(10, 200), "small"),
        4 => (if v6 { 1400 + eth } else { 576 + eth }.max(min), "mid"),
        5 | 6 => (1500 + eth, "1500"),
        _ => (*rng.pick(&[2000usize, 4000, 9000, 65535]) + eth, "jumbo"),
    }
}

pub fn mac(n: u8) -> [u8; 6] {
    [0x02, 0, 0, 0, 0, n]
}
pub fn eui(n: u8) -> [u8; 8] {
    [0x02, 0x11, 0x22, 0x33, 0x44, 0x55, 0x66, n]
}

pub fn hw_for(medium: Medium, n: u8) -> HardwareAddress {
    match medium {
        Medium::Ethernet => eth_hw(n),
        Medium::Ip => HardwareAddress::Ip,
        Medium::Ieee802154 => HardwareAddress::Ieee802154(Ieee802154Address::Extended(eui(n))),
    }
}

/// link-local IPv6 address matching `hw_for(medium, n)` (so that 6LoWPAN may elide it)
pub fn ll_v6(medium: Medium, n: u8) -> [u8; 16] {
    let mut a = [0u8; 16];
    a[0] = 0xfe;
    a[1] = 0x80;
    match medium {
        Medium::Ieee802154 => {
            let e = eui(n);
            a[8..].copy_from_slice(&e);
            a[8] ^= 0x02;
        }
        _ => {
            let m = mac(n);
            a[8..11].copy_from_slice(&m[..3]);
            a[8] ^= 0x02;
            a[11] = 0xff;
            a[12] = 0xfe;
            a[13..].copy_from_slice(&m[3..]);
        }
    }
    a
}

pub fn ula_v6(n: u8) -> [u8; 16] {
    let mut a = [0u8; 16];
    a[0] = 0xfd;
    a[15] = n;
    a
}

pub fn v4(n: u8) -> [u8; 4] {
    [192, 168, 69, n]
}

pub fn cidr(a: &Addr, p: u8) -> IpCidr {
    IpCidr::new(a.to_smol(), p)
}

pub fn hex(b: &[u8]) -> String {
    let mut s = String::with_capacity(b.len() * 2);
    for x in b {
        s.push_str(&format!("{:02x}", x));
    }
    s
}

#[derive(Clone, Debug, PartialEq)]
pub enum DhcpEv {
    Configured { address: smoltcp::wire::Ipv4Cidr, router: Option<Ipv4Address> },
    Deconfigured,
}

pub struct Node {
    pub name: &'static str,
    pub host: Host,
    pub judge: Judge,
    pub medium: Medium,
    pub mtu: usize,
    pub mtu_class: &'static str,
    pub caps: ChecksumCapabilities,
    pub dhcp: Option<SocketHandle>,
    pub dhcp_lease: bool,
    /// event produced by the last poll, not yet applied to the interface
    pub dhcp_event: Option<DhcpEv>,
    /// IP packets handed to raw sockets
    pub raw_sent: Vec<Vec<u8>>,
    /// last events (injected frames, socket calls) for violation reports
    pub hist: VecDeque<String>,
    pub scenario: String,
    pub focus: Focus,
    pub verbose: bool,
    /// the node's only sender to UDP port 53 / 5353 is a dns::Socket (set by the DNS scenario)
    pub dns_on_53: bool,
    /// Interface::poll panicked; the node is not polled any more
    pub dead: bool,
    /// AnyIP scenario: destinations of the packets handed to the interface (None = AnyIP off)
    pub any_ip_dsts: Option<Vec<Addr>>,
    /// IP packets completed by reassembling fragments in the last poll (for scripted peers)
    pub reassembled: Vec<Vec<u8>>,
}

/// `p` (emitted IP packet) carries a payload handed verbatim to a raw socket as packet `q`?
fn raw_match(p: &[u8], sent: &[Vec<u8>]) -> bool {
    let Ok(pi) = ip::parse(p, false) else { return false };
    for q in sent {
        let Ok(qi) = ip::parse(q, false) else { continue };
        if pi.src != qi.src || pi.dst != qi.dst {
            continue;
        }
        let qp = &q[qi.payload_off..qi.payload_off + qi.payload_len];
        let pp = &p[pi.payload_off..pi.payload_off + pi.payload_len];
        // IPv4: the protocol field is the raw protocol; IPv6: next header as given
        let proto_same = if pi.src.is_v4() { p[9] == q[9] } else { p[6] == q[6] };
        if !proto_same {
            continue;
        }
        let off = pi.frag_offset;
        if off + pp.len() <= qp.len() && &qp[off..off + pp.len()] == pp && (pp.len() == qp.len() || pi.more_frags || off != 0) {
            return true;
        }
    }
    false
}

impl Node {
    #[allow(clippy::too_many_arguments)]
    pub fn new(
        name: &'static str,
        medium: Medium,
        mtu: usize,
        mtu_class: &'static str,
        caps: ChecksumCapabilities,
        hw: HardwareAddress,
        addrs: &[IpCidr],
        seed: u64,
        prefill: u8,
        slaac: bool,
        focus: Focus,
    ) -> Node {
        let mut dev = SimDevice::new(medium, mtu);
        dev.checksum = caps.clone();
        dev.prefill = prefill;
        let mut cfg = Config::new(hw);
        cfg.random_seed = seed;
        cfg.slaac = slaac;
        if medium == Medium::Ieee802154 {
            cfg.pan_id = Some(Ieee802154Pan(PAN));
        }
        let host = Host::with_config(dev, cfg, addrs, 0);
        let mut tx = TxChecksums::from_caps(&caps);
        if focus == Focus::Checksums {
            tx.udp4_zero_ok = false;
        }
        Node {
            name,
            host,
            judge: Judge::new(VMedium::from_smol(medium), mtu, tx),
            medium,
            mtu,
            mtu_class,
            caps,
            dhcp: None,
            dhcp_lease: false,
            dhcp_event: None,
            raw_sent: Vec::new(),
            hist: VecDeque::new(),
            scenario: String::new(),
            focus,
            verbose: false,
            dns_on_53: false,
            dead: false,
            any_ip_dsts: None,
            reassembled: Vec::new(),
        }
    }

    pub fn note(&mut self, s: String) {
        if self.verbose {
            println!("    [{}] {}", self.name, s);
        }
        if self.hist.len() >= 10 {
            self.hist.pop_front();
        }
        self.hist.push_back(s);
    }

    /// queue a frame for reception
    pub fn inject(&mut self, what: &str, frame: Vec<u8>) {
        let h = hex(&frame[..frame.len().min(96)]);
        self.note(format!("rx {} ({} bytes) {}{}", what, frame.len(), h, if frame.len() > 96 { ".." } else { "" }));
        self.host.dev.rx.push_back(frame);
    }

    pub fn cfg_label(&self) -> String {
        format!("{} mtu {} ({}) checksums {}", medium_name(self.medium), self.mtu, self.mtu_class, caps_label(&self.caps))
    }

    /// Poll the interface at `now`, judge everything it transmitted, return the frames.
    pub fn poll(&mut self, now: Micros, out: &mut CaseOut) -> Vec<Vec<u8>> {
        self.reassembled.clear();
        if self.dead {
            return Vec::new();
        }
        let polled = {
            let host = &mut self.host;
            catch(move || host.poll(now))
        };
        let po = match polled {
            Ok(po) => po,
            Err(pi) => {
                // a panic inside Interface::poll: report it (keeping the evidence gathered so far) and retire the node
                self.dead = true;
                let hist: Vec<String> = self.hist.iter().cloned().collect();
                if pi.in_target() && self.focus == Focus::Checksums {
                    // a panic is outside the checksum claim; C10 reports it, here it only ends the case
                    out.count("polls_that_panicked_in_the_library", 1);
                } else if pi.in_target() {
                    out.violate(
                        Violation::new(
                            pi.signature(),
                            format!(
                                "library code panicked at {}:{}: {} | inside Interface::poll, scenario {} on node {} ({}) at t={:.6}s | preceding events: {}",
                                pi.file,
                                pi.line,
                                pi.msg,
                                self.scenario,
                                self.name,
                                self.cfg_label(),
                                now as f64 / 1e6,
                                hist.join(" ; ")
                            ),
                        )
                        .with(Json::obj().set("panic_file", Json::s(pi.file.clone())).set("line", Json::u(pi.line as u64)).set("history", Json::Arr(hist.iter().map(|h| Json::s(h.clone())).collect()))),
                    );
                    out.count("polls_that_panicked_in_the_library", 1);
                } else {
                    out.harness_errors.push(format!("harness panic at {}:{}: {}", pi.file, pi.line, pi.msg));
                }
                return Vec::new();
            }
        };
        // interface addresses at emission time (events of this poll are applied by the caller afterwards)
        let mut view = IfaceView::from_iface(&self.host.iface);
        view.dns_on_53 = self.dns_on_53;
        if let Some(h) = self.dhcp {
            use smoltcp::socket::dhcpv4;
            // A DHCP frame is emitted in the state the client is in at the end of the poll (ingress is
            // processed before egress and a renewal is never followed by a reset at the same instant), so
            // the event of this poll is consumed first; the scenario applies it to the interface afterwards,
            // exactly like examples/dhcp_client.rs.
            let ev = match self.host.sockets.get_mut::<dhcpv4::Socket>(h).poll() {
                None => None,
                Some(dhcpv4::Event::Deconfigured) => Some(DhcpEv::Deconfigured),
                Some(dhcpv4::Event::Configured(c)) => Some(DhcpEv::Configured { address: c.address, router: c.router }),
            };
            match &ev {
                Some(DhcpEv::Deconfigured) => self.dhcp_lease = false,
                Some(DhcpEv::Configured { .. }) => self.dhcp_lease = true,
                None => {}
            }
            if ev.is_some() {
                self.dhcp_event = ev;
            }
            view.dhcp_unconfigured = !self.dhcp_lease;
        }
        let raw_sent = std::mem::take(&mut self.raw_sent);
        let is_raw = |p: &[u8]| raw_match(p, &raw_sent);
        let view = IfaceView { is_raw: &is_raw, any_ip_dsts: self.any_ip_dsts.clone().unwrap_or_default(), ..view };
        let mut frames = Vec::with_capacity(po.tx.len());
        for rec in po.tx {
            let v = self.judge.frame(&view, &rec.data);
            if let Some(w) = &v.reassembled_packet {
                self.reassembled.push(w.clone());
            }
            self.record(now, &rec.data, &v.info, v.reassembled.as_ref(), &v.defects, &view, out);
            frames.push(rec.data);
        }
        self.raw_sent = raw_sent;
        if self.raw_sent.len() > 32 {
            let n = self.raw_sent.len() - 32;
            self.raw_sent.drain(..n);
        }
        frames
    }

    #[allow(clippy::too_many_arguments)]
    fn record(&mut self, now: Micros, frame: &[u8], info: &FrameInfo, re: Option<&FrameInfo>, defects: &[Defect], view: &IfaceView, out: &mut CaseOut) {
        out.evals += 1;
        let m = medium_name(self.medium);
        out.class(format!("frame:{}/{}", m, info.class()));
        if let Some(r) = re {
            out.class(format!("reassembled:{}/{}", m, r.class()));
            out.count("fragmented_datagrams_reassembled_and_judged", 1);
        }
        out.count("frames_judged", 1);
        out.count(&format!("frames_{}", m), 1);
        out.count(&format!("frames_l3_{}", if info.l3.is_empty() { "?" } else { &info.l3 }), 1);
        if !info.l4.is_empty() {
            out.count(&format!("frames_l4_{}", info.l4), 1);
        }
        if info.raw {
            out.count("frames_from_raw_sockets", 1);
        }
        let udp_ck = info.udp_checksum_field.or(re.and_then(|r| r.udp_checksum_field));
        if udp_ck == Some(0xffff) {
            out.count("udp_datagrams_whose_computed_checksum_is_zero_sent_as_ffff", 1);
        }
        if info.fragment {
            out.count("ipv4_fragments", 1);
        }
        if info.lowpan_fragment {
            out.count("sixlowpan_fragments", 1);
        }
        if self.mtu_class == "min" {
            out.count("frames_at_minimum_mtu", 1);
        }
        if frame.len() == self.mtu {
            out.count("frames_exactly_filling_the_mtu", 1);
        }
        let nck = info.checksums_verified.len() + re.map(|r| r.checksums_verified.len()).unwrap_or(0);
        out.count("checksums_recomputed", nck as u64);
        for c in info.checksums_verified.iter().chain(re.iter().flat_map(|r| r.checksums_verified.iter())) {
            out.count(&format!("checksums_{}", c), 1);
        }
        if caps_class(&self.caps) != "tx-on" {
            out.count("frames_with_some_tx_checksum_off", 1);
        }
        if let Some(i) = &info.ip {
            if i.src.is_unspecified() {
                out.count("frames_with_unspecified_ip_source", 1);
            }
        }
        if self.verbose {
            println!(
                "{:>12.6} [{}] tx {} bytes {} {}{}",
                now as f64 / 1e6,
                self.name,
                frame.len(),
                info.class(),
                hex(&frame[..frame.len().min(80)]),
                if frame.len() > 80 { ".." } else { "" }
            );
        }
        for d in defects {
            if !self.focus.wants(d) {
                continue;
            }
            if self.verbose {
                println!("      DEFECT [{}] {}", d.sig, d.desc);
            }
            let hist: Vec<String> = self.hist.iter().cloned().collect();
            let addrs: Vec<String> = view.addrs.iter().map(|(a, p)| format!("{}/{}", a, p)).collect();
            let desc = format!(
                "{} | scenario {} on node {} ({}; interface addresses [{}]) at t={:.6}s | frame ({} bytes, {}): {}{} | preceding events: {}",
                d.desc,
                self.scenario,
                self.name,
                self.cfg_label(),
                addrs.join(", "),
                now as f64 / 1e6,
                frame.len(),
                info.class(),
                hex(&frame[..frame.len().min(160)]),
                if frame.len() > 160 { ".." } else { "" },
                if hist.is_empty() { "(none)".to_string() } else { hist.join(" ; ") }
            );
            out.violate(
                Violation::new(d.sig.clone(), desc).with(
                    Json::obj()
                        .set("scenario", Json::s(self.scenario.clone()))
                        .set("medium", Json::s(m))
                        .set("mtu", Json::u(self.mtu as u64))
                        .set("checksum_caps", Json::s(caps_label(&self.caps)))
                        .set("interface_addresses", Json::Arr(addrs.iter().map(|a| Json::s(a.clone())).collect()))
                        .set("frame", Json::hex(frame))
                        .set("frame_class", Json::s(info.class()))
                        .set("defect", Json::s(d.desc.clone()))
                        .set("history", Json::Arr(hist.iter().map(|h| Json::s(h.clone())).collect())),
                ),
            );
        }
    }

    pub fn poll_at(&mut self, now: Micros) -> Option<Micros> {
        self.host.poll_at(now)
    }

    pub fn addrs(&self) -> Vec<Addr> {
        self.host.iface.ip_addrs().iter().map(|c| Addr::from_smol(c.address())).collect()
    }
}

/// Export for other drivers: judge a batch of transmitted frames of one interface and record
/// defects as violations.  `scenario` names the driver; the judge keeps reassembly state between calls.
pub fn judge_frames(judge: &mut Judge, view: &IfaceView, frames: &[TxRec], scenario: &str, out: &mut CaseOut) -> Vec<FrameInfo> {
    let mut infos = Vec::new();
    for rec in frames {
        let v = judge.frame(view, &rec.data);
        out.evals += 1;
        out.count("frames_judged", 1);
        for d in &v.defects {
            out.violate(
                Violation::new(d.sig.clone(), format!("{} | scenario {} at t={:.6}s | frame ({} bytes): {}", d.desc, scenario, rec.at as f64 / 1e6, rec.data.len(), hex(&rec.data[..rec.data.len().min(200)])))
                    .with(Json::obj().set("scenario", Json::s(scenario)).set("frame", Json::hex(&rec.data)).set("defect", Json::s(d.desc.clone()))),
            );
        }
        infos.push(v.info);
    }
    infos
}

// ------------------------------------------------------------------ link-layer helpers for scripted peers

/// Wrap an IP packet for delivery to a node: Ethernet header / nothing / 802.15.4 + 6LoWPAN frames.
pub struct Wrap {
    pub medium: Medium,
    pub seq154: u8,
    pub tag154: u16,
    /// compress UDP headers with LOWPAN_NHC on IEEE 802.15.4
    pub udp_nhc: bool,
}

impl Wrap {
    pub fn new(medium: Medium) -> Wrap {
        Wrap { medium, seq154: 1, tag154: 0x100, udp_nhc: false }
    }
    /// `dst_n`/`src_n`: node numbers for the link-layer addresses (`None` dst = broadcast / multicast mapping from the IP destination)
    pub fn frames(&mut self, packet: &[u8], dst_n: Option<u8>, src_n: u8) -> Vec<Vec<u8>> {
        match self.medium {
            Medium::Ip => vec![packet.to_vec()],
            Medium::Ethernet => {
                let ety = if packet[0] >> 4 == 4 { indep::x1::eth::ETHERTYPE_IPV4 } else { indep::x1::eth::ETHERTYPE_IPV6 };
                let dst = match dst_n {
                    Some(n) => mac(n),
                    None => match ip::parse(packet, false) {
                        Ok(i) => match i.dst {
                            Addr::V4(d) if i.dst.is_multicast() => indep::x1::eth::mcast_mac_v4(&d),
                            Addr::V6(d) if i.dst.is_multicast() => indep::x1::eth::mcast_mac_v6(&d),
                            _ => indep::x1::eth::BROADCAST,
                        },
                        Err(_) => indep::x1::eth::BROADCAST,
                    },
                };
                vec![indep::x1::eth::build(&dst, &mac(src_n), ety, packet)]
            }
            Medium::Ieee802154 => {
                let dst = match dst_n {
                    Some(n) => LlAddr::Ext(eui(n)),
                    None => LlAddr::Short([0xff, 0xff]),
                };
                self.tag154 = self.tag154.wrapping_add(1);
                lowpan_v::build_frames_ex(&mut self.seq154, PAN, &dst, &LlAddr::Ext(eui(src_n)), self.tag154, packet, self.udp_nhc)
            }
        }
    }
}

/// Extract the IP packet from a frame a node transmitted (None for ARP, 6LoWPAN fragments, garbage).
pub fn unwrap_ip(medium: Medium, frame: &[u8]) -> Option<Vec<u8>> {
    match medium {
        Medium::Ip => Some(frame.to_vec()),
        Medium::Ethernet => {
            let e = indep::x1::eth::parse(frame).ok()?;
            if e.ethertype == indep::x1::eth::ETHERTYPE_IPV4 || e.ethertype == indep::x1::eth::ETHERTYPE_IPV6 {
                Some(e.payload.to_vec())
            } else {
                None
            }
        }
        Medium::Ieee802154 => {
            let m = lowpan_v::parse_mac(frame).ok()?;
            match lowpan_v::parse_lowpan(&m, &Vec::new()).ok()? {
                lowpan_v::Lowpan::Whole(p) => Some(p),
                _ => None,
            }
        }
    }
}

pub fn ip4(a: [u8; 4]) -> IpAddress {
    IpAddress::Ipv4(Ipv4Address::new(a[0], a[1], a[2], a[3]))
}
pub fn ip6(a: [u8; 16]) -> IpAddress {
    IpAddress::Ipv6(Ipv6Address::from(a))
}
