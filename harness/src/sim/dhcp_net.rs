//! The harness as "the network" of a DHCPv4 client (property C18).
//!
//! One Ethernet host runs `smoltcp::socket::dhcpv4::Socket`; every frame it
//! emits is parsed with `indep` and answered according to a seeded script
//! (correct / stale / defective OFFER, ACK, NAK, other; loss, duplication,
//! delay).  The application side of the harness does what
//! `examples/dhcp_client.rs` does: after every `Interface::poll` it calls
//! `Socket::poll()` and applies the reported configuration to the interface.
//! Time is virtual and advances by `Interface::poll_at` (plus early and late
//! polls).  The oracle lives in this file as well (it needs the history).
use super::*;
use crate::indep::{ip, Addr};
use crate::indep::x2::{dhcp, eth, udp};
use crate::util::json::Json;
use crate::util::rng::Rng;
use crate::util::run::Violation;
use smoltcp::iface::SocketHandle;
use smoltcp::socket::dhcpv4;
use smoltcp::time::Duration;
use smoltcp::wire::{IpCidr, Ipv4Address, Ipv4Cidr};

pub const CLIENT_MAC: [u8; 6] = [0x02, 0, 0, 0, 0, 0x01];
pub const SERVER_MAC: [u8; 6] = [0x02, 0, 0, 0, 0, 0x53];
/// lease the client assumes when option 51 is absent (socket/dhcpv4.rs: DEFAULT_LEASE_DURATION)
pub const DEFAULT_LEASE_US: Micros = 120_000_000;
/// iface/socket_meta.rs: DISCOVERY_SILENT_TIME
pub const NEIGHBOR_SILENCE_US: Micros = 1_000_000;

#[derive(Clone, Copy, Debug, PartialEq)]
pub enum Defect {
    None,
    StaleXid,
    RandomXid,
    ForeignMac,
    NoServerId,
    NoMask,
    BadMask,
    YiZero,
    YiBroadcast,
    YiMulticast,
    OpRequest,
    BadMagic,
    BadHtype,
    BadHlen,
    Truncated,
    OptOverrun,
    WrongSport,
    WrongDport,
    BadUdpChecksum,
    NoType,
}

pub const ALL_DEFECTS: &[Defect] = &[
    Defect::StaleXid,
    Defect::RandomXid,
    Defect::ForeignMac,
    Defect::NoServerId,
    Defect::NoMask,
    Defect::BadMask,
    Defect::YiZero,
    Defect::YiBroadcast,
    Defect::YiMulticast,
    Defect::OpRequest,
    Defect::BadMagic,
    Defect::BadHtype,
    Defect::BadHlen,
    Defect::Truncated,
    Defect::OptOverrun,
    Defect::WrongSport,
    Defect::WrongDport,
    Defect::BadUdpChecksum,
    Defect::NoType,
];

#[derive(Clone, Copy, Debug, PartialEq)]
pub struct LeaseParams {
    pub lease: Option<u32>,
    pub t1: Option<u32>,
    pub t2: Option<u32>,
}

impl LeaseParams {
    pub fn class(&self, max_lease: Option<Micros>) -> String {
        fn b(v: Option<u32>) -> &'static str {
            match v {
                None => "absent",
                Some(0) => "0",
                Some(1) => "1",
                Some(2..=59) => "<1m",
                Some(60..=3599) => "<1h",
                Some(3600..=999_999) => "<12d",
                Some(0xffff_ffff) => "2^32-1",
                Some(_) => "huge",
            }
        }
        let l = self.lease.unwrap_or(120) as u64;
        let rel = |v: Option<u32>| match v {
            None => "absent",
            Some(x) if (x as u64) < l => "<L",
            Some(x) if (x as u64) == l => "=L",
            Some(_) => ">L",
        };
        let ord = match (self.t1, self.t2) {
            (Some(a), Some(b)) if a < b => "t1<t2",
            (Some(a), Some(b)) if a == b => "t1=t2",
            (Some(_), Some(_)) => "t1>t2",
            _ => "-",
        };
        let cap = match max_lease {
            None => "nocap",
            Some(c) if (c as u64) < l * 1_000_000 => "capped",
            Some(_) => "cap-slack",
        };
        format!("lease={} t1{} t2{} {} {}", b(self.lease), rel(self.t1), rel(self.t2), ord, cap)
    }
}

#[derive(Clone, Debug)]
pub struct DhcpCfg {
    pub discover_timeout: Micros,
    pub initial_request_timeout: Micros,
    pub request_retries: u16,
    pub min_renew_timeout: Micros,
    pub max_renew_timeout: Option<Micros>,
    pub max_lease: Option<Micros>,
    pub ignore_naks: bool,
    pub mtu: usize,
    pub iface_seed: u64,
    // ---- network
    /// a client message is lost before any server sees it
    pub c2s_loss_pm: u32,
    /// a server message is lost
    pub s2c_loss_pm: u32,
    pub dup_pm: u32,
    pub latencies: Vec<Micros>,
    pub arp_answer_pm: u32,
    pub arp_latency: Micros,
    /// the next hop towards the DHCP server announces itself (ARP request to the client) whenever the
    /// client's address changes, so that the client's neighbor cache is never cold
    pub arp_prefill: bool,
    pub early_poll_pm: u32,
    pub late_poll_pm: u32,
    // ---- server
    pub base: LeaseParams,
    /// chance that an individual ACK draws fresh lease parameters
    pub vary_lease_pm: u32,
    /// chance that a server message carries exactly one defect
    pub defect_pm: u32,
    /// chance of additional messages in a reaction
    pub extra_pm: u32,
    /// chance that the reaction to a message is of the "wrong" kind (ACK to DISCOVER, NAK, other types)
    pub odd_kind_pm: u32,
    /// chance per poll of an unsolicited server message
    pub inject_pm: u32,
    /// the servers fall silent after this many ACKs have been sent (None: never)
    pub silent_after_acks: Option<u32>,
    /// ... and wake up again after this much time
    pub silence_len: Micros,
    pub server_ip: [u8; 4],
    pub server_id: [u8; 4],
    pub pool: [u8; 4],
    pub mask: [u8; 4],
    pub router: Option<[u8; 4]>,
    pub max_polls: u64,
}

#[derive(Default, Clone, Debug)]
pub struct DhcpStats {
    pub polls: u64,
    pub evals: u64,
    pub client_discovers: u64,
    pub client_requests: u64,
    pub client_renews: u64,
    pub client_rebinds: u64,
    pub client_arps: u64,
    pub client_other_frames: u64,
    pub server_msgs_delivered: u64,
    pub server_msgs_lost: u64,
    pub client_msgs_lost: u64,
    pub acks_delivered: u64,
    pub valid_acks: u64,
    pub definite_acks: u64,
    pub invalid_acks: u64,
    pub naks_delivered: u64,
    pub offers_delivered: u64,
    pub configured_events: u64,
    pub deconfigured_events: u64,
    pub expiries_observed: u64,
    pub expiry_polls_exact: u64,
    pub expiry_polls_late: u64,
    pub poll_at_checks_configured: u64,
    pub poll_at_checks_unconfigured: u64,
    pub spacing_checks: u64,
    pub silent_lease_phases: u64,
    pub order_checks: u64,
    pub early_polls: u64,
    pub late_polls: u64,
    pub spin_cut: u64,
    pub max_virtual_time: Micros,
}

#[derive(Clone, Debug)]
struct ClientTx {
    xid: u32,
    mtype: u8,
    at: Micros,
}

struct Pending {
    at: Micros,
    seq: u64,
    frame: Vec<u8>,
    label: String,
    is_arp: bool,
    /// a DHCPACK exactly as a faithful server builds it (one option of each kind, explicit lease)
    pristine: bool,
}

#[derive(Clone, Debug)]
struct AckOk {
    yiaddr: [u8; 4],
    prefixes: Vec<u8>,
    bound_us: Micros,
    strict: bool,
    /// a T1 or T2 option of zero: the first renewal may be attempted in the very poll that accepts the ACK,
    /// i.e. before the application could give the interface the address
    timer_zero: bool,
    desc: String,
}

pub struct DhcpSim {
    pub cfg: DhcpCfg,
    pub host: Host,
    handle: SocketHandle,
    pub now: Micros,
    pending: Vec<Pending>,
    seq: u64,
    // ---- server state
    acks_sent: u32,
    silent_until: Option<Micros>,
    old_xids: Vec<u32>,
    // ---- oracle state
    last_tx: Option<ClientTx>,
    e_bound: Option<Micros>,
    last_msg_pristine: bool,
    configured: Option<([u8; 4], u8)>,
    configured_at: Micros,
    phase_rebind_seen: bool,
    phase_requests: u64,
    /// renewing/rebinding REQUESTs seen in the transmit log of the current poll
    renew_tx_this_poll: u64,
    phase_frames_in: u64,
    phase_faithful: bool,
    phase_server_onlink: bool,
    /// the renewal destination can be resolved: server on-link, or an on-link router is configured
    phase_server_reachable: bool,
    phase_ack_desc: String,
    last_solicit: Micros,
    solicit_faithful: bool,
    arp_trouble_until: Micros,
    /// neighbor resolution towards the DHCP server is not guaranteed in this run
    unclean: bool,
    ack_history: Vec<String>,
    pub violations: Vec<Violation>,
    pub stats: DhcpStats,
    pub classes: Vec<String>,
    pub trace: Vec<String>,
    pub trace_on: bool,
}

fn hex(b: &[u8]) -> String {
    let mut s = String::with_capacity(b.len() * 2);
    for x in b {
        s.push_str(&format!("{:02x}", x));
    }
    s
}

impl DhcpSim {
    pub fn new(cfg: DhcpCfg) -> DhcpSim {
        let mut host = Host::new(
            Medium::Ethernet,
            cfg.mtu,
            HardwareAddress::Ethernet(EthernetAddress(CLIENT_MAC)),
            cfg.iface_seed,
            &[],
            0,
        );
        let mut s = dhcpv4::Socket::new();
        let mut rc = dhcpv4::RetryConfig::default();
        rc.discover_timeout = Duration::from_micros(cfg.discover_timeout as u64);
        rc.initial_request_timeout = Duration::from_micros(cfg.initial_request_timeout as u64);
        rc.request_retries = cfg.request_retries;
        rc.min_renew_timeout = Duration::from_micros(cfg.min_renew_timeout as u64);
        rc.max_renew_timeout = match cfg.max_renew_timeout {
            Some(m) => Duration::from_micros(m as u64),
            None => Duration::MAX,
        };
        s.set_retry_config(rc);
        s.set_max_lease_duration(cfg.max_lease.map(|m| Duration::from_micros(m as u64)));
        s.set_ignore_naks(cfg.ignore_naks);
        let handle = host.sockets.add(s);
        DhcpSim {
            cfg,
            host,
            handle,
            now: 0,
            pending: Vec::new(),
            seq: 0,
            acks_sent: 0,
            silent_until: None,
            old_xids: Vec::new(),
            last_tx: None,
            e_bound: None,
            last_msg_pristine: false,
            configured: None,
            configured_at: 0,
            phase_rebind_seen: false,
            phase_requests: 0,
            renew_tx_this_poll: 0,
            phase_frames_in: 0,
            phase_faithful: true,
            phase_server_onlink: false,
            phase_server_reachable: true,
            phase_ack_desc: String::new(),
            last_solicit: 0,
            solicit_faithful: true,
            arp_trouble_until: -1,
            unclean: false,
            ack_history: Vec::new(),
            violations: Vec::new(),
            stats: DhcpStats::default(),
            classes: Vec::new(),
            trace: Vec::new(),
            trace_on: false,
        }
    }

    fn log(&mut self, s: String) {
        if self.trace_on {
            println!("[{:>16}us] {}", self.now, s);
        }
        if self.trace.len() < 60 {
            self.trace.push(format!("[{}us] {}", self.now, s));
        }
    }

    fn class(&mut self, c: String) {
        if !self.classes.contains(&c) {
            self.classes.push(c);
        }
    }

    fn violate(&mut self, sig: &str, desc: String) {
        if self.trace_on {
            println!("[{:>16}us] VIOLATION {}: {}", self.now, sig, desc);
        }
        if self.violations.iter().any(|v| v.sig == sig) {
            return;
        }
        let hist = self.ack_history.iter().rev().take(6).rev().cloned().collect::<Vec<_>>();
        let detail = Json::obj()
            .set("virtual_time_us", Json::Int(self.now))
            .set("retry_config", Json::s(format!(
                "discover_timeout={}us initial_request_timeout={}us request_retries={} min_renew={}us max_renew={:?} max_lease={:?} ignore_naks={}",
                self.cfg.discover_timeout, self.cfg.initial_request_timeout, self.cfg.request_retries, self.cfg.min_renew_timeout, self.cfg.max_renew_timeout, self.cfg.max_lease, self.cfg.ignore_naks
            )))
            .set("recent_server_messages", Json::Arr(hist.into_iter().map(Json::s).collect()))
            .set("trace_head", Json::Arr(self.trace.iter().take(40).map(|s| Json::s(s.clone())).collect()));
        self.violations.push(Violation::new(sig, desc).with(detail));
    }

    // ------------------------------------------------------------ frames to the client

    fn wrap(&self, m: &dhcp::Msg, defect: Defect, ip_dst: [u8; 4], eth_dst: [u8; 6], rng: &mut Rng) -> Vec<u8> {
        let mut payload = dhcp::build(m, 300);
        match defect {
            Defect::Truncated => {
                let n = *rng.pick(&[0usize, 1, 100, 235, 236, 239]);
                payload.truncate(n);
            }
            Defect::OptOverrun => {
                // some option claims more octets than the message has: nothing can be read from there on
                let mut mm = m.clone();
                mm.ended = false;
                let keep = rng.usize_below(mm.options.len() + 1);
                mm.options.truncate(keep);
                let mut p = dhcp::build(&mm, 0);
                p.push(*rng.pick(&[dhcp::OPT_MSG_TYPE, dhcp::OPT_LEASE_TIME, 12, dhcp::OPT_SUBNET_MASK]));
                p.push(200);
                p.push(m.msg_type().unwrap_or(dhcp::ACK));
                payload = p;
            }
            _ => {}
        }
        let src = Addr::V4(self.cfg.server_ip);
        let dst = Addr::V4(ip_dst);
        let sport = if defect == Defect::WrongSport { *rng.pick(&[68u16, 66, 1067]) } else { dhcp::SERVER_PORT };
        let dport = if defect == Defect::WrongDport { *rng.pick(&[67u16, 69, 1068]) } else { dhcp::CLIENT_PORT };
        let mut u = udp::build(&src, &dst, sport, dport, &payload);
        if defect == Defect::BadUdpChecksum {
            u[6] ^= 0x5a;
            if u[6] == 0 && u[7] == 0 {
                u[7] = 1;
            }
        }
        let p = ip::build(&src, &dst, ip::PROTO_UDP, 64, &u);
        eth::build(&eth_dst, &SERVER_MAC, eth::ETHERTYPE_IPV4, &p)
    }

    /// Build one server message of kind `kind` answering (or pretending to answer) `xid`.
    fn server_msg(&mut self, rng: &mut Rng, kind: u8, xid: u32, defect: Defect, lp: LeaseParams) -> (Vec<u8>, String) {
        let mut m = dhcp::Msg::default();
        m.op = dhcp::BOOTREPLY;
        m.xid = xid;
        m.chaddr[..6].copy_from_slice(&CLIENT_MAC);
        m.siaddr = self.cfg.server_ip;
        m.options.push((dhcp::OPT_MSG_TYPE, vec![kind]));
        m.options.push((dhcp::OPT_SERVER_ID, self.cfg.server_id.to_vec()));
        if kind == dhcp::OFFER || kind == dhcp::ACK {
            m.yiaddr = self.cfg.pool;
            if let Some(l) = lp.lease {
                m.options.push((dhcp::OPT_LEASE_TIME, l.to_be_bytes().to_vec()));
            }
            if let Some(t) = lp.t1 {
                m.options.push((dhcp::OPT_T1, t.to_be_bytes().to_vec()));
            }
            if let Some(t) = lp.t2 {
                m.options.push((dhcp::OPT_T2, t.to_be_bytes().to_vec()));
            }
            m.options.push((dhcp::OPT_SUBNET_MASK, self.cfg.mask.to_vec()));
            if let Some(r) = self.cfg.router {
                m.options.push((dhcp::OPT_ROUTER, r.to_vec()));
            }
            m.options.push((dhcp::OPT_DNS, vec![self.cfg.server_ip[0], self.cfg.server_ip[1], self.cfg.server_ip[2], 53, 0, 0, 0, 0]));
        }
        match defect {
            Defect::StaleXid => {
                m.xid = if self.old_xids.is_empty() { xid.wrapping_add(1) } else { *rng.pick(&self.old_xids) };
                if m.xid == xid {
                    m.xid = xid.wrapping_sub(1);
                }
            }
            Defect::RandomXid => {
                m.xid = rng.u32();
                if m.xid == xid {
                    m.xid ^= 0x8000_0000;
                }
            }
            Defect::ForeignMac => {
                let k = rng.usize_below(6);
                m.chaddr[k] ^= 1 << rng.below(8);
            }
            Defect::NoServerId => m.remove_opt(dhcp::OPT_SERVER_ID),
            Defect::NoMask => m.remove_opt(dhcp::OPT_SUBNET_MASK),
            Defect::BadMask => {
                let bad = *rng.pick(&[[255u8, 0, 255, 0], [0, 255, 255, 255], [255, 255, 255, 1], [255, 254, 255, 0], [127, 255, 255, 0]]);
                m.set_opt(dhcp::OPT_SUBNET_MASK, &bad);
            }
            Defect::YiZero => m.yiaddr = [0, 0, 0, 0],
            Defect::YiBroadcast => m.yiaddr = [255, 255, 255, 255],
            Defect::YiMulticast => m.yiaddr = [224 + rng.below(16) as u8, 0, 0, 1 + rng.below(250) as u8],
            Defect::OpRequest => m.op = dhcp::BOOTREQUEST,
            Defect::BadMagic => m.magic_ok = false,
            Defect::BadHtype => m.htype = *rng.pick(&[0u8, 6, 255]),
            Defect::BadHlen => m.hlen = *rng.pick(&[0u8, 5, 7, 16]),
            Defect::NoType => m.remove_opt(dhcp::OPT_MSG_TYPE),
            _ => {}
        }
        let (ip_dst, eth_dst) = match rng.below(4) {
            0 => (m.yiaddr, CLIENT_MAC),
            1 => ([255, 255, 255, 255], CLIENT_MAC),
            _ => ([255, 255, 255, 255], eth::BROADCAST),
        };
        let ip_dst = if ip_dst == [0, 0, 0, 0] { [255, 255, 255, 255] } else { ip_dst };
        let frame = self.wrap(&m, defect, ip_dst, eth_dst, rng);
        self.last_msg_pristine = kind == dhcp::ACK && defect == Defect::None && lp.lease.is_some();
        let label = format!("{}{}", m.describe(), if defect == Defect::None { String::new() } else { format!(" <{:?}>", defect) });
        (frame, label)
    }

    fn schedule(&mut self, at: Micros, frame: Vec<u8>, label: String, is_arp: bool) {
        self.seq += 1;
        self.pending.push(Pending { at, seq: self.seq, frame, label, is_arp, pristine: false });
    }

    fn draw_lease(&self, rng: &mut Rng) -> LeaseParams {
        if rng.below(1000) >= self.cfg.vary_lease_pm as u64 {
            return self.cfg.base;
        }
        random_lease(rng)
    }

    fn draw_defect(&self, rng: &mut Rng) -> Defect {
        if rng.below(1000) < self.cfg.defect_pm as u64 {
            *rng.pick(ALL_DEFECTS)
        } else {
            Defect::None
        }
    }

    fn servers_silent(&mut self) -> bool {
        if let Some(u) = self.silent_until {
            if self.now < u {
                return true;
            }
            self.silent_until = None;
            self.acks_sent = 0;
        }
        false
    }

    /// The network reacts to one DHCP message of the client.
    fn react(&mut self, rng: &mut Rng, m: &dhcp::Msg) {
        if rng.below(1000) < self.cfg.c2s_loss_pm as u64 {
            self.stats.client_msgs_lost += 1;
            self.log("   (client message lost)".into());
            return;
        }
        if self.servers_silent() {
            return;
        }
        let ty = m.msg_type().unwrap_or(0);
        let mut n = 1;
        while n < 4 && rng.below(1000) < self.cfg.extra_pm as u64 {
            n += 1;
        }
        let mut delay = *rng.pick(&self.cfg.latencies.clone());
        for k in 0..n {
            let kind = if rng.below(1000) < self.cfg.odd_kind_pm as u64 || k > 0 {
                *rng.pick(&[dhcp::OFFER, dhcp::ACK, dhcp::ACK, dhcp::NAK, dhcp::OFFER, dhcp::ACK, dhcp::INFORM, dhcp::DECLINE, 9, dhcp::REQUEST])
            } else if ty == dhcp::DISCOVER {
                dhcp::OFFER
            } else {
                dhcp::ACK
            };
            let defect = self.draw_defect(rng);
            let lp = self.draw_lease(rng);
            let (frame, label) = self.server_msg(rng, kind, m.xid, defect, lp);
            if k > 0 && rng.chance(1, 3) {
                delay += *rng.pick(&[1i64, 1_000, 200_000, 3_000_000]);
            }
            if kind == dhcp::ACK && defect == Defect::None {
                self.acks_sent += 1;
            }
            self.emit_to_client(rng, delay, frame, label);
        }
        if let Some(k) = self.cfg.silent_after_acks {
            if self.acks_sent >= k && self.silent_until.is_none() {
                self.silent_until = Some(self.now.saturating_add(self.cfg.silence_len));
            }
        }
    }

    fn emit_to_client(&mut self, rng: &mut Rng, delay: Micros, frame: Vec<u8>, label: String) {
        if rng.below(1000) < self.cfg.s2c_loss_pm as u64 {
            self.last_msg_pristine = false;
            self.stats.server_msgs_lost += 1;
            self.log(format!("   (lost on the way to the client: {})", label));
            return;
        }
        let at = self.now + delay;
        let pristine = std::mem::replace(&mut self.last_msg_pristine, false);
        if rng.below(1000) < self.cfg.dup_pm as u64 {
            let d2 = *rng.pick(&[0i64, 1, 500_000, 20_000_000, 4_000_000_000]);
            self.schedule(at + d2, frame.clone(), format!("{} (dup)", label), false);
            self.pending.last_mut().unwrap().pristine = pristine;
        }
        self.schedule(at, frame, label, false);
        self.pending.last_mut().unwrap().pristine = pristine;
    }

    // ------------------------------------------------------------ oracle on inbound frames

    /// Is this frame a DHCPACK for the client, and is it a *valid ACK* in the sense of the property?
    fn judge(&self, frame: &[u8]) -> Option<(dhcp::Msg, Result<AckOk, (String, String)>)> {
        let f = eth::parse(frame).ok()?;
        if f.ethertype != eth::ETHERTYPE_IPV4 {
            return None;
        }
        let i = ip::parse_v4(&f.payload, false).ok()?;
        if i.proto != ip::PROTO_UDP || i.more_frags || i.frag_offset != 0 {
            return None;
        }
        let u = udp::parse(&i.src, &i.dst, &f.payload[i.payload_off..i.payload_off + i.payload_len]).ok()?;
        if u.sport != dhcp::SERVER_PORT || u.dport != dhcp::CLIENT_PORT {
            return None;
        }
        let m = dhcp::parse(&u.payload).ok()?;
        if !m.msg_types().contains(&dhcp::ACK) {
            return Some((m, Err(("not-ack".into(), "not an ACK".into()))));
        }
        let Some(tx) = &self.last_tx else {
            return Some((m, Err(("xid".into(), "the client has not transmitted anything yet".into()))));
        };
        if m.xid != tx.xid {
            let d = format!("xid {:08x}, the client's most recent message carried {:08x}", m.xid, tx.xid);
            return Some((m, Err(("xid".into(), d))));
        }
        if m.mac() != CLIENT_MAC {
            let d = format!("chaddr {} is not the client's {}", eth::mac_str(&m.mac()), eth::mac_str(&CLIENT_MAC));
            return Some((m, Err(("chaddr".into(), d))));
        }
        if m.opt_len(dhcp::OPT_SERVER_ID, 4).is_none() {
            return Some((m, Err(("server-id".into(), "no server identifier option".into()))));
        }
        let prefixes: Vec<u8> = m
            .opt_all(dhcp::OPT_SUBNET_MASK)
            .iter()
            .filter(|d| d.len() == 4)
            .filter_map(|d| dhcp::mask_prefix(&[d[0], d[1], d[2], d[3]]))
            .collect();
        if prefixes.is_empty() {
            return Some((m, Err(("mask".into(), "no contiguous subnet mask option".into()))));
        }
        if !dhcp::is_unicast(&m.yiaddr) {
            let d = format!("yiaddr {} is not unicast", dhcp::v4s(&m.yiaddr));
            return Some((m, Err(("yiaddr".into(), d))));
        }
        // upper bound of the lease the client may derive from this message
        let leases = m.u32_opts(dhcp::OPT_LEASE_TIME);
        let all51 = m.opt_all(dhcp::OPT_LEASE_TIME).len();
        let mut bound: Micros = 0;
        for l in &leases {
            bound = bound.max(*l as Micros * 1_000_000);
        }
        if leases.is_empty() || leases.len() != all51 {
            bound = bound.max(DEFAULT_LEASE_US);
        }
        if let Some(c) = self.cfg.max_lease {
            bound = bound.min(c);
        }
        let desc = m.describe();
        Some((
            m.clone(),
            Ok(AckOk {
                yiaddr: m.yiaddr,
                prefixes,
                bound_us: bound,
                strict: tx.mtype == dhcp::REQUEST,
                timer_zero: m.u32_opts(dhcp::OPT_T1).contains(&0) || m.u32_opts(dhcp::OPT_T2).contains(&0),
                desc,
            }),
        ))
    }

    fn spacing_bound(&self) -> Micros {
        let sh = (self.cfg.request_retries.saturating_sub(1) / 2) as u32;
        let req = self.cfg.initial_request_timeout.checked_shl(sh).unwrap_or(Micros::MAX);
        self.cfg.discover_timeout.max(req)
    }

    // ------------------------------------------------------------ the run

    pub fn run(&mut self, rng: &mut Rng) {
        self.unclean = !(self.cfg.arp_prefill && self.cfg.arp_answer_pm >= 1000 && self.cfg.arp_latency == 0);
        let mut spin = 0u32;
        let mut spin_step: Micros = 1_000;
        loop {
            if self.stats.polls >= self.cfg.max_polls {
                break;
            }
            let now = self.now;
            self.stats.max_virtual_time = now;
            // ---- 1. hand over everything that is due
            let mut due: Vec<Pending> = Vec::new();
            let mut i = 0;
            while i < self.pending.len() {
                if self.pending[i].at <= now {
                    due.push(self.pending.swap_remove(i));
                } else {
                    i += 1;
                }
            }
            due.sort_by_key(|p| (p.at, p.seq));
            let mut batch_acks: Vec<AckOk> = Vec::new();
            let mut batch_invalid: Vec<(String, String, String)> = Vec::new();
            let mut batch_desc: Vec<String> = Vec::new();
            let alone = due.iter().filter(|p| !p.is_arp).count() == 1;
            for p in due {
                if !p.is_arp {
                    self.stats.server_msgs_delivered += 1;
                    self.phase_frames_in += 1;
                    match self.judge(&p.frame) {
                        Some((m, Ok(a))) => {
                            self.stats.acks_delivered += 1;
                            self.stats.valid_acks += 1;
                            let e = now.saturating_add(a.bound_us);
                            // "the most recent such ACK": an ACK that a bound client is certain to take
                            // (built by the faithful server path, matching the xid of the client's last
                            // message, alone in this hand-over, source not a broadcast address of the
                            // leased subnet) replaces every earlier grant; any other valid ACK may or
                            // may not be taken, so it can only raise the bound.
                            let src_ok = {
                                let (s, m, a4) = (self.cfg.server_ip, self.cfg.mask, self.cfg.pool);
                                let bc: Vec<u8> = (0..4).map(|k| a4[k] | !m[k]).collect();
                                s[..] != bc[..] && s != [255, 255, 255, 255] && s[0] < 224 && s != [0, 0, 0, 0]
                            };
                            if p.pristine && alone && self.configured.is_some() && src_ok && !self.unclean {
                                // (in runs without guaranteed neighbor resolution a renewal may fail to leave the
                                // host after it drew a new xid: the harness does not know the client's xid then)
                                self.stats.definite_acks += 1;
                                self.e_bound = Some(e);
                            } else {
                                self.e_bound = Some(self.e_bound.map_or(e, |x| x.max(e)));
                            }
                            self.phase_rebind_seen = false;
                            self.ack_history.push(format!("t={}us VALID {} (lease bound {}us)", now, m.describe(), a.bound_us));
                            batch_acks.push(a);
                        }
                        Some((m, Err((kind, why)))) => {
                            let types = m.msg_types();
                            if types.contains(&dhcp::ACK) {
                                self.stats.acks_delivered += 1;
                                self.stats.invalid_acks += 1;
                                self.ack_history.push(format!("t={}us INVALID({}) {}", now, why, m.describe()));
                                batch_invalid.push((kind, why, m.describe()));
                            } else {
                                if types.contains(&dhcp::NAK) {
                                    self.stats.naks_delivered += 1;
                                }
                                if types.contains(&dhcp::OFFER) {
                                    self.stats.offers_delivered += 1;
                                }
                                self.ack_history.push(format!("t={}us {}", now, m.describe()));
                            }
                        }
                        None => {
                            self.ack_history.push(format!("t={}us (not a DHCP server message) {}", now, p.label));
                        }
                    }
                    batch_desc.push(p.label.clone());
                }
                self.log(format!("-> client: {}{}", if p.is_arp { "ARP " } else { "" }, p.label));
                self.host.dev.rx.push_back(p.frame);
            }
            let e_before = self.e_bound;
            let configured_before = self.configured;

            // ---- 2. poll
            let out = self.host.poll(now);
            self.stats.polls += 1;
            let mut progressed = out.rx_count > 0 || !out.tx.is_empty();

            // ---- 3. what the client transmitted
            self.renew_tx_this_poll = 0;
            for rec in &out.tx {
                self.observe_client_frame(rng, &rec.data, e_before, configured_before);
            }

            // ---- 4. the application: Socket::poll() and applying the configuration
            let mut events: Vec<Option<([u8; 4], u8)>> = Vec::new();
            loop {
                let s = self.host.sockets.get_mut::<dhcpv4::Socket>(self.handle);
                match s.poll() {
                    None => break,
                    Some(dhcpv4::Event::Deconfigured) => events.push(None),
                    Some(dhcpv4::Event::Configured(c)) => events.push(Some((c.address.address().octets(), c.address.prefix_len()))),
                }
                if events.len() > 4 {
                    break;
                }
            }
            for ev in events {
                progressed = true;
                match ev {
                    None => {
                        self.stats.deconfigured_events += 1;
                        self.log("EVENT Deconfigured".into());
                        self.on_deconfigured();
                    }
                    Some((addr, plen)) => {
                        self.stats.configured_events += 1;
                        self.log(format!("EVENT Configured {}/{}", dhcp::v4s(&addr), plen));
                        self.on_configured(addr, plen, &batch_acks, &batch_invalid, &batch_desc);
                    }
                }
            }

            // ---- 5. lease expiry: after a poll at or after E the client must not be configured
            if let Some((addr, plen)) = self.configured {
                self.stats.evals += 1;
                match self.e_bound {
                    Some(e) if now >= e => {
                        let kind = if now == e { "at" } else { "after" };
                        let arp = if self.unclean { ":arp-unreliable" } else { "" };
                        self.violate(
                            &format!("dhcp:lease:configured-past-expiry{}", arp),
                            format!(
                                "Interface::poll at t={}us ({} the latest possible expiry E={}us) was followed by no Deconfigured event: the client still reports {}/{} as configured. E = max over the valid ACKs delivered of (delivery time + min(lease, max_lease)); last: {}",
                                now, kind, e, dhcp::v4s(&addr), plen, self.phase_ack_desc
                            ),
                        );
                        // do not repeat for ever
                        self.e_bound = Some(Micros::MAX);
                    }
                    _ => {}
                }
            }
            if configured_before.is_some() && self.configured.is_none() {
                if let Some(e) = e_before {
                    if now >= e {
                        self.stats.expiries_observed += 1;
                        if now == e {
                            self.stats.expiry_polls_exact += 1;
                            self.class("expiry:polled-exactly-at-E".into());
                        } else {
                            self.stats.expiry_polls_late += 1;
                            self.class("expiry:polled-after-E".into());
                        }
                    }
                }
            }

            // ---- 6. poll_at
            let pa = self.host.poll_at(now);
            // judged only where the harness would really sleep until poll_at: not while more frames are due now
            let quiescent = !self.pending.iter().any(|p| p.at <= now);
            if !quiescent {
            } else if self.configured.is_some() {
                self.stats.evals += 1;
                self.stats.poll_at_checks_configured += 1;
                if let Some(e) = self.e_bound {
                    if e != Micros::MAX {
                        match pa {
                            Some(p) if p <= e => {}
                            other => {
                                let arp = if self.unclean { ":arp-unreliable" } else { "" };
                                self.violate(
                                    &format!("dhcp:poll_at:beyond-expiry{}", arp),
                                    format!(
                                        "while {} is configured with latest possible expiry E={}us, Interface::poll_at at t={}us answered {:?} (must be <= E so that the Deconfigured event is not late). Lease from: {}",
                                        self.configured.map(|c| format!("{}/{}", dhcp::v4s(&c.0), c.1)).unwrap_or_default(),
                                        e, now, other, self.phase_ack_desc
                                    ),
                                );
                            }
                        }
                    }
                }
            } else {
                self.stats.evals += 1;
                self.stats.poll_at_checks_unconfigured += 1;
                // the socket may be silenced for up to 1 s after a unicast renewal that could not be sent
                // (iface/socket_meta.rs); that silence carries over into the next discovery
                let slack = NEIGHBOR_SILENCE_US;
                let bound = self.spacing_bound().saturating_add(slack);
                let limit = self.last_solicit.saturating_add(bound);
                if self.solicit_faithful {
                    match pa {
                        Some(p) if p <= limit => {}
                        other => {
                            self.violate(
                                "dhcp:solicit:poll_at-beyond-retry-bound",
                                format!(
                                    "unconfigured client: last DISCOVER/REQUEST (or loss of configuration) at t={}us, retry bound max(discover_timeout, initial_request_timeout << ((retries-1)/2)) = {}us, but Interface::poll_at at t={}us answered {:?}",
                                    self.last_solicit, bound, now, other
                                ),
                            );
                        }
                    }
                }
            }

            // ---- 7. unsolicited server messages
            if rng.below(1000) < self.cfg.inject_pm as u64 && !self.servers_silent() {
                let xid = match (&self.last_tx, rng.below(4)) {
                    (Some(t), 0..=2) => t.xid,
                    _ => {
                        if self.old_xids.is_empty() {
                            rng.u32()
                        } else {
                            *rng.pick(&self.old_xids)
                        }
                    }
                };
                let kind = *rng.pick(&[dhcp::ACK, dhcp::ACK, dhcp::NAK, dhcp::OFFER, dhcp::ACK]);
                let defect = self.draw_defect(rng);
                let lp = random_lease(rng);
                let (frame, label) = self.server_msg(rng, kind, xid, defect, lp);
                let d = *rng.pick(&[0i64, 1, 1_000, 1_000_000, 30_000_000, 600_000_000]);
                self.emit_to_client(rng, d, frame, format!("{} (unsolicited)", label));
            }

            // ---- 8. next instant
            let next_delivery = self.pending.iter().map(|p| p.at).min();
            let mut next = match (pa, next_delivery) {
                (Some(p), Some(d)) => p.min(d),
                (Some(p), None) => p,
                (None, Some(d)) => d,
                (None, None) => break,
            };
            if next <= now {
                next = now;
                if progressed {
                    spin = 0;
                    spin_step = 1_000;
                } else {
                    spin += 1;
                    if spin > 3 {
                        // poll_at keeps answering "now" although polling changes nothing (that is C13's
                        // subject): behave like an application whose clock moves on, in growing steps
                        self.stats.spin_cut += 1;
                        next = now + spin_step;
                        if let Some(d) = next_delivery {
                            next = next.min(d.max(now + 1));
                        }
                        spin_step = (spin_step * 2).min(1_000_000);
                        spin = 0;
                    }
                }
            } else {
                spin = 0;
                spin_step = 1_000;
                let gap = next - now;
                if rng.below(1000) < self.cfg.early_poll_pm as u64 && gap > 1 {
                    // an extra poll strictly before the deadline
                    let frac = *rng.pick(&[1u64, 2, 10, 1000]);
                    let early = now + (gap / frac as i64).max(1).min(gap - 1);
                    next = early;
                    self.stats.early_polls += 1;
                } else if rng.below(1000) < self.cfg.late_poll_pm as u64 && Some(next) == pa {
                    // the application oversleeps
                    let over = *rng.pick(&[1i64, 1_000, 999_999, 1_000_000, 5_000_000, 120_000_000, 86_400_000_000]);
                    next = next.saturating_add(over);
                    self.stats.late_polls += 1;
                    self.phase_faithful = false;
                    self.solicit_faithful = false;
                }
            }
            if next > (1i64 << 55) {
                self.log("run cut: virtual time beyond 2^55 us".into());
                break;
            }
            self.now = next;
        }
    }

    fn on_deconfigured(&mut self) {
        let now = self.now;
        if let Some((addr, _)) = self.configured {
            // silent-server obligation: a lease that ran out unanswered must have seen a renewal attempt
            if let Some(e) = self.e_bound {
                let lease = e.saturating_sub(self.configured_at);
                if now >= e && self.phase_frames_in == 0 && self.phase_faithful && self.phase_server_onlink && lease >= 3_000_000 && !self.unclean {
                    self.stats.silent_lease_phases += 1;
                    self.stats.evals += 1;
                    if self.phase_requests == 0 {
                        self.violate(
                            "dhcp:renew:no-attempt-before-expiry",
                            format!(
                                "lease of {}us for {} obtained at t={}us ran out at t={}us with every server silent, ARP answered at once and the interface polled at every poll_at instant, but the client never transmitted a renewing or rebinding DHCPREQUEST. Lease from: {}",
                                lease, dhcp::v4s(&addr), self.configured_at, now, self.phase_ack_desc
                            ),
                        );
                    }
                }
            }
        }
        self.configured = None;
        self.e_bound = None;
        self.phase_rebind_seen = false;
        self.last_solicit = now;
        self.solicit_faithful = true;
        self.host.iface.update_ip_addrs(|a| a.clear());
        self.host.iface.routes_mut().remove_default_ipv4_route();
    }

    fn on_configured(&mut self, addr: [u8; 4], plen: u8, acks: &[AckOk], invalid: &[(String, String, String)], batch: &[String]) {
        let now = self.now;
        self.stats.evals += 1;
        let matching: Vec<&AckOk> = acks.iter().filter(|a| a.yiaddr == addr && a.prefixes.contains(&plen)).collect();
        if matching.is_empty() {
            // name the reason: the defect of the ACK(s) in this batch, or "none at all"
            let (kind, why) = if let Some(a) = acks.first() {
                ("address".to_string(), format!("the valid ACK delivered grants {} with prefixes {:?}", dhcp::v4s(&a.yiaddr), a.prefixes))
            } else if let Some((k, w, d)) = invalid.iter().find(|x| x.0 != "not-ack") {
                (k.clone(), format!("the only ACK delivered before this poll is not valid: {} [{}]", w, d))
            } else {
                ("no-ack".to_string(), format!("no DHCPACK was delivered before this poll (delivered: {:?})", batch))
            };
            self.violate(
                &format!("dhcp:configured:without-valid-ack:{}", kind),
                format!("the client reported Configured({}/{}) at t={}us but {}", dhcp::v4s(&addr), plen, now, why),
            );
        } else if !matching.iter().any(|a| a.strict) {
            let last = self.last_tx.clone();
            self.violate(
                "dhcp:configured:ack-before-request",
                format!(
                    "the client reported Configured({}/{}) at t={}us from the ACK [{}], but it has not sent a DHCPREQUEST for this transaction: its most recent transmission was message type {} (xid {:08x}) at t={}us; frames handed over before this poll, in order: {:?}",
                    dhcp::v4s(&addr), plen, now, matching[0].desc,
                    last.as_ref().map(|t| t.mtype).unwrap_or(0), last.as_ref().map(|t| t.xid).unwrap_or(0), last.as_ref().map(|t| t.at).unwrap_or(0), batch
                ),
            );
        }
        if !dhcp::is_unicast(&addr) || plen > 32 {
            // cannot be applied to the interface (Interface::update_ip_addrs panics on it)
            self.violate(
                "dhcp:configured:non-unicast-address",
                format!("the client reported Configured({}/{}) at t={}us", dhcp::v4s(&addr), plen, now),
            );
            return;
        }
        if self.configured.is_none() {
            if acks.iter().any(|a| a.timer_zero) {
                // a unicast renewal attempted before the address is on the interface fails and silences the socket
                self.unclean = true;
            }
            self.configured_at = now;
            // a lease with T1 = 0 is renewed in the very poll that accepted the ACK
            self.phase_requests = self.renew_tx_this_poll;
            self.phase_frames_in = 0;
            self.phase_faithful = true;
        }
        if let Some(a) = matching.first() {
            self.phase_ack_desc = format!("{} delivered at t={}us, lease bound {}us", a.desc, now, a.bound_us);
        }
        self.configured = Some((addr, plen));
        self.phase_rebind_seen = false;
        // apply, as examples/dhcp_client.rs does
        let cidr = Ipv4Cidr::new(Ipv4Address::new(addr[0], addr[1], addr[2], addr[3]), plen);
        self.host.iface.update_ip_addrs(|a| {
            a.clear();
            let _ = a.push(IpCidr::Ipv4(cidr));
        });
        let sip = self.cfg.server_ip;
        let onlink = cidr.contains_addr(&Ipv4Address::new(sip[0], sip[1], sip[2], sip[3])) && sip != addr && dhcp::is_unicast(&sip);
        self.phase_server_onlink = onlink;
        self.phase_server_reachable = onlink
            || match self.cfg.router {
                Some(r) => dhcp::is_unicast(&r) && r != addr && cidr.contains_addr(&Ipv4Address::new(r[0], r[1], r[2], r[3])),
                None => false,
            };
        if !self.phase_server_reachable {
            self.unclean = true;
        } else if self.cfg.arp_prefill {
            let hop = if onlink { sip } else { self.cfg.router.unwrap_or(sip) };
            let req = eth::Arp { oper: eth::ARP_REQUEST, sha: SERVER_MAC, spa: hop, tha: [0; 6], tpa: addr };
            let fr = eth::build(&CLIENT_MAC, &SERVER_MAC, eth::ETHERTYPE_ARP, &eth::build_arp(&req));
            self.schedule(now, fr, format!("ARP request who-has {} tell {}", dhcp::v4s(&addr), dhcp::v4s(&hop)), true);
        }
        match self.cfg.router {
            Some(r) if dhcp::is_unicast(&r) => {
                let _ = self.host.iface.routes_mut().add_default_ipv4_route(Ipv4Address::new(r[0], r[1], r[2], r[3]));
            }
            _ => {
                self.host.iface.routes_mut().remove_default_ipv4_route();
            }
        }
    }

    fn observe_client_frame(&mut self, rng: &mut Rng, data: &[u8], e_before: Option<Micros>, configured_before: Option<([u8; 4], u8)>) {
        let now = self.now;
        let Ok(f) = eth::parse(data) else {
            self.stats.client_other_frames += 1;
            return;
        };
        if f.ethertype == eth::ETHERTYPE_ARP {
            self.stats.client_arps += 1;
            if let Ok(a) = eth::parse_arp(&f.payload) {
                self.log(format!("<- client: ARP op={} who-has {} tell {}", a.oper, dhcp::v4s(&a.tpa), dhcp::v4s(&a.spa)));
                if a.oper == eth::ARP_REQUEST {
                    if rng.below(1000) < self.cfg.arp_answer_pm as u64 {
                        let rep = eth::Arp { oper: eth::ARP_REPLY, sha: SERVER_MAC, spa: a.tpa, tha: a.sha, tpa: a.spa };
                        let fr = eth::build(&a.sha, &SERVER_MAC, eth::ETHERTYPE_ARP, &eth::build_arp(&rep));
                        let lat = self.cfg.arp_latency;
                        if lat > 0 {
                            self.arp_trouble_until = now + lat + NEIGHBOR_SILENCE_US;
                        }
                        self.schedule(now + lat, fr, format!("ARP reply {} is-at server", dhcp::v4s(&a.tpa)), true);
                    } else {
                        self.arp_trouble_until = now + NEIGHBOR_SILENCE_US;
                    }
                }
            }
            return;
        }
        if f.ethertype != eth::ETHERTYPE_IPV4 {
            self.stats.client_other_frames += 1;
            return;
        }
        let Ok(i) = ip::parse_v4(&f.payload, true) else {
            self.stats.client_other_frames += 1;
            return;
        };
        if i.proto != ip::PROTO_UDP {
            self.stats.client_other_frames += 1;
            return;
        }
        let Ok(u) = udp::parse(&i.src, &i.dst, &f.payload[i.payload_off..i.payload_off + i.payload_len]) else {
            self.stats.client_other_frames += 1;
            return;
        };
        if u.sport != dhcp::CLIENT_PORT || u.dport != dhcp::SERVER_PORT {
            self.stats.client_other_frames += 1;
            return;
        }
        let Ok(m) = dhcp::parse(&u.payload) else {
            self.stats.client_other_frames += 1;
            return;
        };
        let ty = m.msg_type().unwrap_or(0);
        let bcast = i.dst.is_limited_broadcast();
        // the lease is over: the DHCP client must not use the address any more
        if let (Some(e), Some((addr, _))) = (e_before, configured_before) {
            self.stats.evals += 1;
            if now >= e && (i.src == Addr::V4(addr) || m.ciaddr == addr) {
                self.violate(
                    "dhcp:lease:address-used-past-expiry",
                    format!("at t={}us (latest possible expiry E={}us) the client transmitted [{}] from/with the leased address {}: {}", now, e, m.describe(), dhcp::v4s(&addr), hex(data)),
                );
            }
        }
        self.log(format!("<- client: {} ip {}->{}", m.describe(), i.src, i.dst));
        if let Some(t) = &self.last_tx {
            if t.xid != m.xid && !self.old_xids.contains(&t.xid) {
                self.old_xids.push(t.xid);
                if self.old_xids.len() > 8 {
                    self.old_xids.remove(0);
                }
            }
        }
        self.last_tx = Some(ClientTx { xid: m.xid, mtype: ty, at: now });
        let renewing_form = ty == dhcp::REQUEST && m.ciaddr != [0, 0, 0, 0];
        if ty == dhcp::DISCOVER {
            self.stats.client_discovers += 1;
        } else if ty == dhcp::REQUEST && !renewing_form {
            self.stats.client_requests += 1;
        }
        if renewing_form {
            self.phase_requests += 1;
            self.renew_tx_this_poll += 1;
            self.stats.order_checks += 1;
            self.stats.evals += 1;
            if bcast {
                self.stats.client_rebinds += 1;
                self.phase_rebind_seen = true;
            } else {
                self.stats.client_renews += 1;
                if self.phase_rebind_seen {
                    self.violate(
                        "dhcp:renew:unicast-renewal-after-rebind",
                        format!("at t={}us the client sent a unicast renewing DHCPREQUEST to {} although it had already broadcast a rebinding DHCPREQUEST for the same lease (no valid ACK in between)", now, i.dst),
                    );
                }
            }
        } else if ty == dhcp::DISCOVER || ty == dhcp::REQUEST {
            // solicitation spacing while unconfigured
            if configured_before.is_none() {
                self.stats.spacing_checks += 1;
                self.stats.evals += 1;
                // the socket may be silenced for up to 1 s after a unicast renewal that could not be sent
                // (iface/socket_meta.rs); that silence carries over into the next discovery
                let slack = NEIGHBOR_SILENCE_US;
                let bound = self.spacing_bound().saturating_add(slack);
                let gap = now - self.last_solicit;
                if self.solicit_faithful && gap > bound {
                    self.violate(
                        "dhcp:solicit:gap-beyond-retry-bound",
                        format!(
                            "unconfigured client polled at every poll_at instant: {}us between consecutive solicitations (t={}us and t={}us), bound max(discover_timeout={}us, initial_request_timeout={}us << (({}-1)/2)) = {}us",
                            gap, self.last_solicit, now, self.cfg.discover_timeout, self.cfg.initial_request_timeout, self.cfg.request_retries, bound
                        ),
                    );
                }
            }
            self.last_solicit = now;
            self.solicit_faithful = true;
        }
        self.react(rng, &m);
    }
}

pub fn random_lease(rng: &mut Rng) -> LeaseParams {
    let lease = match rng.below(12) {
        0 => None,
        1 => Some(0),
        2 => Some(1),
        3 => Some(2),
        4 => Some(rng.range(3, 59) as u32),
        5 | 6 => Some(60),
        7 => Some(rng.range(61, 7200) as u32),
        8 => Some(86_400),
        9 => Some(0x7fff_ffff),
        10 => Some(0xffff_ffff),
        _ => Some(rng.range(1, 1_000_000) as u32),
    };
    let l = lease.unwrap_or(120);
    let timer = |rng: &mut Rng| -> Option<u32> {
        match rng.below(12) {
            0 | 1 | 2 => None,
            3 => Some(0),
            4 => Some(1),
            5 => Some(l / 2),
            6 => Some((l as u64 * 7 / 8) as u32),
            7 => Some(l),
            8 => Some(l.saturating_add(1)),
            9 => Some(60),
            10 => Some(0xffff_ffff),
            _ => Some(rng.range(0, l as u64) as u32),
        }
    };
    let mut t1 = timer(rng);
    let mut t2 = timer(rng);
    match rng.below(8) {
        0 => t2 = t1,                 // equal
        1 => std::mem::swap(&mut t1, &mut t2), // possibly inverted
        _ => {}
    }
    LeaseParams { lease, t1, t2 }
}
