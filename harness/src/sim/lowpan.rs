//! Two IEEE 802.15.4 / 6LoWPAN hosts A -> B.  The harness owns both devices, so
//! every frame A emits can be captured, judged, permuted and duplicated before B
//! sees it.  Frames B emits (neighbour advertisements, echo replies, TCP ACKs) are
//! handed to A in order.
use super::{inst, Host, Micros};
use crate::indep::ieee802154::LlAddr;
use smoltcp::iface::{Config, Interface, SocketSet};
use smoltcp::phy::{Device, DeviceCapabilities, Medium, RxToken, TxToken};
use smoltcp::time::Instant;
use std::collections::VecDeque;
use smoltcp::wire::{HardwareAddress, Ieee802154Pan, IpAddress, IpCidr, Ipv6Address, SixlowpanAddressContext};

pub const PAN: u16 = 0xbeef;

#[derive(Clone, Debug)]
pub struct NodeCfg {
    pub hw: LlAddr,
    pub addrs: Vec<[u8; 16]>,
    /// 64-bit address contexts (context id = index)
    pub ctx: Vec<[u8; 8]>,
    /// multicast groups to join
    pub groups: Vec<[u8; 16]>,
    pub mtu: usize,
    pub seed: u64,
}

pub fn v6(a: &[u8; 16]) -> Ipv6Address {
    Ipv6Address::from(*a)
}
pub fn ip(a: &[u8; 16]) -> IpAddress {
    IpAddress::Ipv6(v6(a))
}

// ---------------------------------------------------------------- the radio

/// An 802.15.4 radio owned by the harness.  Unlike `SimDevice` it can refuse
/// transmissions while still receiving (`tx_mute`: transmit queue full), which
/// is what a receive-only observer needs.
pub struct LpDevice {
    pub mtu: usize,
    pub rx: VecDeque<Vec<u8>>,
    pub tx: Vec<Vec<u8>>,
    /// `transmit()` hands out no token (frames in response to a reception are still possible)
    pub tx_mute: bool,
    /// fresh transmit buffers are filled with this octet
    pub prefill: u8,
}

pub struct LpRx(Vec<u8>);
pub struct LpTx<'a> {
    log: &'a mut Vec<Vec<u8>>,
    prefill: u8,
}

impl RxToken for LpRx {
    fn consume<R, F: FnOnce(&[u8]) -> R>(self, f: F) -> R {
        f(&self.0)
    }
}
impl<'a> TxToken for LpTx<'a> {
    fn consume<R, F: FnOnce(&mut [u8]) -> R>(self, len: usize, f: F) -> R {
        let mut buf = vec![self.prefill; len];
        let r = f(&mut buf);
        self.log.push(buf);
        r
    }
}

impl Device for LpDevice {
    type RxToken<'a> = LpRx;
    type TxToken<'a> = LpTx<'a>;
    fn receive(&mut self, _t: Instant) -> Option<(LpRx, LpTx<'_>)> {
        let f = self.rx.pop_front()?;
        Some((LpRx(f), LpTx { log: &mut self.tx, prefill: self.prefill }))
    }
    fn transmit(&mut self, _t: Instant) -> Option<LpTx<'_>> {
        if self.tx_mute {
            return None;
        }
        Some(LpTx { log: &mut self.tx, prefill: self.prefill })
    }
    fn capabilities(&self) -> DeviceCapabilities {
        let mut c = DeviceCapabilities::default();
        c.medium = Medium::Ieee802154;
        c.max_transmission_unit = self.mtu;
        c
    }
}

pub struct LpHost {
    pub iface: Interface,
    pub dev: LpDevice,
    pub sockets: SocketSet<'static>,
}

impl LpHost {
    /// Interface::poll at `now`; returns the frames transmitted during it.
    pub fn poll(&mut self, now: Micros) -> Vec<Vec<u8>> {
        self.iface.poll(inst(now), &mut self.dev, &mut self.sockets);
        std::mem::take(&mut self.dev.tx)
    }
    pub fn poll_at(&mut self, now: Micros) -> Option<Micros> {
        self.iface.poll_at(inst(now), &self.sockets).map(|i| i.total_micros())
    }
}

pub fn make_host(c: &NodeCfg, now: Micros) -> LpHost {
    let mut dev = LpDevice { mtu: c.mtu, rx: VecDeque::new(), tx: Vec::new(), tx_mute: false, prefill: 0xA5 };
    let mut cfg = Config::new(HardwareAddress::Ieee802154(c.hw.to_smol()));
    cfg.random_seed = c.seed;
    cfg.pan_id = Some(Ieee802154Pan(PAN));
    let mut iface = Interface::new(cfg, &mut dev, inst(now));
    iface.update_ip_addrs(|a| {
        for x in &c.addrs {
            let _ = a.push(IpCidr::new(ip(x), 64));
        }
    });
    let mut h = LpHost { iface, dev, sockets: SocketSet::new(Vec::new()) };
    for p in &c.ctx {
        let _ = h.iface.sixlowpan_address_context_mut().push(SixlowpanAddressContext(*p));
    }
    for g in &c.groups {
        let _ = h.iface.join_multicast_group(v6(g));
    }
    h
}

/// The same node on a raw-IP medium (no link layer at all): reference for what
/// the IPv6 datagram looks like before the adaptation layer.
pub fn make_ip_twin(c: &NodeCfg, now: Micros) -> Host {
    let cidrs: Vec<IpCidr> = c.addrs.iter().map(|a| IpCidr::new(ip(a), 64)).collect();
    Host::new(Medium::Ip, 2048, HardwareAddress::Ip, c.seed, &cidrs, now)
}

/// Poll `h` at `now` again and again while it keeps transmitting or says "poll now";
/// nothing is delivered to it meanwhile.  Returns every frame it emitted.
pub fn drain(h: &mut LpHost, now: Micros) -> Vec<Vec<u8>> {
    let mut out = Vec::new();
    for _ in 0..4000 {
        let tx = h.poll(now);
        let n = tx.len();
        out.extend(tx);
        let again = matches!(h.poll_at(now), Some(t) if t <= now);
        if n == 0 && !again {
            break;
        }
        if n == 0 && again {
            // asks to be polled but emits nothing: give it one more chance, then stop
            let tx = h.poll(now);
            if tx.is_empty() {
                break;
            }
            out.extend(tx);
        }
    }
    out
}

/// Same for the raw-IP twin.
pub fn drain_ip(h: &mut Host, now: Micros) -> Vec<Vec<u8>> {
    let mut out = Vec::new();
    for _ in 0..64 {
        let p = h.poll(now);
        if p.tx.is_empty() {
            break;
        }
        out.extend(p.tx.into_iter().map(|t| t.data));
    }
    out
}

pub struct Pair {
    pub a: LpHost,
    pub b: LpHost,
    pub now: Micros,
    /// every frame emitted so far, in emission order
    pub a_frames: Vec<Vec<u8>>,
    pub b_frames: Vec<Vec<u8>>,
}

impl Pair {
    pub fn new(ca: &NodeCfg, cb: &NodeCfg) -> Pair {
        Pair { a: make_host(ca, 0), b: make_host(cb, 0), now: 0, a_frames: Vec::new(), b_frames: Vec::new() }
    }

    /// One exchange round at the current instant: A's frames reach B in order, B's reach A.
    /// Returns the number of frames moved.
    pub fn round(&mut self) -> usize {
        let fa = drain(&mut self.a, self.now);
        for f in &fa {
            self.b.dev.rx.push_back(f.clone());
        }
        let fb = drain(&mut self.b, self.now);
        for f in &fb {
            self.a.dev.rx.push_back(f.clone());
        }
        let n = fa.len() + fb.len();
        self.a_frames.extend(fa);
        self.b_frames.extend(fb);
        n
    }

    /// Run in-order exchange until nothing moves and no timer is due before `until`.
    /// `step` is called after every round (application work: read sockets, write more).
    pub fn run(&mut self, until: Micros, mut step: impl FnMut(&mut Pair) -> bool) {
        let mut idle_rounds = 0;
        for _ in 0..20_000 {
            let moved = self.round();
            let acted = step(self);
            if moved > 0 || acted || !self.a.dev.rx.is_empty() || !self.b.dev.rx.is_empty() {
                idle_rounds = 0;
                continue;
            }
            idle_rounds += 1;
            let ta = self.a.poll_at(self.now);
            let tb = self.b.poll_at(self.now);
            let t = match (ta, tb) {
                (Some(x), Some(y)) => Some(x.min(y)),
                (x, None) => x,
                (None, y) => y,
            };
            match t {
                Some(t) if t <= until => {
                    if t > self.now {
                        self.now = t;
                        idle_rounds = 0;
                    } else if idle_rounds > 3 {
                        // "poll now" without effect: step the clock a little
                        self.now += 1_000;
                    }
                }
                _ => break,
            }
            if self.now > until {
                break;
            }
        }
    }
}

/// Deliver frames to a host in the given order, polling after each one (so that
/// every frame is processed on its own, like separate radio receptions).
pub fn deliver_each(h: &mut LpHost, frames: &[&Vec<u8>], now: Micros) -> Vec<Vec<u8>> {
    let mut out = Vec::new();
    for f in frames {
        h.dev.rx.push_back((*f).clone());
        out.extend(h.poll(now));
    }
    out.extend(drain(h, now));
    out
}

// ---------------------------------------------------------------- arrival orders

/// All permutations of 0..k (k <= 4 in practice) in lexicographic order.
pub fn permutations(k: usize) -> Vec<Vec<usize>> {
    fn rec(cur: &mut Vec<usize>, used: &mut Vec<bool>, k: usize, out: &mut Vec<Vec<usize>>) {
        if cur.len() == k {
            out.push(cur.clone());
            return;
        }
        for i in 0..k {
            if !used[i] {
                used[i] = true;
                cur.push(i);
                rec(cur, used, k, out);
                cur.pop();
                used[i] = false;
            }
        }
    }
    let mut out = Vec::new();
    rec(&mut Vec::new(), &mut vec![false; k], k, &mut out);
    out
}

/// Every order over k fragments with at most one duplicated fragment:
/// all k! permutations, plus each permutation with one extra copy of fragment i
/// inserted at position j (duplicates of equal sequences removed).
pub fn orders_with_one_dup(k: usize) -> Vec<Vec<usize>> {
    let mut v = permutations(k);
    let base = v.clone();
    for p in &base {
        for i in 0..k {
            for j in 0..=k {
                let mut q = p.clone();
                q.insert(j, i);
                v.push(q);
            }
        }
    }
    v.sort();
    v.dedup();
    v
}

/// What an ideal reassembler with a bounded range tracker must do with an arrival
/// order.  Fragment i covers [ranges[i].0, ranges[i].1) of the uncompressed datagram.
#[derive(Clone, Debug, PartialEq)]
pub struct TrackVerdict {
    /// no arrival ever needed more than `max_ranges` disjoint ranges
    pub trackable: bool,
    /// arrival index after which the datagram is complete for the first time
    pub complete_after: Option<usize>,
    /// largest number of disjoint ranges needed
    pub max_open: usize,
}

pub fn track(order: &[usize], ranges: &[(usize, usize)], total: usize, max_ranges: usize) -> TrackVerdict {
    let mut have = vec![false; total];
    let mut trackable = true;
    let mut complete_after = None;
    let mut max_open = 0;
    for (n, &i) in order.iter().enumerate() {
        let (s, e) = ranges[i];
        for x in s..e.min(total) {
            have[x] = true;
        }
        let mut runs = 0;
        let mut prev = false;
        for x in 0..total {
            if have[x] && !prev {
                runs += 1;
            }
            prev = have[x];
        }
        max_open = max_open.max(runs);
        if runs > max_ranges {
            trackable = false;
        }
        if complete_after.is_none() && have.iter().all(|b| *b) {
            complete_after = Some(n);
            break;
        }
    }
    TrackVerdict { trackable, complete_after, max_open }
}
