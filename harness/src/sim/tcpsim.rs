//! Two real smoltcp endpoints joined by a faulty link, driven strictly by
//! `poll_at` and frame arrivals.  One run feeds the oracles of C01 (stream
//! integrity), C02 (progress), C05 (sender discipline, via `SenderMon`) and
//! C13 (poll_at schedule); every violation is tagged with its property.
use super::*;
use crate::indep::{self, ip, tcp as itcp, Addr};
use crate::mon::tcp_sender::SenderMon;
use crate::util::json::Json;
use crate::util::rng::{stream_byte, Rng};
use crate::util::run::Violation;
use smoltcp::iface::SocketHandle;
use smoltcp::socket::{tcp, udp};
use smoltcp::time::Duration;
use smoltcp::wire::{IpAddress, IpCidr, IpEndpoint, Ipv4Address, Ipv6Address};
use std::cell::Cell;
use std::collections::BinaryHeap;

thread_local! {
    static VNOW: Cell<i64> = const { Cell::new(0) };
}
fn tsgen() -> u32 {
    (VNOW.with(|v| v.get()) / 1000) as u32
}

#[derive(Clone, Debug)]
pub struct EpCfg {
    pub rx_buf: usize,
    pub tx_buf: usize,
    pub cc: u8, // 0 none 1 reno 2 cubic
    pub nagle: bool,
    pub ack_delay_ms: Option<u64>,
    pub timestamps: bool,
    pub seed: u64,
    /// bytes the application wants to send
    pub total: u64,
    pub max_chunk: usize,
    pub max_read: usize,
    /// application think time upper bound (us)
    pub think: Micros,
    /// reader pauses (start, end) in virtual time – only inside the hostile phase
    pub read_pauses: Vec<(Micros, Micros)>,
    /// delay between the last write and close()
    pub close_delay: Micros,
    pub use_recv_closure: bool,
    /// TCP keep-alive interval, if enabled
    pub keep_alive_ms: Option<u64>,
}

#[derive(Clone, Debug)]
pub struct SimCfg {
    pub v6: bool,
    pub ethernet: bool,
    pub mtu: usize,
    pub ep: [EpCfg; 2],
    pub fault: [FaultProfile; 2], // fault[i]: frames sent by endpoint i
    pub hostile_until: Micros,
    pub reliable_latency: Micros,
    pub early_polls: bool,
    /// per-mille chance of an early probe poll after a regular poll
    pub probe_pm: u32,
    pub max_events: u64,
    /// the applications abort both sockets at this instant (the run ends there; the sockets are
    /// then reused for another connection)
    pub abort_at: Option<Micros>,
}

pub struct TaggedViolation {
    pub prop: &'static str,
    pub v: Violation,
}

#[derive(Default, Clone, Debug)]
pub struct SimStats {
    pub polls: u64,
    pub frames_sent: u64,
    pub frames_delivered: u64,
    pub dropped: u64,
    pub duplicated: u64,
    pub corrupted: u64,
    pub bytes_delivered: u64,
    pub recv_calls: u64,
    pub retransmissions: u64,
    pub ooo_arrivals: u64,
    pub zero_window_acks: u64,
    pub fins_seen: u64,
    pub finished_seen: u64,
    pub wrap31: u64,
    pub wrap32: u64,
    pub inv_checks: u64,
    pub inv_oblig: [u64; 4], // data, syn, fin, zero-window(approx)
    pub n_checks: u64,
    pub s_probes: u64,
    pub completed: bool,
    pub completion_time: Micros,
    pub aborted: bool,
    pub events: u64,
    pub rst_seen: u64,
    pub storm: bool,
    pub aborted_by_plan: bool,
    pub keep_alive_toggles: u64,
}


struct Ev {
    at: Micros,
    seq: u64,
    to: usize,
    frame: Vec<u8>,
}
impl PartialEq for Ev {
    fn eq(&self, o: &Ev) -> bool {
        self.at == o.at && self.seq == o.seq
    }
}
impl Eq for Ev {}
impl PartialOrd for Ev {
    fn partial_cmp(&self, o: &Ev) -> Option<std::cmp::Ordering> {
        Some(self.cmp(o))
    }
}
impl Ord for Ev {
    fn cmp(&self, o: &Ev) -> std::cmp::Ordering {
        // min-heap
        (o.at, o.seq).cmp(&(self.at, self.seq))
    }
}

struct App {
    written: u64,
    delivered: u64, // bytes this endpoint's application received
    close_called: bool,
    close_at: Option<Micros>,
    next_at: Micros,
    finished: bool, // saw Err(Finished)
    idle_backoff: Micros,
}

pub struct TcpSim {
    pub cfg: SimCfg,
    hosts: [Host; 2],
    handles: [SocketHandle; 2],
    apps: [App; 2],
    wake: [Option<Micros>; 2],
    queue: BinaryHeap<Ev>,
    evseq: u64,
    now: Micros,
    pub stats: SimStats,
    pub violations: Vec<TaggedViolation>,
    pub trace: Vec<String>,
    pub trace_on: bool,
    pub smon: [SenderMon; 2],
    addrs: [Addr; 2],
    // per direction bookkeeping for statistics
    max_seq_end: [Option<u32>; 2],
    rcv_contig: [Option<u32>; 2],
    iss: [Option<u32>; 2],
    last_no_progress_at: [Micros; 2],
    progress_sig: (u64, u64, u64, u64, u8, u8),
    progress_at: Micros,
    fatal: bool,
    no_progress_count: [u32; 2],
}

/// IGMP message, or ICMPv6 MLD report/done (types 131, 132, 143)
pub fn is_group_report(ip_packet: &[u8]) -> bool {
    match ip::parse(ip_packet, false) {
        Ok(info) => {
            if info.proto == ip::PROTO_IGMP {
                return true;
            }
            if info.proto == ip::PROTO_ICMPV6 && info.payload_len >= 1 {
                let t = ip_packet[info.payload_off];
                return t == 131 || t == 132 || t == 143;
            }
            false
        }
        Err(_) => false,
    }
}

fn hexhead(b: &[u8]) -> String {
    let mut s = format!("len={} ", b.len());
    for x in b.iter().take(48) {
        s.push_str(&format!("{:02x}", x));
    }
    s
}

/// ISN produced by an interface created with `random_seed = seed` (measured by really
/// creating the interface, connecting a socket and reading the SYN off the device).
fn isn_for_seed(seed: u64) -> Option<u32> {
    let a0 = IpAddress::Ipv4(Ipv4Address::new(10, 0, 0, 1));
    let a1 = IpAddress::Ipv4(Ipv4Address::new(10, 0, 0, 2));
    let mut h = Host::new(Medium::Ip, 1500, HardwareAddress::Ip, seed, &[IpCidr::new(a0, 24)], 0);
    let s = tcp::Socket::new(tcp::SocketBuffer::new(vec![0u8; 64]), tcp::SocketBuffer::new(vec![0u8; 64]));
    let hd = h.sockets.add(s);
    {
        let cx = h.iface.context();
        h.sockets.get_mut::<tcp::Socket>(hd).connect(cx, IpEndpoint::new(a1, 80), 49152).ok()?;
    }
    let out = h.poll(0);
    let f = out.tx.first()?;
    let info = ip::parse(&f.data, false).ok()?;
    let seg = itcp::parse(&info.src, &info.dst, &f.data[info.payload_off..info.payload_off + info.payload_len]).ok()?;
    Some(seg.seq)
}

/// Distances (bytes until the sequence number wraps to 0 / crosses 2^31) for one seed, measured.
pub fn wrap_distance(seed: u64) -> Option<(u32, bool)> {
    let isn = isn_for_seed(seed)?;
    let first = isn.wrapping_add(1);
    let d32 = 0u32.wrapping_sub(first);
    let d31 = 0x8000_0000u32.wrapping_sub(first);
    if d32 <= d31 { Some((d32, true)) } else { Some((d31, false)) }
}

/// Scan `count` seeds starting at `from` and return those whose ISN lies less than `max_dist`
/// before a boundary (used by `vmon gen-wrap-seeds` to regenerate sim/wrap_seeds.rs).
pub fn scan_wrap_seeds(from: u64, count: u64, max_dist: u32) -> Vec<(u64, u32, bool)> {
    let threads = std::thread::available_parallelism().map(|n| n.get()).unwrap_or(4) as u64;
    let per = count / threads + 1;
    let mut all = Vec::new();
    std::thread::scope(|sc| {
        let mut hs = Vec::new();
        for t in 0..threads {
            hs.push(sc.spawn(move || {
                let mut v = Vec::new();
                for k in 0..per {
                    let seed = from + t * per + k;
                    if let Some((d, is32)) = wrap_distance(seed) {
                        if d < max_dist {
                            v.push((seed, d, is32));
                        }
                    }
                }
                v
            }));
        }
        for h in hs {
            all.extend(h.join().unwrap_or_default());
        }
    });
    all.sort();
    all
}

fn tags(case_tag: u64) -> [u64; 2] {
    [case_tag ^ 0x1111_1111, case_tag ^ 0x2222_2222_2222]
}

pub fn random_cfg(rng: &mut Rng, thorough: bool) -> SimCfg {
    let v6 = rng.chance(1, 3);
    let ethernet = rng.chance(1, 4);
    let min_mtu = if v6 { 1280 } else { 68 };
    let mtu_ip = match rng.below(5) {
        0 => min_mtu,
        1 => 1500,
        2 => rng.urange(min_mtu, (min_mtu + 200).min(1500)),
        3 => 576.max(min_mtu),
        _ => rng.urange(min_mtu, 1500),
    };
    let mtu = if ethernet { mtu_ip + 14 } else { mtu_ip };
    let big = if thorough { 512 * 1024 } else { 96 * 1024 };
    let mut mk = |rng: &mut Rng| {
        let buf = |rng: &mut Rng| match rng.below(8) {
            0 => 1,
            1 => rng.urange(2, 64),
            2 => rng.urange(64, 600),
            3 => 1460,
            4 => rng.urange(600, 4096),
            5 => 65535,
            6 => rng.urange(65536, 262144),
            _ => rng.urange(1000, 20000),
        };
        let total = match rng.below(8) {
            0 => 0,
            1 => rng.range(1, 10),
            2 => rng.range(10, 2000),
            3 | 4 => rng.range(1000, 40_000),
            5 => rng.range(10_000, big as u64),
            _ => rng.range(100, 20_000),
        };
        EpCfg {
            rx_buf: buf(rng),
            tx_buf: buf(rng),
            cc: rng.below(3) as u8,
            nagle: rng.bool(),
            ack_delay_ms: *rng.pick(&[None, Some(10), Some(10), Some(200)]),
            timestamps: rng.chance(1, 3),
            seed: rng.next_u64(),
            total,
            max_chunk: *rng.pick(&[1usize, 7, 100, 1000, 5000, 70000]),
            max_read: *rng.pick(&[1usize, 13, 100, 1500, 9000, 70000]),
            think: *rng.pick(&[0i64, 100, 5_000, 50_000, 500_000]),
            read_pauses: Vec::new(),
            close_delay: *rng.pick(&[0i64, 0, 1_000, 200_000, 3_000_000]),
            use_recv_closure: rng.bool(),
            keep_alive_ms: *rng.pick(&[None, None, None, None, Some(500u64), Some(5_000), Some(75_000)]),
        }
    };
    let mut ep = [mk(rng), mk(rng)];
    // keep the run affordable: tiny buffers and huge transfers do not mix
    for e in ep.iter_mut() {
        let lim = (e.tx_buf.min(ep_peer_rx_hint(e)) as u64).saturating_mul(400).max(2000);
        if e.total > lim {
            e.total = lim;
        }
    }
    let lim0 = (ep[1].rx_buf as u64).saturating_mul(300).max(2000);
    let lim1 = (ep[0].rx_buf as u64).saturating_mul(300).max(2000);
    ep[0].total = ep[0].total.min(lim0);
    ep[1].total = ep[1].total.min(lim1);
    // ---- initial sequence numbers shortly before 2^31 / 2^32, so that the transfer crosses them.
    // The committed table (sim/wrap_seeds.rs) lists seeds whose ISN is close to a boundary; every
    // entry is re-measured on the tree under test before it is used.
    if rng.chance(1, 3) {
        let table = super::wrap_seeds::WRAP_SEEDS;
        for i in 0..2 {
            if table.is_empty() || !rng.chance(2, 3) {
                continue;
            }
            let lim = ((ep[i].tx_buf.min(ep[1 - i].rx_buf)) as u64).saturating_mul(300).max(2000);
            let cands: Vec<&(u64, u32)> = table.iter().filter(|(_, d)| (*d as u64) + 64 <= lim).collect();
            if cands.is_empty() {
                continue;
            }
            let (seed, _) = **rng.pick(&cands);
            let Some((dist, _)) = wrap_distance(seed) else { continue };
            if dist as u64 + 64 > lim {
                continue; // table stale for this tree: skip, the evidence counters will show it
            }
            if ep[i].total <= dist as u64 + 64 {
                ep[i].total = (dist as u64 + 64 + rng.range(0, 2000)).min(lim.max(dist as u64 + 64));
            }
            ep[i].seed = seed;
        }
    }
    let hostile_until = match rng.below(6) {
        0 => 0,
        1 => rng.range(1_000, 200_000) as Micros,
        2 => rng.range(200_000, 3_000_000) as Micros,
        3 => rng.range(3_000_000, 20_000_000) as Micros,
        _ => rng.range(1_000_000, 60_000_000) as Micros,
    };
    // reader pauses inside the hostile phase (zero-window episodes)
    for e in ep.iter_mut() {
        if hostile_until > 10_000 && rng.chance(1, 2) {
            let n = rng.urange(1, 3);
            for _ in 0..n {
                let a = rng.range(0, hostile_until as u64 - 1) as Micros;
                let b = rng.range(a as u64, hostile_until as u64) as Micros;
                e.read_pauses.push((a, b));
            }
        }
    }
    let fault = [FaultProfile::random(rng), FaultProfile::random(rng)];
    SimCfg {
        v6,
        ethernet,
        mtu,
        ep,
        fault,
        hostile_until,
        reliable_latency: *rng.pick(&[100i64, 2_000, 30_000, 150_000]),
        early_polls: rng.bool(),
        probe_pm: *rng.pick(&[0u32, 50, 200, 500]),
        max_events: 400_000,
        abort_at: if rng.chance(1, 10) { Some(rng.range(1_000, (hostile_until.max(2_000_000)) as u64) as Micros) } else { None },
    }
}

fn ep_peer_rx_hint(e: &EpCfg) -> usize {
    e.tx_buf
}

impl TcpSim {
    pub fn new(cfg: SimCfg, case_tag: u64) -> TcpSim {
        let medium = if cfg.ethernet { Medium::Ethernet } else { Medium::Ip };
        let (a0, a1): (IpAddress, IpAddress) = if cfg.v6 {
            (
                IpAddress::Ipv6(Ipv6Address::new(0xfd00, 0, 0, 0, 0, 0, 0, 1)),
                IpAddress::Ipv6(Ipv6Address::new(0xfd00, 0, 0, 0, 0, 0, 0, 2)),
            )
        } else {
            (
                IpAddress::Ipv4(Ipv4Address::new(10, 0, 0, 1)),
                IpAddress::Ipv4(Ipv4Address::new(10, 0, 0, 2)),
            )
        };
        let plen = if cfg.v6 { 64 } else { 24 };
        let mk = |i: usize, a: IpAddress| {
            let hw = if cfg.ethernet {
                eth_hw(i as u8 + 1)
            } else {
                HardwareAddress::Ip
            };
            Host::new(medium, cfg.mtu, hw, cfg.ep[i].seed, &[IpCidr::new(a, plen)], 0)
        };
        let mut hosts = [mk(0, a0), mk(1, a1)];
        let mut handles = Vec::new();
        for i in 0..2 {
            let e = &cfg.ep[i];
            let mut s = tcp::Socket::new(
                tcp::SocketBuffer::new(vec![0u8; e.rx_buf]),
                tcp::SocketBuffer::new(vec![0u8; e.tx_buf]),
            );
            s.set_congestion_control(match e.cc {
                0 => tcp::CongestionControl::None,
                1 => tcp::CongestionControl::Reno,
                _ => tcp::CongestionControl::Cubic,
            });
            s.set_nagle_enabled(e.nagle);
            s.set_ack_delay(e.ack_delay_ms.map(Duration::from_millis));
            if e.timestamps {
                s.set_tsval_generator(Some(tsgen));
            }
            s.set_keep_alive(e.keep_alive_ms.map(Duration::from_millis));
            // in half of the cases the socket set has a hole in front of the TCP socket (a socket
            // that was added earlier and removed again)
            let hole = if e.seed & 4 != 0 {
                let mk = || udp::PacketBuffer::new(vec![udp::PacketMetadata::EMPTY; 1], vec![0u8; 16]);
                Some(hosts[i].sockets.add(udp::Socket::new(mk(), mk())))
            } else {
                None
            };
            handles.push(hosts[i].sockets.add(s));
            if let Some(hd) = hole {
                let _ = hosts[i].sockets.remove(hd);
            }
        }
        let handles = [handles[0], handles[1]];
        // endpoint 1 listens, endpoint 0 connects
        hosts[1]
            .sockets
            .get_mut::<tcp::Socket>(handles[1])
            .listen(80)
            .expect("listen");
        {
            let h = &mut hosts[0];
            let cx = h.iface.context();
            h.sockets
                .get_mut::<tcp::Socket>(handles[0])
                .connect(cx, IpEndpoint::new(a1, 80), 49152)
                .expect("connect");
        }
        let t = tags(case_tag);
        let addrs = [Addr::from_smol(a0), Addr::from_smol(a1)];
        let app = |i: usize| App {
            written: 0,
            delivered: 0,
            close_called: false,
            close_at: None,
            next_at: 0,
            finished: false,
            idle_backoff: 1000 + i as i64,
        };
        TcpSim {
            smon: [
                SenderMon::new(t[0], addrs[0], addrs[1], 49152, 80, cfg.mtu - if cfg.ethernet { 14 } else { 0 }, cfg.ep[0].rx_buf),
                SenderMon::new(t[1], addrs[1], addrs[0], 80, 49152, cfg.mtu - if cfg.ethernet { 14 } else { 0 }, cfg.ep[1].rx_buf),
            ],
            cfg,
            hosts,
            handles,
            apps: [app(0), app(1)],
            wake: [Some(0), Some(0)],
            queue: BinaryHeap::new(),
            evseq: 0,
            now: 0,
            stats: SimStats::default(),
            violations: Vec::new(),
            trace: Vec::new(),
            trace_on: false,
            addrs,
            max_seq_end: [None, None],
            rcv_contig: [None, None],
            iss: [None, None],
            last_no_progress_at: [-1, -1],
            progress_sig: (0, 0, 0, 0, 255, 255),
            progress_at: 0,
            fatal: false,
            no_progress_count: [0, 0],
        }
    }

    /// Second connection on the *same* two sockets (socket reuse): after a completed run TIME-WAIT
    /// is left to expire over a plain reliable wire, then both sockets are reconfigured and opened
    /// again with a new stream, new faults and new per-connection oracle state.  Virtual time and
    /// the interfaces (neighbor caches, ISN generators) continue.  Returns false if the sockets
    /// did not both reach CLOSED (then nothing was changed that matters and the case ends).
    pub fn reincarnate(&mut self, rng: &mut Rng, case_tag: u64, thorough: bool, incarnation: u16) -> bool {
        if !self.stats.completed || self.fatal || !self.violations.is_empty() {
            return false;
        }
        self.queue.clear();
        let mut closed = false;
        for _ in 0..80 {
            self.now += 500_000;
            for _round in 0..20 {
                let mut moved = false;
                for i in 0..2 {
                    let out = self.hosts[i].poll(self.now);
                    for f in out.tx {
                        self.hosts[1 - i].dev.rx.push_back(f.data);
                        moved = true;
                    }
                }
                if !moved {
                    break;
                }
            }
            if self.sock(0).state() == tcp::State::Closed && self.sock(1).state() == tcp::State::Closed {
                closed = true;
                break;
            }
        }
        if !closed {
            return false;
        }
        let base = self.now + 1_000;
        let old = self.cfg.clone();
        let mut c2 = random_cfg(rng, thorough);
        c2.v6 = old.v6;
        c2.ethernet = old.ethernet;
        c2.mtu = old.mtu;
        for i in 0..2 {
            c2.ep[i].rx_buf = old.ep[i].rx_buf;
            c2.ep[i].tx_buf = old.ep[i].tx_buf;
            c2.ep[i].seed = old.ep[i].seed;
        }
        for i in 0..2 {
            let lim = ((c2.ep[i].tx_buf.min(c2.ep[1 - i].rx_buf)) as u64).saturating_mul(300).max(2000);
            c2.ep[i].total = c2.ep[i].total.min(lim);
        }
        if c2.hostile_until > 0 {
            c2.hostile_until += base;
        }
        c2.abort_at = c2.abort_at.map(|a| a + base);
        self.stats.aborted_by_plan = false;
        for e in c2.ep.iter_mut() {
            for p in e.read_pauses.iter_mut() {
                p.0 += base;
                p.1 += base;
            }
        }
        for i in 0..2 {
            let e = c2.ep[i].clone();
            let s = self.sock(i);
            s.set_congestion_control(match e.cc {
                0 => tcp::CongestionControl::None,
                1 => tcp::CongestionControl::Reno,
                _ => tcp::CongestionControl::Cubic,
            });
            s.set_nagle_enabled(e.nagle);
            s.set_ack_delay(e.ack_delay_ms.map(Duration::from_millis));
            s.set_tsval_generator(if e.timestamps { Some(tsgen) } else { None });
            s.set_keep_alive(e.keep_alive_ms.map(Duration::from_millis));
        }
        let lport = 49152 + incarnation;
        if self.sock(1).listen(80).is_err() {
            return false;
        }
        {
            let a1 = self.addrs[1].to_smol();
            let h = &mut self.hosts[0];
            let cx = h.iface.context();
            if h.sockets.get_mut::<tcp::Socket>(self.handles[0]).connect(cx, IpEndpoint::new(a1, 80), lport).is_err() {
                return false;
            }
        }
        let t = tags(case_tag);
        let ip_mtu = c2.mtu - if c2.ethernet { 14 } else { 0 };
        self.smon = [
            SenderMon::new(t[0], self.addrs[0], self.addrs[1], lport, 80, ip_mtu, c2.ep[0].rx_buf),
            SenderMon::new(t[1], self.addrs[1], self.addrs[0], 80, lport, ip_mtu, c2.ep[1].rx_buf),
        ];
        for i in 0..2 {
            self.apps[i] = App { written: 0, delivered: 0, close_called: false, close_at: None, next_at: base, finished: false, idle_backoff: 1000 + i as i64 };
        }
        self.now = base;
        self.wake = [Some(base), Some(base)];
        self.max_seq_end = [None, None];
        self.rcv_contig = [None, None];
        self.iss = [None, None];
        self.last_no_progress_at = [-1, -1];
        self.progress_sig = (0, 0, 0, 0, 255, 255);
        self.progress_at = base;
        self.no_progress_count = [0, 0];
        self.stats.completed = false;
        self.stats.events = 0;
        self.cfg = c2;
        true
    }

    fn tag(&self, i: usize) -> u64 {
        self.smon[i].tag
    }

    fn sock(&mut self, i: usize) -> &mut tcp::Socket<'static> {
        self.hosts[i].sockets.get_mut::<tcp::Socket>(self.handles[i])
    }

    fn tr(&mut self, s: String) {
        if self.trace_on {
            println!("{:>12.6} {}", self.now as f64 / 1e6, s);
        }
        if self.trace_on || self.trace.len() < 400 {
            if self.trace.len() >= 4000 {
                self.trace.remove(0);
            }
            self.trace.push(format!("{:>12.6} {}", self.now as f64 / 1e6, s));
        }
    }

    fn violate(&mut self, prop: &'static str, sig: String, desc: String) {
        if self.violations.iter().any(|t| t.prop == prop && t.v.sig == sig) {
            return;
        }
        let tail: Vec<Json> = self.trace.iter().rev().take(60).rev().map(|s| Json::s(s.clone())).collect();
        if self.trace_on {
            println!("{:>12.6} !!! VIOLATION {} [{}] {}", self.now as f64 / 1e6, prop, sig, desc);
            // diagnostic only: the sockets' own view (Debug rendering), never used for a verdict
            for i in 0..2 {
                let d = format!("{:?}", self.hosts[i].sockets.get::<tcp::Socket>(self.handles[i]));
                let keep: Vec<&str> = d.split(", ").filter(|f| !f.contains("storage") && f.len() < 200).collect();
                println!("             ep{} socket: {}", i, keep.join(", "));
            }
        }
        let v = Violation::new(sig, format!("t={:.6}s: {}", self.now as f64 / 1e6, desc)).with(
            Json::obj()
                .set("config", Json::s(format!("{:?}", self.cfg)))
                .set("trace_tail", Json::Arr(tail)),
        );
        self.violations.push(TaggedViolation { prop, v });
    }

    fn in_hostile(&self) -> bool {
        self.now < self.cfg.hostile_until
    }

    fn ip_of<'a>(&self, frame: &'a [u8]) -> Option<&'a [u8]> {
        if self.cfg.ethernet {
            if frame.len() < 14 {
                return None;
            }
            let et = indep::be16(frame, 12);
            if et == 0x0800 || et == 0x86dd {
                Some(&frame[14..])
            } else {
                None
            }
        } else {
            Some(frame)
        }
    }

    fn parse_tcp(&self, frame: &[u8]) -> Option<(ip::IpInfo, itcp::Seg)> {
        let p = self.ip_of(frame)?;
        let info = ip::parse(p, false).ok()?;
        if info.proto != ip::PROTO_TCP || info.frag_offset != 0 || info.more_frags {
            return None;
        }
        let seg = itcp::parse(&info.src, &info.dst, &p[info.payload_off..info.payload_off + info.payload_len]).ok()?;
        Some((info, seg))
    }

    /// frames emitted by endpoint `i`: statistics, sender monitor, then the link
    fn emit(&mut self, i: usize, recs: Vec<TxRec>, rng: &mut Rng) {
        for r in recs {
            self.stats.frames_sent += 1;
            if self.parse_tcp(&r.data).is_none() && (self.trace_on || self.trace.len() < 400) {
                self.tr(format!("ep{} tx  non-TCP frame {}", i, hexhead(&r.data)));
            }
            if let Some((_info, seg)) = self.parse_tcp(&r.data) {
                if self.trace_on || self.trace.len() < 400 {
                    self.tr(format!(
                        "ep{} tx  {} seq={} ack={} wnd={} len={}{}",
                        i,
                        seg.flag_str(),
                        seg.seq,
                        seg.ack,
                        seg.wnd,
                        seg.payload.len(),
                        if seg.mss.is_some() { " +mss" } else { "" }
                    ));
                }
                if seg.is(itcp::SYN) && self.iss[i].is_none() {
                    self.iss[i] = Some(seg.seq);
                }
                if seg.is(itcp::RST) {
                    self.stats.rst_seen += 1;
                }
                if seg.is(itcp::ACK) && seg.wnd == 0 && !seg.is(itcp::RST) {
                    self.stats.zero_window_acks += 1;
                }
                if seg.is(itcp::FIN) {
                    self.stats.fins_seen += 1;
                }
                let end = seg.seq.wrapping_add(seg.seg_len());
                if seg.seg_len() > 0 {
                    match self.max_seq_end[i] {
                        Some(m) if itcp::seq_le(end, m) => self.stats.retransmissions += 1,
                        Some(m) => {
                            // crossing of the 2^31 / 2^32 boundaries by new sequence space
                            if m > end {
                                self.stats.wrap32 += 1;
                            }
                            if (m as i32) > 0 && (end as i32) < 0 {
                                self.stats.wrap31 += 1;
                            }
                            self.max_seq_end[i] = Some(end);
                        }
                        None => self.max_seq_end[i] = Some(end),
                    }
                }
            }
            // sender monitor (C05) sees every emitted frame
            let ipb: Option<Vec<u8>> = self.ip_of(&r.data).map(|b| b.to_vec());
            if let Some(ipb) = ipb {
                let now = self.now;
                let viol = self.smon[i].on_emitted(now, &ipb);
                for (sig, desc) in viol {
                    self.violate("C05", sig, desc);
                }
            }
            // link
            let hostile = self.in_hostile();
            let fates = if hostile {
                self.cfg.fault[i].decide(rng)
            } else {
                vec![(self.cfg.reliable_latency, false)]
            };
            if fates.is_empty() {
                self.stats.dropped += 1;
            }
            if fates.len() > 1 {
                self.stats.duplicated += fates.len() as u64 - 1;
            }
            for (d, corrupt) in fates {
                let mut f = r.data.clone();
                if corrupt {
                    corrupt_one_byte(rng, &mut f);
                    self.stats.corrupted += 1;
                }
                // the reliable phase is FIFO: never overtake frames queued earlier
                let at = self.now + d.max(1);
                self.evseq += 1;
                self.queue.push(Ev {
                    at,
                    seq: self.evseq,
                    to: 1 - i,
                    frame: f,
                });
            }
        }
    }

    fn deliver(&mut self, to: usize, frame: Vec<u8>) {
        self.stats.frames_delivered += 1;
        if self.parse_tcp(&frame).is_none() && (self.trace_on || self.trace.len() < 400) {
            self.tr(format!("ep{} rx  non-TCP frame {}", to, hexhead(&frame)));
        }
        if let Some((_info, seg)) = self.parse_tcp(&frame) {
            if seg.checksum_ok {
                if !seg.payload.is_empty() {
                    let c = self.rcv_contig[to];
                    match c {
                        Some(c) if seg.seq != c && itcp::seq_lt(c, seg.seq) => self.stats.ooo_arrivals += 1,
                        _ => {}
                    }
                }
                // track in-order point roughly (for statistics only)
                let end = seg.seq.wrapping_add(seg.seg_len());
                match self.rcv_contig[to] {
                    None if seg.is(itcp::SYN) => self.rcv_contig[to] = Some(end),
                    Some(c) if itcp::seq_le(seg.seq, c) && itcp::seq_lt(c, end) => self.rcv_contig[to] = Some(end),
                    _ => {}
                }
            }
            if self.trace_on || self.trace.len() < 400 {
                self.tr(format!(
                    "ep{} rx  {} seq={} ack={} wnd={} len={}{}",
                    to,
                    seg.flag_str(),
                    seg.seq,
                    seg.ack,
                    seg.wnd,
                    seg.payload.len(),
                    if seg.checksum_ok { "" } else { " BADSUM" }
                ));
            }
        }
        let ipb: Option<Vec<u8>> = self.ip_of(&frame).map(|b| b.to_vec());
        if let Some(ipb) = ipb {
            self.smon[to].on_delivered(&ipb);
        }
        self.hosts[to].dev.rx.push_back(frame);
    }

    /// application step for endpoint i; returns true if it called into the socket with effect
    fn app_step(&mut self, i: usize, rng: &mut Rng) {
        let now = self.now;
        let hostile = self.in_hostile();
        // a paused reader resumes as soon as the peer's FIN has arrived: TIME-WAIT expiry
        // resets the socket and would discard whatever the application left unread
        let st_now = self.sock(i).state();
        let more_may_come = matches!(
            st_now,
            tcp::State::SynSent | tcp::State::SynReceived | tcp::State::Established | tcp::State::FinWait1 | tcp::State::FinWait2
        );
        let paused = hostile && more_may_come && self.cfg.ep[i].read_pauses.iter().any(|(a, b)| *a <= now && now < *b);
        let tag_peer = self.tag(1 - i);
        let tag_me = self.tag(i);
        let total = self.cfg.ep[i].total;
        let max_chunk = self.cfg.ep[i].max_chunk;
        let max_read = self.cfg.ep[i].max_read;
        let use_closure = self.cfg.ep[i].use_recv_closure;
        let mut did = false;

        // ---- the application changes its mind about keep-alive now and then (sockets that started
        // with keep-alive only: the sender monitor's exemption is tied to it)
        if let Some(ms) = self.cfg.ep[i].keep_alive_ms {
            if rng.chance(1, 150) {
                let on = self.sock(i).keep_alive().is_some();
                self.sock(i).set_keep_alive(if on { None } else { Some(Duration::from_millis(ms)) });
                self.stats.keep_alive_toggles += 1;
            }
        }

        // ---- write
        if self.apps[i].written < total && self.sock(i).can_send() {
            // in the reliable phase the application must not be the bottleneck of the
            // bounded-progress judgement: it writes whatever fits
            let want = if hostile { rng.urange(1, max_chunk) } else { 1 << 20 }.min((total - self.apps[i].written) as usize);
            let base = self.apps[i].written;
            let data: Vec<u8> = (0..want as u64).map(|k| stream_byte(tag_me, base + k)).collect();
            match self.sock(i).send_slice(&data) {
                Ok(n) => {
                    if n > 0 {
                        did = true;
                        self.apps[i].written += n as u64;
                        self.smon[i].on_app_write(n as u64);
                        self.tr(format!("ep{} app write {} (total {})", i, n, base + n as u64));
                    }
                }
                Err(_) => {}
            }
        }
        // ---- close when everything is written
        if self.apps[i].written == total && !self.apps[i].close_called {
            let st = self.sock(i).state();
            let open = matches!(st, tcp::State::Established | tcp::State::CloseWait);
            if open {
                match self.apps[i].close_at {
                    None => self.apps[i].close_at = Some(now + self.cfg.ep[i].close_delay),
                    Some(t) if now >= t => {
                        self.sock(i).close();
                        self.apps[i].close_called = true;
                        self.smon[i].on_close();
                        did = true;
                        self.tr(format!("ep{} app close() after {} bytes", i, total));
                    }
                    _ => {}
                }
            }
        }
        // ---- read
        if !paused {
            loop {
                let want = rng.urange(1, max_read);
                let res: Result<Vec<u8>, tcp::RecvError> = if use_closure {
                    self.sock(i).recv(|b| {
                        let n = b.len().min(want);
                        (n, b[..n].to_vec())
                    })
                } else {
                    let mut buf = vec![0u8; want];
                    self.sock(i).recv_slice(&mut buf).map(|n| {
                        buf.truncate(n);
                        buf
                    })
                };
                self.stats.recv_calls += 1;
                match res {
                    Ok(data) => {
                        if data.is_empty() {
                            break;
                        }
                        did = true;
                        let base = self.apps[i].delivered;
                        for (k, b) in data.iter().enumerate() {
                            let exp = stream_byte(tag_peer, base + k as u64);
                            if *b != exp {
                                let peer_written = self.apps[1 - i].written;
                                self.violate(
                                    "C01",
                                    "stream:byte-mismatch".into(),
                                    format!(
                                        "endpoint {} received byte {:#04x} at stream offset {} where the peer wrote {:#04x} (peer has written {} bytes so far; recv returned {} bytes starting at offset {})",
                                        i, b, base + k as u64, exp, peer_written, data.len(), base
                                    ),
                                );
                                break;
                            }
                        }
                        self.apps[i].delivered += data.len() as u64;
                        self.stats.bytes_delivered += data.len() as u64;
                        if self.apps[i].delivered > self.apps[1 - i].written {
                            let (d, w) = (self.apps[i].delivered, self.apps[1 - i].written);
                            self.violate(
                                "C01",
                                "stream:more-than-written".into(),
                                format!("endpoint {} was handed {} bytes but the peer wrote only {}", i, d, w),
                            );
                        }
                    }
                    Err(tcp::RecvError::Finished) => {
                        if !self.apps[i].finished {
                            self.apps[i].finished = true;
                            self.stats.finished_seen += 1;
                            let peer = &self.apps[1 - i];
                            let (pc, pw, d) = (peer.close_called, peer.written, self.apps[i].delivered);
                            if !pc {
                                self.violate(
                                    "C01",
                                    "stream:finished-before-peer-closed".into(),
                                    format!("endpoint {} got Finished after {} bytes although the peer never called close()", i, d),
                                );
                            } else if d != pw {
                                self.violate(
                                    "C01",
                                    "stream:finished-with-tail-missing".into(),
                                    format!(
                                        "endpoint {} got Finished after {} bytes but the peer wrote {} bytes before closing",
                                        i, d, pw
                                    ),
                                );
                            }
                            self.tr(format!("ep{} app sees Finished after {} bytes", i, d));
                        }
                        break;
                    }
                    Err(_) => break,
                }
            }
        }
        // ---- when to come back
        let a = &mut self.apps[i];
        if did {
            a.idle_backoff = 1000;
            let think = if hostile { self.cfg.ep[i].think } else { 0 };
            a.next_at = now + if think > 0 { rng.range(0, think as u64) as Micros } else { 0 } + 1;
        } else {
            a.idle_backoff = (a.idle_backoff * 2).min(1_000_000);
            a.next_at = now + a.idle_backoff;
        }
        if let Some(t) = a.close_at {
            if !a.close_called && t > now {
                a.next_at = a.next_at.min(t);
            }
        }
    }

    fn obligation(&mut self, i: usize) -> Option<(&'static str, usize)> {
        let s = self.sock(i);
        let st = s.state();
        let q = s.send_queue();
        match st {
            tcp::State::SynSent | tcp::State::SynReceived => Some(("syn", 1)),
            tcp::State::FinWait1 | tcp::State::Closing | tcp::State::LastAck => Some(("fin", 2)),
            tcp::State::Established | tcp::State::CloseWait if q > 0 => Some(("data", 0)),
            _ => None,
        }
    }

    fn poll_ep(&mut self, i: usize, rng: &mut Rng) {
        let now = self.now;
        VNOW.with(|v| v.set(now));
        let had_rx = !self.hosts[i].dev.rx.is_empty();
        let out = self.hosts[i].poll(now);
        self.stats.polls += 1;
        if self.hosts[i].dev.tx_cap_hit {
            self.hosts[i].dev.tx_cap_hit = false;
            let st = self.sock(i).state();
            let last = out.tx.last().and_then(|r| self.parse_tcp(&r.data)).map(|(_, s)| format!("{} seq={} ack={} len={}", s.flag_str(), s.seq, s.ack, s.payload.len()));
            let desc = format!(
                "endpoint {} (state {}) transmitted more than {} frames in a single Interface::poll (poll would never return on a device that always accepts frames); last frame: {:?}",
                i, st, self.hosts[i].dev.tx_cap, last
            );
            // the same observation refutes C13 (spinning), C02 and C01 (no progress possible)
            self.violate("C13", format!("poll:unbounded-tx:{}", st), desc.clone());
            self.violate("C02", format!("poll:unbounded-tx:{}", st), desc.clone());
            self.violate("C01", format!("poll:unbounded-tx:{}", st), desc.clone());
            self.violate("C05", format!("poll:unbounded-tx:{}", st), desc);
            self.fatal = true;
            return;
        }
        let txn = out.tx.len();
        let rxn = out.rx_count;
        self.emit(i, out.tx, rng);
        let w = self.hosts[i].poll_at(now);
        self.wake[i] = w;
        // ---- C13 (N): a poll without rx/tx must not leave a deadline <= now
        if !had_rx && rxn == 0 && txn == 0 {
            self.stats.n_checks += 1;
            if let Some(t) = w {
                if t <= now {
                    if self.last_no_progress_at[i] == now {
                        self.no_progress_count[i] += 1;
                    } else {
                        self.last_no_progress_at[i] = now;
                        self.no_progress_count[i] = 1;
                    }
                    let st = self.sock(i).state();
                    let q = self.sock(i).send_queue();
                    self.violate(
                        "C13",
                        format!("N:tcp:{}", st),
                        format!(
                            "endpoint {} polled at {}us: nothing received, nothing transmitted, yet poll_at = {}us <= now (state {}, send_queue {})",
                            i, now, t, st, q
                        ),
                    );
                }
            }
        }
        // ---- C02 (I): unacknowledged SYN/FIN/data  =>  finite deadline
        self.stats.inv_checks += 1;
        if let Some((kind, k)) = self.obligation(i) {
            self.stats.inv_oblig[k] += 1;
            if w.is_none() {
                let st = self.sock(i).state();
                let q = self.sock(i).send_queue();
                self.violate(
                    "C02",
                    format!("I:no-deadline:{}:{}", kind, st),
                    format!(
                        "endpoint {} in state {} with send_queue {} (unacknowledged {}), but Interface::poll_at returned None after the poll",
                        i, st, q, kind
                    ),
                );
            }
        }
    }

    /// C13 (S): an extra poll strictly before the deadline, with nothing in between, must not transmit
    fn probe(&mut self, i: usize, rng: &mut Rng, horizon: Micros) {
        let now = self.now;
        let deadline = self.wake[i];
        let hi = match deadline {
            Some(d) => d.min(horizon),
            None => horizon.min(now + *rng.pick(&[1_000i64, 1_000_000, 3_600_000_000])),
        };
        if hi <= now + 1 {
            return;
        }
        let p = now + 1 + rng.range(0, (hi - now - 2).max(0) as u64) as Micros;
        if p >= hi {
            return;
        }
        if !self.hosts[i].dev.rx.is_empty() {
            return;
        }
        self.now = p;
        VNOW.with(|v| v.set(p));
        let out = self.hosts[i].poll(p);
        self.stats.polls += 1;
        self.stats.s_probes += 1;
        if self.hosts[i].dev.tx_cap_hit {
            self.hosts[i].dev.tx_cap_hit = false;
            let st = self.sock(i).state();
            let desc = format!("endpoint {} (state {}) transmitted more than {} frames in a single Interface::poll", i, st, self.hosts[i].dev.tx_cap);
            self.violate("C13", format!("poll:unbounded-tx:{}", st), desc.clone());
            self.violate("C02", format!("poll:unbounded-tx:{}", st), desc);
            self.fatal = true;
            return;
        }
        // IGMP / MLD report frames are outside the claim of C13 (the interface does not
        // schedule them through poll_at)
        let judged: Vec<&TxRec> = out
            .tx
            .iter()
            .filter(|r| match self.ip_of(&r.data) {
                Some(p) => !is_group_report(p),
                None => true,
            })
            .collect();
        if !judged.is_empty() {
            let st = self.sock(i).state();
            let first = self
                .parse_tcp(&judged[0].data)
                .map(|(_, s)| format!("{} seq={} ack={} len={}", s.flag_str(), s.seq, s.ack, s.payload.len()))
                .unwrap_or_else(|| "non-TCP frame".into());
            self.violate(
                "C13",
                format!("S:tcp:{}", st),
                format!(
                    "endpoint {}: poll_at at {}us answered {:?}, but an extra poll at {}us (no frame, no socket call in between) transmitted {} frame(s): {}",
                    i, now, deadline, p, judged.len(), first
                ),
            );
        }
        self.emit(i, out.tx, rng);
        self.wake[i] = self.hosts[i].poll_at(p);
        // invariant (I) holds after every poll, probes included
        self.stats.inv_checks += 1;
        if let Some((kind, k)) = self.obligation(i) {
            self.stats.inv_oblig[k] += 1;
            if self.wake[i].is_none() {
                let st = self.sock(i).state();
                let q = self.sock(i).send_queue();
                self.violate(
                    "C02",
                    format!("I:no-deadline:{}:{}", kind, st),
                    format!(
                        "endpoint {} in state {} with send_queue {} (unacknowledged {}), but Interface::poll_at returned None after an early poll",
                        i, st, q, kind
                    ),
                );
            }
        }
    }

    fn done(&mut self) -> bool {
        let all = self.apps[0].delivered == self.cfg.ep[1].total && self.apps[1].delivered == self.cfg.ep[0].total;
        if !all {
            return false;
        }
        for i in 0..2 {
            let st = self.sock(i).state();
            if !matches!(st, tcp::State::Closed | tcp::State::TimeWait) {
                return false;
            }
        }
        true
    }

    fn app_enabled(&mut self, i: usize) -> bool {
        let total = self.cfg.ep[i].total;
        let a_written = self.apps[i].written;
        let close_called = self.apps[i].close_called;
        let s = self.sock(i);
        if a_written < total && s.can_send() {
            return true;
        }
        if a_written == total && !close_called && matches!(s.state(), tcp::State::Established | tcp::State::CloseWait) {
            return true;
        }
        if s.can_recv() {
            return true;
        }
        false
    }

    pub fn run(&mut self, rng: &mut Rng) {
        for i in 0..2 {
            self.smon[i].keep_alive = self.cfg.ep[i].keep_alive_ms.is_some();
        }
        let deadline = self.cfg.hostile_until + 3600 * 1_000_000;
        loop {
            self.stats.events += 1;
            if self.fatal {
                break;
            }
            if self.queue.len() > 60_000 {
                // frames multiply faster than they are consumed: stop this run (reported
                // through the counter `runs_cut_by_frame_storm`, never as a violation here)
                self.stats.storm = true;
                break;
            }
            if self.stats.events > self.cfg.max_events {
                // logical budget exhausted: inconclusive for this run, never a violation
                break;
            }
            // next instant
            let mut t = Micros::MAX;
            if let Some(e) = self.queue.peek() {
                t = t.min(e.at);
            }
            for i in 0..2 {
                if let Some(w) = self.wake[i] {
                    t = t.min(w.max(self.now));
                }
            }
            if let Some(a) = self.cfg.abort_at {
                if self.now >= a {
                    // the applications give up: both sockets are aborted, whatever was in flight or
                    // buffered out of order is abandoned, and the case goes on with socket reuse
                    for i in 0..2 {
                        self.sock(i).abort();
                    }
                    for i in 0..2 {
                        let _ = self.hosts[i].poll(self.now);
                    }
                    self.queue.clear();
                    self.stats.aborted_by_plan = true;
                    self.stats.completed = true;
                    self.stats.completion_time = self.now;
                    break;
                }
                t = t.min(a.max(self.now));
            }
            let net_idle = t == Micros::MAX;
            if net_idle {
                // nothing in flight and no deadline on either side
                if self.done() {
                    self.stats.completed = true;
                    self.stats.completion_time = self.now;
                    break;
                }
                let en0 = self.app_enabled(0);
                let en1 = self.app_enabled(1);
                let paused_any = self.in_hostile();
                if !en0 && !en1 && !paused_any {
                    let (d0, d1) = (self.apps[0].delivered, self.apps[1].delivered);
                    let (s0, s1) = (self.sock(0).state(), self.sock(1).state());
                    let (q0, q1) = (self.sock(0).send_queue(), self.sock(1).send_queue());
                    let (t0, t1) = (self.cfg.ep[0].total, self.cfg.ep[1].total);
                    self.violate(
                        "C02",
                        format!("Q:stalled:{}/{}", s0, s1),
                        format!(
                            "quiescent for ever: no frame in flight, both poll_at None, no application action enabled; ep0 {} send_queue {} delivered {}/{}; ep1 {} send_queue {} delivered {}/{}",
                            s0, q0, d0, t1, s1, q1, d1, t0
                        ),
                    );
                    break;
                }
            }
            for i in 0..2 {
                t = t.min(self.apps[i].next_at.max(self.now));
            }
            if t == Micros::MAX {
                break;
            }
            // ---- bounded progress (B): in the reliable phase something observable (a byte
            // delivered, a byte accepted for sending, a state change) must happen at least
            // every 900 s of virtual time until the transfer and both closes are complete.
            {
                let (s0, s1) = (self.sock(0).state() as u8, self.sock(1).state() as u8);
                let sig = (self.apps[0].delivered, self.apps[1].delivered, self.apps[0].written, self.apps[1].written, s0, s1);
                if sig != self.progress_sig || self.in_hostile() {
                    self.progress_sig = sig;
                    self.progress_at = self.now.max(self.cfg.hostile_until);
                }
            }
            let stuck = t.min(deadline) - self.progress_at > 900 * 1_000_000 && t > self.cfg.hostile_until;
            if stuck || t > deadline {
                if !self.done() && !stuck {
                    // still progressing after 3600 s: slow, not stuck -> not judged
                    self.stats.events = self.cfg.max_events + 1;
                    break;
                }
                if !self.done() {
                    let (d0, d1) = (self.apps[0].delivered, self.apps[1].delivered);
                    let (s0, s1) = (self.sock(0).state(), self.sock(1).state());
                    let (t0, t1) = (self.cfg.ep[0].total, self.cfg.ep[1].total);
                    let aborted = (matches!(s0, tcp::State::Closed) || matches!(s1, tcp::State::Closed)) && (d0 < t1 || d1 < t0);
                    self.stats.aborted = aborted;
                    // The signature names the timer each socket is left with (taken from the
                    // sockets' Debug rendering: diagnostic only, the verdict does not depend on it),
                    // so that different livelock mechanisms keep different signatures.
                    let timer_of = |me: &Self, i: usize| -> String {
                        let d = format!("{:?}", me.hosts[i].sockets.get::<tcp::Socket>(me.handles[i]));
                        match d.find("timer: ") {
                            Some(p) => d[p + 7..].chars().take_while(|c| c.is_alphanumeric()).collect(),
                            None => "unknown".to_string(),
                        }
                    };
                    let mut tm = [timer_of(self, 0), timer_of(self, 1)];
                    tm.sort();
                    self.violate(
                        "C02",
                        if aborted { format!("B:aborted:{}/{}", s0, s1) } else { format!("B:no-progress:timers:{}+{}", tm[0], tm[1]) },
                        format!(
                            "no byte delivered, no byte accepted and no state change for 900 s of virtual time on a reliable network: ep0 {} delivered {}/{}, ep1 {} delivered {}/{}",
                            s0, d0, t1, s1, d1, t0
                        ),
                    );
                } else {
                    self.stats.completed = true;
                    self.stats.completion_time = self.now;
                }
                break;
            }
            self.now = t;
            // deliveries due now
            let mut got = [false, false];
            while let Some(e) = self.queue.peek() {
                if e.at > self.now {
                    break;
                }
                let e = self.queue.pop().unwrap();
                got[e.to] = true;
                self.deliver(e.to, e.frame);
            }
            // application actions due now
            for i in 0..2 {
                if self.apps[i].next_at <= self.now || got[i] && !self.in_hostile() {
                    self.app_step(i, rng);
                    self.wake[i] = self.hosts[i].poll_at(self.now);
                }
            }
            // polls: on arrival and at the promised instant only
            for i in 0..2 {
                let due = matches!(self.wake[i], Some(w) if w <= self.now);
                if got[i] || due {
                    self.poll_ep(i, rng);
                    // the application looks at its socket after every poll in the reliable phase
                    if !self.in_hostile() {
                        self.app_step(i, rng);
                        self.wake[i] = self.hosts[i].poll_at(self.now);
                    }
                    // a spin guard: a deadline <= now without progress is already reported (N);
                    // do not let it eat the event budget
                    if self.no_progress_count[i] > 50 {
                        return;
                    }
                }
            }
            // early probe polls
            if self.cfg.early_polls && self.cfg.probe_pm > 0 && rng.below(1000) < self.cfg.probe_pm as u64 {
                let i = rng.usize_below(2);
                // nothing may happen before the probe: bound it by the next event
                let mut horizon = Micros::MAX;
                if let Some(e) = self.queue.peek() {
                    horizon = horizon.min(e.at);
                }
                for k in 0..2 {
                    horizon = horizon.min(self.apps[k].next_at);
                    if k != i {
                        if let Some(w) = self.wake[k] {
                            horizon = horizon.min(w);
                        }
                    }
                }
                if horizon > self.now + 2 && self.hosts[i].dev.rx.is_empty() {
                    let due = matches!(self.wake[i], Some(w) if w <= self.now);
                    if !due {
                        self.probe(i, rng, horizon);
                    }
                }
            }
            if self.done() && self.queue.is_empty() {
                self.stats.completed = true;
                self.stats.completion_time = self.now;
                break;
            }
        }
    }
}
