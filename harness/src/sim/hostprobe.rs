//! C13 probe that rides inside `Host` (sim/mod.rs).
//!
//! A driver run inside `with_probes(..)` gets, without being edited, the two C13 oracles applied
//! to every `Host` it creates:
//!
//! (S) `Host` remembers the answer `d` of the most recent `Interface::poll_at` (asked by the
//!     driver through `Host::poll_at`, or by `Host` itself right after each poll) and whether the
//!     driver touched the socket set or the interface since (the two fields are `Tracked`, every
//!     mutable access marks them).  At the next `Host::poll(now2)`, if nothing was touched,
//!     an *extra early poll* is made at an instant `t` in [last, min(d, now2)) with the receive
//!     queue withheld (the frames queued by the driver arrive at now2, not before); it must
//!     transmit nothing.  The regular poll itself is judged the same way when it receives no
//!     frame and now2 < d (or d is None).  IGMP/MLD reports are outside the claim and ignored.
//! (N) after every poll that neither received nor transmitted a frame on a device that hands out
//!     tokens, `poll_at` must be None or strictly later than that poll's timestamp.
//!
//! Frames transmitted by an extra poll are handed to the driver with the next regular poll, so
//! the simulation continues as if the network had delayed them.
use crate::indep::{self, ip};
use crate::util::json::Json;
use crate::util::rng::Rng;
use crate::util::run::{CaseOut, Violation};
use smoltcp::phy::Medium;
use std::cell::RefCell;

use super::{Micros, TxRec};

pub struct Ctx {
    pub driver: &'static str,
    pub seed: u64,
    pub hosts: u64,
    pub out: CaseOut,
}

thread_local! {
    static CTX: RefCell<Option<Ctx>> = const { RefCell::new(None) };
}

/// Run `f` with probes installed in every Host it creates; returns the probes' verdicts only.
pub fn with_probes<R>(driver: &'static str, seed: u64, f: impl FnOnce() -> R) -> (R, CaseOut) {
    CTX.with(|c| *c.borrow_mut() = Some(Ctx { driver, seed, hosts: 0, out: CaseOut::default() }));
    // the context must be removed even if f unwinds (the panic is re-raised for the caller's catch)
    let r = std::panic::catch_unwind(std::panic::AssertUnwindSafe(f));
    let ctx = CTX.with(|c| c.borrow_mut().take());
    match r {
        Ok(r) => (r, ctx.map(|c| c.out).unwrap_or_default()),
        Err(p) => std::panic::resume_unwind(p),
    }
}

pub struct Probe {
    pub driver: &'static str,
    rng: Rng,
    pub have_deadline: bool,
    pub deadline: Option<Micros>,
    pub last_now: Micros,
    /// an (S) evaluation took place since the deadline was learnt
    probed_interval: bool,
    pub carry: Vec<TxRec>,
    /// a route of the interface expired between the poll_at answer and the poll being judged
    pub route_expired_in_between: bool,
    pub out: CaseOut,
    reported: bool,
}

pub fn new_probe() -> Option<Probe> {
    CTX.with(|c| {
        let mut c = c.borrow_mut();
        let c = c.as_mut()?;
        c.hosts += 1;
        Some(Probe {
            driver: c.driver,
            rng: Rng::new(c.seed ^ c.hosts.wrapping_mul(0x9e37_79b9_7f4a_7c15)),
            have_deadline: false,
            deadline: None,
            last_now: 0,
            probed_interval: false,
            carry: Vec::new(),
            route_expired_in_between: false,
            out: CaseOut::default(),
            reported: false,
        })
    })
}

pub fn retire(p: Probe) {
    CTX.with(|c| {
        if let Some(c) = c.borrow_mut().as_mut() {
            c.out.merge(p.out);
        }
    });
}

fn hex(b: &[u8]) -> String {
    let mut s = String::new();
    for x in b.iter().take(120) {
        s.push_str(&format!("{:02x}", x));
    }
    if b.len() > 120 {
        s.push_str(&format!("..({}B)", b.len()));
    }
    s
}

/// the IP packet inside a frame of `medium` (None for ARP and for 802.15.4 frames)
fn ip_of(medium: Medium, f: &[u8]) -> Option<&[u8]> {
    match medium {
        Medium::Ethernet => {
            if f.len() >= 14 && (indep::be16(f, 12) == 0x0800 || indep::be16(f, 12) == 0x86dd) {
                Some(&f[14..])
            } else {
                None
            }
        }
        Medium::Ip => Some(f),
        _ => None,
    }
}

/// What kind of frame is this (coarse; used for signatures and coverage classes).
pub fn kind_of(medium: Medium, f: &[u8]) -> String {
    if medium == Medium::Ethernet && f.len() >= 14 && indep::be16(f, 12) == 0x0806 {
        return "arp".into();
    }
    if medium == Medium::Ieee802154 {
        // the tail of an uncompressed ICMPv6 message is visible even through IPHC
        return "ieee802154".into();
    }
    let Some(p) = ip_of(medium, f) else { return "other".into() };
    let Ok(i) = ip::parse(p, false) else { return "ip-unparsable".into() };
    let v = if p[0] >> 4 == 4 { "4" } else { "6" };
    let pl = &p[i.payload_off..(i.payload_off + i.payload_len).min(p.len())];
    if i.frag_offset != 0 || i.more_frags {
        return format!("ipv{}-fragment", v);
    }
    match i.proto {
        1 => format!("icmpv4-{}", pl.first().copied().unwrap_or(255)),
        2 => "igmp".into(),
        58 => match pl.first().copied().unwrap_or(0) {
            133 => "ndisc-rs".into(),
            134 => "ndisc-ra".into(),
            135 => "ndisc-ns".into(),
            136 => "ndisc-na".into(),
            131 | 132 | 143 => "mld-report".into(),
            130 => "mld-query".into(),
            128 => "icmpv6-echo-request".into(),
            129 => "icmpv6-echo-reply".into(),
            t => format!("icmpv6-{}", t),
        },
        17 if pl.len() >= 8 => {
            let (sp, dp) = (indep::be16(pl, 0), indep::be16(pl, 2));
            if sp == 68 || dp == 67 {
                let ty = dhcp_type(&pl[8..]);
                format!("dhcp-{}", ty)
            } else if dp == 53 {
                "dns-query".into()
            } else if dp == 5353 {
                "mdns-query".into()
            } else {
                format!("udp{}", v)
            }
        }
        6 if pl.len() >= 20 => {
            let fl = pl[13];
            let data = pl.len() > ((pl[12] >> 4) as usize) * 4;
            let mut s = String::from("tcp");
            if fl & 0x02 != 0 {
                s.push_str("-syn");
            }
            if fl & 0x04 != 0 {
                s.push_str("-rst");
            }
            if fl & 0x01 != 0 {
                s.push_str("-fin");
            }
            if data {
                s.push_str("-data");
            }
            if s == "tcp" {
                s.push_str("-ack");
            }
            s
        }
        p => format!("ipv{}-proto-{}", v, p),
    }
}

fn dhcp_type(b: &[u8]) -> &'static str {
    if b.len() < 240 {
        return "short";
    }
    let mut o = 240;
    while o + 1 < b.len() {
        let (c, l) = (b[o], b[o + 1] as usize);
        if c == 255 {
            break;
        }
        if c == 0 {
            o += 1;
            continue;
        }
        if c == 53 && l == 1 && o + 2 < b.len() {
            return match b[o + 2] {
                1 => "discover",
                3 => "request",
                4 => "decline",
                7 => "release",
                8 => "inform",
                _ => "other",
            };
        }
        o += 2 + l;
    }
    "untyped"
}

pub fn is_group_report(medium: Medium, f: &[u8]) -> bool {
    matches!(kind_of(medium, f).as_str(), "igmp" | "mld-report")
}

impl Probe {
    pub fn pick_instant(&mut self, last: Micros, upper_excl: Micros) -> Micros {
        // [last, upper_excl): the two ends, just after `last`, and anywhere in between
        let span = upper_excl - last;
        match self.rng.below(6) {
            0 => last,
            1 => upper_excl - 1,
            2 => last + (span - 1).min(1),
            3 => last + (span - 1).min(1_000),
            _ => last + (self.rng.below(span as u64) as Micros),
        }
    }
    /// `Interface::poll_delay` against `Interface::poll_at` asked at the same instant
    pub fn judge_delay(&mut self, now: Micros, at: Option<Micros>, delay: Option<Micros>, want: Option<Micros>) {
        self.out.evals += 1;
        self.out.count("poll_delay_compared_with_poll_at", 1);
        if delay != want && !self.reported {
            self.reported = true;
            self.out.violate(
                Violation::new(
                    format!("D:poll_delay-disagrees-with-poll_at:{}", match (at, delay) {
                        (None, Some(_)) => "delay-without-deadline",
                        (Some(_), None) => "deadline-without-delay",
                        (Some(t), Some(_)) if t <= now => "deadline-due",
                        _ => "deadline-ahead",
                    }),
                    format!("driver {}: at t={}us Interface::poll_at answers {:?} but Interface::poll_delay answers {:?}us (expected {:?}us: the distance to that instant, zero if it is due)", self.driver, now, at, delay, want),
                )
                .with(Json::obj().set("t", Json::Int(now))),
            );
        }
    }

    pub fn mark_probed(&mut self) {
        self.probed_interval = true;
    }
    pub fn note_asked(&mut self, now: Micros, d: Option<Micros>) {
        self.deadline = d;
        self.have_deadline = true;
        self.last_now = self.last_now.max(now);
    }
    pub fn want_extra(&mut self) -> bool {
        self.rng.chance(1, 2)
    }

    /// judge the frames of a poll that must have been silent
    pub fn judge_s(&mut self, medium: Medium, how: &str, t: Micros, tx: &[TxRec], sockets: &str) {
        self.out.evals += 1;
        self.probed_interval = true;
        let kind_d = if self.deadline.is_some() { "before-deadline" } else { "no-deadline" };
        self.out.count(&format!("S_evaluations_{}", how), 1);
        self.out.class(format!("S:{}:{}:{}", self.driver, how, kind_d));
        let loud: Vec<&TxRec> = tx.iter().filter(|r| !is_group_report(medium, &r.data)).collect();
        if tx.len() != loud.len() {
            self.out.count("S_group_reports_ignored", (tx.len() - loud.len()) as u64);
        }
        if loud.is_empty() || self.reported {
            return;
        }
        self.reported = true;
        let kinds: Vec<String> = loud.iter().map(|r| kind_of(medium, &r.data)).collect();
        let mut k = kinds.clone();
        k.sort();
        k.dedup();
        // a route that expires while a socket waits for a neighbor changes the next hop (and with it
        // the answer of has_neighbor) without any event: its own signature
        let sig = if self.route_expired_in_between { format!("S:{}:route-expired-in-between", kind_d) } else { format!("S:{}:{}", kind_d, k.join("+")) };
        let desc = format!(
            "driver {}: Interface::poll_at answered {:?} at t={}us; with no frame received and no socket or interface call in between, the {} poll at t={}us transmitted {} frame(s) [{}]: {} ; sockets: {}",
            self.driver,
            self.deadline,
            self.last_now,
            how,
            t,
            loud.len(),
            kinds.join(", "),
            loud.iter().take(3).map(|r| hex(&r.data)).collect::<Vec<_>>().join(" | "),
            sockets
        );
        self.out.violate(Violation::new(sig, desc).with(Json::obj().set("t", Json::Int(t)).set("poll_at_asked_at", Json::Int(self.last_now))));
    }

    /// after a poll at `now`: (N) and coverage
    pub fn after_poll(&mut self, medium: Medium, now: Micros, rx_count: usize, tx: &[TxRec], accepts: bool, d: Option<Micros>, sockets: &str, timer_poll: bool) {
        if timer_poll && rx_count == 0 {
            // a poll at or after the remembered deadline, nothing received: what the timer did
            for r in tx.iter() {
                let k = kind_of(medium, &r.data);
                if self.probed_interval {
                    self.out.count("timer_work_after_probed_wait", 1);
                    self.out.class(format!("timer-after-probe:{}:{}", self.driver, k));
                } else {
                    self.out.class(format!("timer:{}:{}", self.driver, k));
                }
            }
        }
        if rx_count == 0 && tx.is_empty() && accepts {
            self.out.evals += 1;
            self.out.count("N_evaluations", 1);
            let cls = match d {
                None => "none",
                Some(x) if x > now => "later",
                Some(x) if x == now => "now",
                _ => "past",
            };
            self.out.class(format!("N:{}:{}", self.driver, cls));
            if let Some(x) = d {
                if x <= now && !self.reported {
                    self.reported = true;
                    let sig = format!("N:deadline-{}", if x == now { "now" } else { "in-the-past" });
                    let desc = format!(
                        "driver {}: Interface::poll at t={}us received nothing and transmitted nothing on a device that hands out tokens, yet Interface::poll_at then answers {}us (not later than the poll): an event loop on poll_at/poll_delay spins ; sockets: {}",
                        self.driver, now, x, sockets
                    );
                    self.out.violate(Violation::new(sig, desc).with(Json::obj().set("t", Json::Int(now)).set("poll_at", Json::Int(x))));
                }
            }
        }
        self.deadline = d;
        self.have_deadline = true;
        self.last_now = now;
        self.probed_interval = false;
    }
}
