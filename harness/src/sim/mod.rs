//! Simulation substrate: a `phy::Device` owned by the harness (every frame in
//! and out passes through it), a virtual clock (microseconds), and a faulty link.
use crate::util::rng::Rng;
use smoltcp::iface::{Config, Interface, SocketSet};
use smoltcp::phy::{Checksum, ChecksumCapabilities, Device, DeviceCapabilities, Medium, RxToken, TxToken};
use smoltcp::time::Instant;
use smoltcp::wire::{EthernetAddress, HardwareAddress, IpCidr};
use std::collections::VecDeque;

pub mod dgram;
pub mod dhcp_net;
pub mod dns_net;
pub mod enforce;
pub mod hostprobe;
pub mod lowpan;
pub mod scen;
pub mod tcp_peer;
pub mod tcpsim;
pub mod traffic;
pub mod zoo;
pub mod wrap_seeds;

pub type Micros = i64;

pub fn inst(t: Micros) -> Instant {
    Instant::from_micros(t)
}

#[derive(Clone, Debug)]
pub struct TxRec {
    pub at: Micros,
    pub data: Vec<u8>,
}

pub struct SimDevice {
    pub medium: Medium,
    pub mtu: usize,
    pub checksum: ChecksumCapabilities,
    pub max_burst: Option<usize>,
    pub rx: VecDeque<Vec<u8>>,
    pub tx: Vec<TxRec>,
    /// device refuses to hand out tokens (back-pressure)
    pub blocked: bool,
    /// frames accepted since `begin_poll`; beyond `tx_cap` the device stops handing out tokens
    pub tx_in_poll: usize,
    pub rx_in_poll: usize,
    pub tx_cap: usize,
    pub tx_cap_hit: bool,
    /// fill fresh transmit buffers with this byte instead of zero
    pub prefill: u8,
    pub now: Micros,
}

impl SimDevice {
    pub fn new(medium: Medium, mtu: usize) -> SimDevice {
        SimDevice {
            medium,
            mtu,
            checksum: ChecksumCapabilities::default(),
            max_burst: None,
            rx: VecDeque::new(),
            tx: Vec::new(),
            blocked: false,
            tx_in_poll: 0,
            rx_in_poll: 0,
            tx_cap: 40_000,
            tx_cap_hit: false,
            prefill: 0xA5,
            now: 0,
        }
    }
    pub fn begin_poll(&mut self, now: Micros) {
        self.now = now;
        self.tx_in_poll = 0;
        self.rx_in_poll = 0;
    }
    pub fn drain_tx(&mut self) -> Vec<TxRec> {
        std::mem::take(&mut self.tx)
    }
}

pub struct SimRx {
    buf: Vec<u8>,
}
pub struct SimTx<'a> {
    dev_tx: &'a mut Vec<TxRec>,
    counter: &'a mut usize,
    now: Micros,
    prefill: u8,
}

impl RxToken for SimRx {
    fn consume<R, F>(self, f: F) -> R
    where
        F: FnOnce(&[u8]) -> R,
    {
        f(&self.buf)
    }
}

impl<'a> TxToken for SimTx<'a> {
    fn consume<R, F>(self, len: usize, f: F) -> R
    where
        F: FnOnce(&mut [u8]) -> R,
    {
        let mut buf = vec![self.prefill; len];
        let r = f(&mut buf);
        *self.counter += 1;
        self.dev_tx.push(TxRec { at: self.now, data: buf });
        r
    }
}

impl Device for SimDevice {
    type RxToken<'a> = SimRx;
    type TxToken<'a> = SimTx<'a>;

    fn receive(&mut self, _ts: Instant) -> Option<(SimRx, SimTx<'_>)> {
        if self.blocked {
            return None;
        }
        if self.tx_in_poll >= self.tx_cap {
            self.tx_cap_hit = true;
            return None;
        }
        let buf = self.rx.pop_front()?;
        self.rx_in_poll += 1;
        Some((
            SimRx { buf },
            SimTx {
                dev_tx: &mut self.tx,
                counter: &mut self.tx_in_poll,
                now: self.now,
                prefill: self.prefill,
            },
        ))
    }

    fn transmit(&mut self, _ts: Instant) -> Option<SimTx<'_>> {
        if self.blocked {
            return None;
        }
        if self.tx_in_poll >= self.tx_cap {
            self.tx_cap_hit = true;
            return None;
        }
        Some(SimTx {
            dev_tx: &mut self.tx,
            counter: &mut self.tx_in_poll,
            now: self.now,
            prefill: self.prefill,
        })
    }

    fn capabilities(&self) -> DeviceCapabilities {
        let mut c = DeviceCapabilities::default();
        c.medium = self.medium;
        c.max_transmission_unit = self.mtu;
        c.max_burst_size = self.max_burst;
        c.checksum = self.checksum.clone();
        c
    }
}

pub fn checksum_caps(kind: u8) -> ChecksumCapabilities {
    let mut c = ChecksumCapabilities::default();
    let k = match kind {
        0 => Checksum::Both,
        1 => Checksum::Rx,
        2 => Checksum::Tx,
        _ => Checksum::None,
    };
    c.ipv4 = k;
    c.udp = k;
    c.tcp = k;
    c.icmpv4 = k;
    c.icmpv6 = k;
    c
}

/// A field whose mutable uses are noticed (C13: "no socket calls in between").
pub struct Tracked<T> {
    v: T,
    pub dirty: bool,
}

impl<T> Tracked<T> {
    pub fn new(v: T) -> Tracked<T> {
        Tracked { v, dirty: false }
    }
}

impl<T> std::ops::Deref for Tracked<T> {
    type Target = T;
    fn deref(&self) -> &T {
        &self.v
    }
}

impl<T> std::ops::DerefMut for Tracked<T> {
    fn deref_mut(&mut self) -> &mut T {
        self.dirty = true;
        &mut self.v
    }
}

/// One simulated host: interface + device + socket set.
pub struct Host {
    pub iface: Tracked<Interface>,
    pub dev: SimDevice,
    pub sockets: Tracked<SocketSet<'static>>,
    /// C13 oracles riding along (see hostprobe.rs); None unless the driver runs inside `with_probes`
    pub probe: Option<hostprobe::Probe>,
}

pub struct PollOut {
    pub tx: Vec<TxRec>,
    pub rx_count: usize,
}

impl Drop for Host {
    fn drop(&mut self) {
        if let Some(p) = self.probe.take() {
            hostprobe::retire(p);
        }
    }
}

impl Host {
    pub fn new(medium: Medium, mtu: usize, hw: HardwareAddress, seed: u64, addrs: &[IpCidr], now: Micros) -> Host {
        let dev = SimDevice::new(medium, mtu);
        let mut cfg = Config::new(hw);
        cfg.random_seed = seed;
        Host::with_config(dev, cfg, addrs, now)
    }

    pub fn with_config(mut dev: SimDevice, cfg: Config, addrs: &[IpCidr], now: Micros) -> Host {
        let mut iface = Interface::new(cfg, &mut dev, inst(now));
        iface.update_ip_addrs(|a| {
            for c in addrs {
                let _ = a.push(*c);
            }
        });
        Host {
            iface: Tracked::new(iface),
            dev,
            sockets: Tracked::new(SocketSet::new(Vec::new())),
            probe: hostprobe::new_probe(),
        }
    }

    fn raw_poll(&mut self, now: Micros) -> PollOut {
        self.dev.begin_poll(now);
        self.iface.v.poll(inst(now), &mut self.dev, &mut self.sockets.v);
        PollOut {
            rx_count: self.dev.rx_in_poll,
            tx: self.dev.drain_tx(),
        }
    }

    fn raw_poll_at(&mut self, now: Micros) -> Option<Micros> {
        let at = self.iface.v.poll_at(inst(now), &self.sockets.v).map(|i| i.total_micros());
        if let Some(p) = self.probe.as_mut() {
            // poll_delay is the same schedule expressed as a duration: it must agree with poll_at
            let delay = self.iface.v.poll_delay(inst(now), &self.sockets.v).map(|d| d.total_micros() as Micros);
            let want = at.map(|t| (t - now).max(0));
            p.judge_delay(now, at, delay, want);
        }
        at
    }

    /// a route of the interface stops being valid between the instants a and b
    fn route_expires_within(&mut self, a: Micros, b: Micros) -> bool {
        let mut hit = false;
        self.iface.v.routes_mut().update(|v| {
            // a route is in use while now <= expires_at: it drops out between a and b iff a <= e < b
            hit = v.iter().any(|r| r.expires_at.map_or(false, |e| e.total_micros() >= a && e.total_micros() < b));
        });
        hit
    }

    fn socket_summary(&self) -> String {
        use smoltcp::socket::Socket;
        let mut v = Vec::new();
        for (_, s) in self.sockets.v.iter() {
            v.push(match s {
                Socket::Tcp(t) => format!("tcp:{}", t.state()),
                Socket::Udp(u) => format!("udp:q{}", u.send_queue()),
                Socket::Icmp(_) => "icmp".into(),
                Socket::Raw(_) => "raw".into(),
                Socket::Dhcpv4(_) => "dhcpv4".into(),
                Socket::Dns(_) => "dns".into(),
            });
        }
        format!("[{}] addrs {:?} medium {:?}", v.join(", "), self.iface.v.ip_addrs(), self.dev.medium)
    }

    /// Interface::poll at virtual time `now`; returns what was transmitted.
    pub fn poll(&mut self, now: Micros) -> PollOut {
        if self.probe.is_none() {
            return self.raw_poll(now);
        }
        let medium = self.dev.medium;
        let clean = !self.iface.dirty && !self.sockets.dirty;
        let (have, d, last) = {
            let p = self.probe.as_ref().unwrap();
            (p.have_deadline, p.deadline, p.last_now)
        };
        let mut judged_interval = clean && have && now >= last;
        // ---- extra early poll at an instant before both the deadline and this poll
        if judged_interval {
            let upper = d.unwrap_or(Micros::MAX).min(now);
            if upper > last && self.probe.as_mut().unwrap().want_extra() {
                let t = self.probe.as_mut().unwrap().pick_instant(last, upper);
                let held = std::mem::take(&mut self.dev.rx);
                let out = self.raw_poll(t);
                self.dev.rx = held;
                let accepts = !self.dev.blocked && self.dev.tx_cap > 0;
                let d2 = self.raw_poll_at(t);
                let summary = self.socket_summary();
                let route_expired = self.route_expires_within(last, t);
                let p = self.probe.as_mut().unwrap();
                p.route_expired_in_between = route_expired;
                p.judge_s(medium, "extra", t, &out.tx, &summary);
                // the remembered deadline stays the one the driver (or the last regular poll) saw
                // if the early poll was silent; a poll that did transmit starts a new interval
                let silent = out.tx.is_empty();
                let keep = p.deadline;
                p.after_poll(medium, t, out.rx_count, &out.tx, accepts, d2, &summary, false);
                if silent {
                    // keep judging against the *earlier of the two* answers: both are promises
                    p.deadline = match (keep, d2) {
                        (Some(a), Some(b)) => Some(a.max(b)),
                        _ => None,
                    };
                    p.mark_probed();
                } else {
                    judged_interval = false;
                }
                p.carry.extend(out.tx);
            }
        }
        // ---- the regular poll
        let mut out = self.raw_poll(now);
        let accepts = !self.dev.blocked && self.dev.tx_cap > 0;
        let d_after = self.raw_poll_at(now);
        let summary = self.socket_summary();
        let route_expired = self.route_expires_within(last, now);
        let p = self.probe.as_mut().unwrap();
        p.route_expired_in_between = route_expired;
        let dl = p.deadline;
        let early = judged_interval && out.rx_count == 0 && dl.map_or(true, |x| now < x);
        if early {
            p.judge_s(medium, "regular", now, &out.tx, &summary);
        }
        let timer_poll = have && !early;
        p.after_poll(medium, now, out.rx_count, &out.tx, accepts, d_after, &summary, timer_poll);
        if !p.carry.is_empty() {
            let mut all = std::mem::take(&mut p.carry);
            all.append(&mut out.tx);
            out.tx = all;
        }
        self.iface.dirty = false;
        self.sockets.dirty = false;
        out
    }

    pub fn poll_at(&mut self, now: Micros) -> Option<Micros> {
        let d = self.raw_poll_at(now);
        if let Some(p) = self.probe.as_mut() {
            // the driver plans its sleep on this answer: everything it did to the sockets so far is
            // covered by it
            p.note_asked(now, d);
            self.iface.dirty = false;
            self.sockets.dirty = false;
        }
        d
    }
}

pub fn eth_hw(last: u8) -> HardwareAddress {
    HardwareAddress::Ethernet(EthernetAddress([0x02, 0, 0, 0, 0, last]))
}

// ---------------------------------------------------------------- link faults

#[derive(Clone, Copy, Debug, PartialEq)]
pub enum Fate {
    Deliver,
    Drop,
    Dup(u8),
    Corrupt,
}

#[derive(Clone, Debug)]
pub struct FaultProfile {
    /// per-mille probabilities
    pub drop: u32,
    pub dup: u32,
    pub corrupt: u32,
    pub base_latency: Micros,
    pub jitter: Micros,
    /// Gilbert-Elliott burst loss: probability (per mille) to enter / leave the bad state
    pub burst_enter: u32,
    pub burst_leave: u32,
    pub in_burst: bool,
}

impl FaultProfile {
    pub fn reliable(latency: Micros) -> FaultProfile {
        FaultProfile {
            drop: 0,
            dup: 0,
            corrupt: 0,
            base_latency: latency,
            jitter: 0,
            burst_enter: 0,
            burst_leave: 0,
            in_burst: false,
        }
    }
    pub fn random(rng: &mut Rng) -> FaultProfile {
        let class = rng.below(6);
        let (drop, dup, corrupt) = match class {
            0 => (0, 0, 0),
            1 => (rng.range(10, 100) as u32, 0, 0),
            2 => (rng.range(100, 400) as u32, rng.range(0, 50) as u32, 0),
            3 => (rng.range(0, 50) as u32, rng.range(50, 300) as u32, rng.range(0, 30) as u32),
            4 => (rng.range(0, 150) as u32, rng.range(0, 100) as u32, rng.range(10, 150) as u32),
            _ => (rng.range(0, 250) as u32, rng.range(0, 250) as u32, rng.range(0, 100) as u32),
        };
        let base = *rng.pick(&[100i64, 1_000, 5_000, 20_000, 80_000, 300_000]);
        let jitter = match rng.below(4) {
            0 => 0,
            1 => base / 2,
            2 => base * 3,
            _ => *rng.pick(&[1_000i64, 50_000, 400_000, 1_500_000]),
        };
        let bursty = rng.chance(1, 4);
        FaultProfile {
            drop,
            dup,
            corrupt,
            base_latency: base,
            jitter,
            burst_enter: if bursty { rng.range(5, 60) as u32 } else { 0 },
            burst_leave: if bursty { rng.range(50, 400) as u32 } else { 0 },
            in_burst: false,
        }
    }
    pub fn class(&self) -> String {
        format!(
            "{}{}{}{}{}",
            if self.drop > 0 { "L" } else { "-" },
            if self.dup > 0 { "D" } else { "-" },
            if self.corrupt > 0 { "C" } else { "-" },
            if self.jitter > self.base_latency { "R" } else { "-" },
            if self.burst_enter > 0 { "B" } else { "-" }
        )
    }
    /// Decide the fate of one frame: list of (delay, corrupt?) deliveries.
    pub fn decide(&mut self, rng: &mut Rng) -> Vec<(Micros, bool)> {
        if self.burst_enter > 0 {
            if self.in_burst {
                if rng.below(1000) < self.burst_leave as u64 {
                    self.in_burst = false;
                }
            } else if rng.below(1000) < self.burst_enter as u64 {
                self.in_burst = true;
            }
            if self.in_burst {
                return vec![];
            }
        }
        if rng.below(1000) < self.drop as u64 {
            return vec![];
        }
        let copies = if rng.below(1000) < self.dup as u64 { rng.range(2, 4) } else { 1 };
        let mut v = Vec::new();
        for _ in 0..copies {
            let d = self.base_latency + if self.jitter > 0 { rng.range(0, self.jitter as u64) as Micros } else { 0 };
            let c = rng.below(1000) < self.corrupt as u64;
            v.push((d, c));
        }
        v
    }
}

/// Change exactly one byte of the frame (always detected by the Internet checksum
/// when the byte is covered by one).
pub fn corrupt_one_byte(rng: &mut Rng, f: &mut [u8]) {
    if f.is_empty() {
        return;
    }
    let i = rng.usize_below(f.len());
    let x = (rng.below(255) + 1) as u8;
    f[i] ^= x;
}
