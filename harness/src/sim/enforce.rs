//! C08(c) "enforced": corrupted copies of packets addressed to live sockets must be dropped
//! without any observable effect whenever the independent RFC 1071 implementation says that a
//! checksum the stack has to verify no longer verifies; with receive checksumming off the same
//! packets must be accepted.
use super::traffic::*;
use super::*;
use crate::indep::{self, ip, tcp as itcp, Addr};
use crate::indep::x1::{arp, dhcp_v, dns_v, eth, icmp, ndisc, udp as iudp};
use crate::util::json::Json;
use crate::util::rng::{stream_byte, Rng};
use crate::util::run::{CaseOut, Ctx, Violation};
use smoltcp::iface::SocketHandle;
use smoltcp::phy::{Checksum, ChecksumCapabilities};
use smoltcp::socket::{dhcpv4, dns, icmp as sicmp, tcp, udp};
use smoltcp::wire::DnsQueryType;

#[derive(Clone, Copy, Debug, PartialEq)]
pub enum Kind {
    Echo,
    Udp,
    TcpSyn,
    TcpData,
    /// UDP datagram in IPv4 fragments
    Frag,
    /// echo reply for an icmp::Socket bound to the identifier
    EchoReply,
    /// OFFER for a dhcpv4::Socket that has sent a DISCOVER (handled before the generic UDP path)
    DhcpOffer,
    /// ACK for a dhcpv4::Socket that has sent a REQUEST
    DhcpAck,
    /// response for a dns::Socket with a pending query
    DnsResponse,
}

impl Kind {
    fn name(&self) -> &'static str {
        match self {
            Kind::Echo => "echo-request",
            Kind::Udp => "udp-to-bound-socket",
            Kind::TcpSyn => "tcp-syn-to-listener",
            Kind::TcpData => "tcp-data-to-established",
            Kind::Frag => "udp-in-ipv4-fragments",
            Kind::EchoReply => "echo-reply-to-icmp-socket",
            Kind::DhcpOffer => "dhcp-offer-to-dhcp-socket",
            Kind::DhcpAck => "dhcp-ack-to-dhcp-socket",
            Kind::DnsResponse => "dns-response-to-dns-socket",
        }
    }
    fn is_dhcp(&self) -> bool {
        matches!(self, Kind::DhcpOffer | Kind::DhcpAck)
    }
}

/// What the scripted peer learned while bringing the target into the state the probe needs.
#[derive(Clone, Debug, Default)]
struct Prep {
    tcp_seq: Option<(u32, u32)>,
    dhcp_xid: u32,
    dns_query: Vec<u8>,
    dns_port: u16,
}

const DHCP_SERVER: [u8; 4] = [192, 168, 69, 254];
const DHCP_LEASED: [u8; 4] = [192, 168, 69, 77];

struct Target {
    node: Node,
    wrap: Wrap,
    tcp_h: SocketHandle,
    udp_h: SocketHandle,
    icmp_h: SocketHandle,
    dns_h: Option<(SocketHandle, dns::QueryHandle)>,
    t: Micros,
}

const PEER: u8 = 2;

fn own_addr(v6: bool) -> Addr {
    if v6 {
        Addr::V6(ula_v6(1))
    } else {
        Addr::V4(v4(1))
    }
}
fn peer_addr(v6: bool) -> Addr {
    if v6 {
        Addr::V6(ula_v6(PEER))
    } else {
        Addr::V4(v4(PEER))
    }
}

impl Target {
    fn new(medium: Medium, v6: bool, caps: &ChecksumCapabilities, seed: u64, verbose: bool, kind: Kind) -> Target {
        let mtu = if medium == Medium::Ethernet { 1514 } else if medium == Medium::Ieee802154 { 1280 } else { 1500 };
        let addrs = if kind.is_dhcp() {
            Vec::new()
        } else if v6 {
            vec![cidr(&Addr::V6(ll_v6(medium, 1)), 64), cidr(&Addr::V6(ula_v6(1)), 64)]
        } else {
            vec![cidr(&Addr::V4(v4(1)), 24)]
        };
        let mut node = Node::new("T", medium, mtu, "1500", caps.clone(), hw_for(medium, 1), &addrs, seed, 0x00, false, Focus::Checksums);
        node.verbose = verbose;
        node.scenario = "enforced".into();
        let mut ts = tcp::Socket::new(tcp::SocketBuffer::new(vec![0u8; 4096]), tcp::SocketBuffer::new(vec![0u8; 4096]));
        ts.set_ack_delay(None);
        ts.listen(80).unwrap();
        let tcp_h = node.host.sockets.add(ts);
        let mut us = udp::Socket::new(
            udp::PacketBuffer::new(vec![udp::PacketMetadata::EMPTY; 16], vec![0u8; 8192]),
            udp::PacketBuffer::new(vec![udp::PacketMetadata::EMPTY; 4], vec![0u8; 2048]),
        );
        us.bind(5000).unwrap();
        let udp_h = node.host.sockets.add(us);
        let mut is = sicmp::Socket::new(
            sicmp::PacketBuffer::new(vec![sicmp::PacketMetadata::EMPTY; 16], vec![0u8; 8192]),
            sicmp::PacketBuffer::new(vec![sicmp::PacketMetadata::EMPTY; 4], vec![0u8; 2048]),
        );
        is.bind(sicmp::Endpoint::Ident(0x4242)).unwrap();
        let icmp_h = node.host.sockets.add(is);
        if kind.is_dhcp() {
            let h = node.host.sockets.add(dhcpv4::Socket::new());
            node.dhcp = Some(h);
        }
        let mut t = Target { node, wrap: Wrap::new(medium), tcp_h, udp_h, icmp_h, dns_h: None, t: 1000 };
        if !kind.is_dhcp() {
            t.introduce_peer(v6);
        }
        t
    }

    /// make the peer's link-layer address known so that replies are not replaced by ARP / NS
    fn introduce_peer(&mut self, v6: bool) {
        let mut sink = CaseOut::default();
        match self.node.medium {
            Medium::Ip => {}
            Medium::Ethernet if !v6 => {
                let a = arp::build(&arp::Arp { op: arp::OP_REQUEST, sha: mac(PEER), spa: v4(PEER), tha: [0; 6], tpa: v4(1) });
                self.node.host.dev.rx.push_back(eth::build(&eth::BROADCAST, &mac(PEER), eth::ETHERTYPE_ARP, &a));
            }
            m => {
                let o = ula_v6(1);
                let mut sol = [0xff, 2, 0, 0, 0, 0, 0, 0, 0, 0, 0, 1, 0xff, 0, 0, 0];
                sol[13..].copy_from_slice(&o[13..]);
                let ll: Vec<u8> = if m == Medium::Ethernet { mac(PEER).to_vec() } else { eui(PEER).to_vec() };
                let ns = ndisc::build(&peer_addr(true), &Addr::V6(sol), ndisc::NS, 0, &o, Some(&ll));
                let pkt = ip::build(&peer_addr(true), &Addr::V6(sol), ip::PROTO_ICMPV6, 255, &ns);
                for f in self.wrap.frames(&pkt, None, PEER) {
                    self.node.host.dev.rx.push_back(f);
                }
            }
        }
        self.node.poll(self.t, &mut sink);
    }

    /// every observable socket quantity
    fn snapshot(&mut self) -> String {
        let s = self.node.host.sockets.get::<tcp::Socket>(self.tcp_h);
        let a = format!(
            "tcp[state={} local={:?} remote={:?} send_queue={} recv_queue={} can_recv={} can_send={} may_recv={} may_send={}]",
            s.state(),
            s.local_endpoint(),
            s.remote_endpoint(),
            s.send_queue(),
            s.recv_queue(),
            s.can_recv(),
            s.can_send(),
            s.may_recv(),
            s.may_send()
        );
        let u = self.node.host.sockets.get::<udp::Socket>(self.udp_h);
        let b = format!("udp[recv_queue={} can_recv={} send_queue={}]", u.recv_queue(), u.can_recv(), u.send_queue());
        let i = self.node.host.sockets.get::<sicmp::Socket>(self.icmp_h);
        let c = format!("icmp[recv_queue={} can_recv={}]", i.recv_queue(), i.can_recv());
        let mut extra = String::new();
        if self.node.dhcp.is_some() {
            // the DHCP client shows its state through events and through the deadline it asks for
            extra.push_str(&format!(" dhcp[lease={} event={:?} poll_at={:?}]", self.node.dhcp_lease, self.node.dhcp_event, self.node.host.poll_at(self.t)));
        }
        if let Some((h, q)) = self.dns_h {
            let pending = matches!(self.node.host.sockets.get_mut::<dns::Socket>(h).get_query_result(q), Err(dns::GetQueryResultError::Pending));
            // (a finished query is consumed by this call: the case stops at the first change anyway)
            let pa = if pending { format!("{:?}", self.node.host.poll_at(self.t)) } else { "-".into() };
            extra.push_str(&format!(" dns[query_pending={} poll_at={}]", pending, pa));
        }
        format!("{} {} {}{}", a, b, c, extra)
    }

    /// deliver IP packets, poll once; returns the frames the node transmitted
    fn deliver(&mut self, packets: &[Vec<u8>], out: &mut CaseOut) -> Vec<Vec<u8>> {
        for p in packets {
            for f in self.wrap.frames(p, Some(1), PEER) {
                self.node.host.dev.rx.push_back(f);
            }
        }
        self.node.poll(self.t, out)
    }

    /// three-way handshake driven by the scripted peer; returns (peer seq, peer ack) for the next segment
    fn establish(&mut self, v6: bool, sport: u16, out: &mut CaseOut) -> Option<(u32, u32)> {
        let (src, dst) = (peer_addr(v6), own_addr(v6));
        let iss = 0x1000_0000u32;
        let syn = itcp::Seg { sport, dport: 80, seq: iss, flags: itcp::SYN, wnd: 8192, mss: Some(1000), ..Default::default() };
        let p = ip::build(&src, &dst, ip::PROTO_TCP, 64, &itcp::build(&src, &dst, &syn));
        let frames = self.deliver(&[p], out);
        let mut their_seq = None;
        for f in frames {
            let Some(pk) = unwrap_ip(self.node.medium, &f) else { continue };
            let Ok(i) = ip::parse(&pk, false) else { continue };
            if i.proto != ip::PROTO_TCP {
                continue;
            }
            if let Ok(s) = itcp::parse(&i.src, &i.dst, &pk[i.payload_off..i.payload_off + i.payload_len]) {
                if s.is(itcp::SYN) && s.is(itcp::ACK) {
                    their_seq = Some(s.seq);
                }
            }
        }
        let y = their_seq?;
        let ack = itcp::Seg { sport, dport: 80, seq: iss.wrapping_add(1), ack: y.wrapping_add(1), flags: itcp::ACK, wnd: 8192, ..Default::default() };
        let p = ip::build(&src, &dst, ip::PROTO_TCP, 64, &itcp::build(&src, &dst, &ack));
        self.deliver(&[p], out);
        if self.node.host.sockets.get::<tcp::Socket>(self.tcp_h).state() != tcp::State::Established {
            return None;
        }
        Some((iss.wrapping_add(1), y.wrapping_add(1)))
    }

    /// UDP datagrams the target has just transmitted: (sport, dport, payload)
    fn sent_udp(&self, frames: &[Vec<u8>]) -> Vec<(u16, u16, Vec<u8>)> {
        let mut v = Vec::new();
        for f in frames {
            let Some(p) = unwrap_ip(self.node.medium, f) else { continue };
            let Ok(i) = ip::parse(&p, false) else { continue };
            if i.proto != ip::PROTO_UDP {
                continue;
            }
            if let Ok(u) = iudp::parse(&p[i.payload_off..i.payload_off + i.payload_len]) {
                v.push((u.sport, u.dport, u.payload.to_vec()));
            }
        }
        v
    }

    /// bring the target into the state in which the probe of `kind` is alive
    fn prepare(&mut self, kind: Kind, v6: bool, sport: u16, out: &mut CaseOut) -> Option<Prep> {
        let mut prep = Prep::default();
        match kind {
            Kind::TcpData => prep.tcp_seq = Some(self.establish(v6, sport, out)?),
            Kind::DhcpOffer | Kind::DhcpAck => {
                let frames = self.node.poll(self.t, out);
                let d = self.sent_udp(&frames).into_iter().find(|(s, d, _)| *s == 68 && *d == 67)?;
                let disc = dhcp_v::parse(&d.2).ok()?;
                prep.dhcp_xid = disc.xid;
                if kind == Kind::DhcpAck {
                    let offer = dhcp_reply(disc.xid, dhcp_v::OFFER);
                    let frames = self.deliver(&[offer], out);
                    let r = self.sent_udp(&frames).into_iter().find(|(s, d, _)| *s == 68 && *d == 67)?;
                    let req = dhcp_v::parse(&r.2).ok()?;
                    if req.msg_type != Some(dhcp_v::REQUEST) {
                        return None;
                    }
                    prep.dhcp_xid = req.xid;
                }
            }
            Kind::DnsResponse => {
                let h = self.node.host.sockets.add(dns::Socket::new(&[peer_addr(v6).to_smol()], Vec::new()));
                {
                    let host = &mut self.node.host;
                    let cx = host.iface.context();
                    let q = host.sockets.get_mut::<dns::Socket>(h).start_query(cx, "a.io", DnsQueryType::A).ok()?;
                    self.dns_h = Some((h, q));
                }
                let frames = self.node.poll(self.t, out);
                let q = self.sent_udp(&frames).into_iter().find(|(_, d, _)| *d == 53)?;
                prep.dns_port = q.0;
                prep.dns_query = q.2;
            }
            _ => {}
        }
        Some(prep)
    }
}

fn dhcp_reply(xid: u32, ty: u8) -> Vec<u8> {
    let opts: Vec<(u8, Vec<u8>)> = vec![(54, DHCP_SERVER.to_vec()), (51, 3600u32.to_be_bytes().to_vec()), (1, vec![255, 255, 255, 0]), (3, vec![192, 168, 69, 253])];
    let m = dhcp_v::build_reply(xid, &mac(1), &DHCP_LEASED, &DHCP_SERVER, ty, &opts);
    let (src, dst) = (Addr::V4(DHCP_SERVER), Addr::V4([255, 255, 255, 255]));
    ip::build(&src, &dst, ip::PROTO_UDP, 64, &iudp::build(&src, &dst, 67, 68, &m))
}

/// The probe packets of one kind (one IP packet, or the fragments of one).
fn base_packets(kind: Kind, v6: bool, tag: u64, size: usize, prep: &Prep, sport: u16) -> Vec<Vec<u8>> {
    let tcp_seq = prep.tcp_seq;
    let (src, dst) = (peer_addr(v6), own_addr(v6));
    let data: Vec<u8> = (0..size).map(|i| stream_byte(tag, i as u64)).collect();
    match kind {
        Kind::Echo => {
            if v6 {
                vec![ip::build(&src, &dst, ip::PROTO_ICMPV6, 64, &icmp::build_v6_echo(&src, &dst, true, 0x4242, 1, &data))]
            } else {
                vec![ip::build(&src, &dst, ip::PROTO_ICMP, 64, &icmp::build_v4_echo(true, 0x4242, 1, &data))]
            }
        }
        Kind::Udp => vec![ip::build(&src, &dst, ip::PROTO_UDP, 64, &iudp::build(&src, &dst, sport, 5000, &data))],
        Kind::TcpSyn => {
            let syn = itcp::Seg { sport, dport: 80, seq: 0x2000_0000, flags: itcp::SYN, wnd: 4096, mss: Some(536), ..Default::default() };
            vec![ip::build(&src, &dst, ip::PROTO_TCP, 64, &itcp::build(&src, &dst, &syn))]
        }
        Kind::TcpData => {
            let (seq, ack) = tcp_seq.unwrap_or((0, 0));
            let seg = itcp::Seg { sport, dport: 80, seq, ack, flags: itcp::ACK | itcp::PSH, wnd: 8192, payload: data, ..Default::default() };
            vec![ip::build(&src, &dst, ip::PROTO_TCP, 64, &itcp::build(&src, &dst, &seg))]
        }
        Kind::EchoReply => {
            if v6 {
                vec![ip::build(&src, &dst, ip::PROTO_ICMPV6, 64, &icmp::build_v6_echo(&src, &dst, false, 0x4242, 9, &data))]
            } else {
                vec![ip::build(&src, &dst, ip::PROTO_ICMP, 64, &icmp::build_v4_echo(false, 0x4242, 9, &data))]
            }
        }
        Kind::DhcpOffer => vec![dhcp_reply(prep.dhcp_xid, dhcp_v::OFFER)],
        Kind::DhcpAck => vec![dhcp_reply(prep.dhcp_xid, dhcp_v::ACK)],
        Kind::DnsResponse => {
            let resp = dns_v::build_response(&prep.dns_query, 0, &[(1, vec![93, 184, 216, 34])]).unwrap_or_default();
            vec![ip::build(&src, &dst, ip::PROTO_UDP, 64, &iudp::build(&src, &dst, 53, prep.dns_port, &resp))]
        }
        Kind::Frag => {
            let u = iudp::build(&src, &dst, sport, 5000, &data);
            let (Addr::V4(s4), Addr::V4(d4)) = (src, dst) else { unreachable!() };
            let cut = ((u.len() / 2) / 8 * 8).max(8).min(u.len());
            let id = (tag & 0xffff) as u16 | 1;
            if cut >= u.len() {
                vec![ip::build_v4(&s4, &d4, ip::PROTO_UDP, 64, id, false, false, 0, &u)]
            } else {
                vec![
                    ip::build_v4(&s4, &d4, ip::PROTO_UDP, 64, id, false, true, 0, &u[..cut]),
                    ip::build_v4(&s4, &d4, ip::PROTO_UDP, 64, id, false, false, cut, &u[cut..]),
                ]
            }
        }
    }
}

/// Which of the checksums that the stack must verify (per `caps`) fail for this (possibly fragmented) input?
/// `None`: the independent parser cannot even locate the checksummed regions (not judged).
fn failing_checksums(packets: &[Vec<u8>], caps: &ChecksumCapabilities) -> Option<Vec<&'static str>> {
    let mut bad = Vec::new();
    let mut infos = Vec::new();
    for p in packets {
        let i = ip::parse(p, false).ok()?;
        if i.src.is_v4() && caps.ipv4.rx() && !i.v4_header_ok {
            bad.push("ipv4-header");
        }
        infos.push(i);
    }
    if !bad.is_empty() {
        // a packet (or fragment) with a bad header checksum is dropped by itself; whatever the others carry cannot complete
        return Some(bad);
    }
    // transport part: of the single packet, or of the reassembled fragments (only if they still fit together)
    let (info, payload): (ip::IpInfo, Vec<u8>) = if packets.len() == 1 && !infos[0].more_frags && infos[0].frag_offset == 0 {
        let i = infos[0].clone();
        let pl = packets[0][i.payload_off..i.payload_off + i.payload_len].to_vec();
        (i, pl)
    } else {
        let first = infos.iter().position(|i| i.frag_offset == 0)?;
        let key = (infos[first].src, infos[first].dst, infos[first].proto, infos[first].ident);
        let mut total = None;
        let mut parts: Vec<(usize, &[u8])> = Vec::new();
        for (i, p) in infos.iter().zip(packets) {
            if (i.src, i.dst, i.proto, i.ident) != key {
                return None;
            }
            if !i.more_frags {
                total = Some(i.frag_offset + i.payload_len);
            }
            parts.push((i.frag_offset, &p[i.payload_off..i.payload_off + i.payload_len]));
        }
        let total = total?;
        let mut buf = vec![0u8; total];
        let mut have = vec![false; total];
        for (o, d) in parts {
            if o + d.len() > total {
                return None;
            }
            buf[o..o + d.len()].copy_from_slice(d);
            for h in &mut have[o..o + d.len()] {
                *h = true;
            }
        }
        if !have.iter().all(|h| *h) {
            return None;
        }
        (infos[first].clone(), buf)
    };
    match info.proto {
        ip::PROTO_UDP if caps.udp.rx() => {
            if payload.len() < 8 {
                return None;
            }
            let l = indep::be16(&payload, 4) as usize;
            if l < 8 || l > payload.len() {
                return None;
            }
            match iudp::verifies(&info.src, &info.dst, &payload[..l]) {
                Some(true) => {}
                Some(false) => bad.push("udp"),
                None => {
                    // checksum field 0: "no checksum" over IPv4 (RFC 768), forbidden over IPv6 (RFC 8200 §8.1)
                    if !info.src.is_v4() {
                        bad.push("udp-zero-over-ipv6");
                    }
                }
            }
        }
        ip::PROTO_TCP if caps.tcp.rx() => {
            if payload.len() < 20 {
                return None;
            }
            if !indep::cksum::transport_verifies(&info.src, &info.dst, ip::PROTO_TCP, &payload) {
                bad.push("tcp");
            }
        }
        ip::PROTO_ICMP if info.src.is_v4() && caps.icmpv4.rx() => {
            if payload.len() < 4 {
                return None;
            }
            if !icmp::v4_verifies(&payload) {
                bad.push("icmpv4");
            }
        }
        ip::PROTO_ICMPV6 if !info.src.is_v4() && caps.icmpv6.rx() => {
            if payload.len() < 4 {
                return None;
            }
            if !icmp::v6_verifies(&info.src, &info.dst, &payload) {
                bad.push("icmpv6");
            }
        }
        _ => {}
    }
    Some(bad)
}

/// Bits that the 6LoWPAN encoding of the scripted peer does not carry (they are rebuilt by the receiver):
/// the IPv6 payload length, and with NHC the UDP length.
fn lost_in_6lowpan(medium: Medium, nhc: bool, bit: usize) -> bool {
    medium == Medium::Ieee802154 && ((32..48).contains(&bit) || (nhc && (352..368).contains(&bit)))
}

fn flip(packets: &[Vec<u8>], which: usize, bits: &[usize]) -> Vec<Vec<u8>> {
    let mut v = packets.to_vec();
    for b in bits {
        v[which][b / 8] ^= 0x80 >> (b % 8);
    }
    v
}

/// rx_on: the probe's own transport checksum is verified; the others (incl. the IPv4 header) are
/// verified or ignored at random.  rx off: nothing is verified.
fn caps_for(rng: &mut Rng, rx_on: bool, kind: Kind, v6: bool) -> ChecksumCapabilities {
    let mut c = ChecksumCapabilities::default();
    let pick = |rng: &mut Rng, forced: bool| -> Checksum {
        let on = rx_on && (forced || rng.chance(3, 4));
        match (on, rng.bool()) {
            (true, true) => Checksum::Both,
            (true, false) => Checksum::Rx,
            (false, true) => Checksum::Tx,
            (false, false) => Checksum::None,
        }
    };
    c.ipv4 = pick(rng, false);
    c.udp = pick(rng, matches!(kind, Kind::Udp | Kind::Frag | Kind::DhcpOffer | Kind::DhcpAck | Kind::DnsResponse));
    c.tcp = pick(rng, matches!(kind, Kind::TcpSyn | Kind::TcpData));
    c.icmpv4 = pick(rng, matches!(kind, Kind::Echo | Kind::EchoReply) && !v6);
    c.icmpv6 = pick(rng, matches!(kind, Kind::Echo | Kind::EchoReply) && v6);
    c
}

fn hexs(p: &[Vec<u8>]) -> String {
    p.iter().map(|x| hex(x)).collect::<Vec<_>>().join(" + ")
}

pub fn enforced_case(idx: u64, rng: &mut Rng, ctx: &Ctx) -> CaseOut {
    let mut out = CaseOut::default();
    let mut v6 = rng.bool();
    let kinds: &[Kind] = if v6 {
        &[Kind::Echo, Kind::Udp, Kind::TcpSyn, Kind::TcpData, Kind::EchoReply, Kind::DnsResponse]
    } else {
        &[Kind::Echo, Kind::Udp, Kind::TcpSyn, Kind::TcpData, Kind::Frag, Kind::EchoReply, Kind::DnsResponse, Kind::DhcpOffer, Kind::DhcpAck]
    };
    let kind = kinds[((idx / 5) % kinds.len() as u64) as usize];
    if kind.is_dhcp() {
        v6 = false;
    }
    let medium = if kind.is_dhcp() {
        Medium::Ethernet
    } else if v6 {
        *rng.pick(&[Medium::Ethernet, Medium::Ip, Medium::Ieee802154])
    } else {
        *rng.pick(&[Medium::Ethernet, Medium::Ip])
    };
    let rx_on = idx % 5 != 4;
    // inbound UDP over 6LoWPAN: header carried verbatim or compressed with LOWPAN_NHC
    let nhc = medium == Medium::Ieee802154 && rng.bool();
    let caps = caps_for(rng, rx_on, kind, v6);
    let tag = rng.next_u64();
    let sport = 1024 + rng.range(0, 60000) as u16;
    // 6LoWPAN input is sent unfragmented by the scripted peer: keep the probe inside one 802.15.4 frame there
    let max_size = if medium == Medium::Ieee802154 { 24 } else { 96 };
    let size = match kind {
        Kind::TcpSyn | Kind::DhcpOffer | Kind::DhcpAck | Kind::DnsResponse => 0,
        Kind::Frag => rng.urange(24, 200),
        _ => *rng.pick(&[0usize, 1, 2, 7, 8, 33, max_size]).min(&max_size),
    };
    let size = if kind == Kind::TcpData && size == 0 { 5 } else { size };
    let famname = if v6 { "v6" } else { "v4" };
    let label = format!("{}/{}/{}", kind.name(), famname, medium_name(medium));
    out.class(format!("probe:{}{}/{}", label, if nhc { "+nhc" } else { "" }, if rx_on { "rx-verify" } else { "rx-ignore" }));
    if nhc && matches!(kind, Kind::Udp | Kind::DnsResponse) {
        out.count("probes_with_nhc_compressed_udp", 1);
    }

    let seed = rng.next_u64();
    let fresh = |out: &mut CaseOut| -> Option<(Target, Prep)> {
        let mut t = Target::new(medium, v6, &caps, seed, ctx.verbose, kind);
        t.wrap.udp_nhc = nhc;
        let prep = t.prepare(kind, v6, sport, out)?;
        Some((t, prep))
    };

    // ---- reference: the unmodified probe is alive (it has an effect)
    let Some((mut reference, prep)) = fresh(&mut out) else {
        out.harness_errors.push(format!("could not bring the target into the state needed for {}", label));
        return out;
    };
    // (the node seed is fixed per case, so every fresh target repeats the same identifiers: xid, ports, sequence numbers)
    let base = base_packets(kind, v6, tag, size, &prep, sport);
    let before = reference.snapshot();
    let ref_frames = reference.deliver(&base, &mut out);
    let after = reference.snapshot();
    if ref_frames.is_empty() && before == after {
        out.harness_errors.push(format!("the unmodified probe {} had no effect: {}", label, hexs(&base)));
        return out;
    }
    out.count("probes_with_confirmed_effect", 1);
    let ref_effect = (ref_frames.len(), after.clone());

    // regions: every bit of every packet (IP header + transport); pseudo-header fields are part of the IP header
    let total_bits: Vec<usize> = base.iter().map(|p| p.len() * 8).collect();

    if rx_on {
        // one long-lived target: every mutant must leave it untouched
        let Some((mut tgt, _)) = fresh(&mut out) else { return out };
        let quiet = tgt.snapshot();
        let run = |tgt: &mut Target, which: usize, bits: &[usize], out: &mut CaseOut| -> bool {
            let mutant = flip(&base, which, bits);
            let Some(failing) = failing_checksums(&mutant, &caps) else {
                out.count("mutants_not_judged_structure_destroyed", 1);
                return true;
            };
            if failing.is_empty() {
                out.count("mutants_still_verifying_not_delivered", 1);
                return true;
            }
            out.evals += 1;
            out.count("corrupted_packets_delivered", 1);
            if kind == Kind::Frag {
                // let the reassembly buffer forget the valid fragments of earlier mutants (timeout 60 s),
                // otherwise a valid fragment delivered before legitimately completes the datagram
                tgt.t += 61_000_000;
                let mut sink = CaseOut::default();
                tgt.node.poll(tgt.t, &mut sink);
            }
            for f in &failing {
                out.count(&format!("corrupted_{}", f), 1);
            }
            let frames = tgt.deliver(&mutant, out);
            let now = tgt.snapshot();
            if !frames.is_empty() || now != quiet {
                let what = if !frames.is_empty() { "answered" } else { "changed-socket-state" };
                let sig = format!("checksum-not-enforced:{}:{}:{}", failing[0], kind.name(), what);
                let desc = format!(
                    "{} probe ({}, checksum capabilities {}) with bit(s) {:?} of packet {} flipped: the {} checksum no longer verifies under RFC 1071, yet the stack {}. input: {} (unmodified: {}); sockets before: {}; after: {}; frames sent: {}",
                    label,
                    famname,
                    caps_label(&caps),
                    bits,
                    which,
                    failing.join("+"),
                    if !frames.is_empty() { "transmitted a frame in response" } else { "changed socket state" },
                    hexs(&mutant),
                    hexs(&base),
                    quiet,
                    now,
                    frames.iter().map(|f| hex(f)).collect::<Vec<_>>().join(" , ")
                );
                if ctx.verbose {
                    println!("VIOLATION {}", desc);
                }
                out.violate(Violation::new(sig, desc).with(Json::obj().set("probe", Json::s(label.clone())).set("bits", Json::s(format!("{:?}", bits))).set("input", Json::s(hexs(&mutant)))));
                return false;
            }
            true
        };
        // (after a violation the target is no longer pristine: the case stops testing it)
        let mut pristine = true;
        // every single bit
        'outer: for (which, nbits) in total_bits.iter().enumerate() {
            for b in 0..*nbits {
                // the IPv6 payload-length field is not carried by 6LoWPAN IPHC (it is rebuilt from the frame size)
                if lost_in_6lowpan(medium, nhc, b) {
                    continue;
                }
                if !run(&mut tgt, which, &[b], &mut out) {
                    pristine = false;
                    break 'outer;
                }
                out.count("single_bit_mutants", 1);
            }
        }
        // double bits: all pairs for tiny packets, sampled otherwise
        let which = rng.usize_below(base.len());
        let nb = total_bits[which];
        if !pristine {
            // nothing more on this target
        } else if nb <= 28 * 8 && ctx.thorough() {
            'p: for a in 0..nb {
                for b in a + 1..nb {
                    if !run(&mut tgt, which, &[a, b], &mut out) {
                        break 'p;
                    }
                    out.count("double_bit_mutants", 1);
                }
            }
        } else {
            for _ in 0..ctx.n(300, 3000) {
                let a = rng.usize_below(nb);
                // half of the pairs: same bit position in another 16-bit word (the cancelling pattern)
                let b = if rng.bool() { (a + 16 * rng.urange(1, (nb / 16).max(2) - 1)) % nb } else { rng.usize_below(nb) };
                if a == b || lost_in_6lowpan(medium, nhc, a) || lost_in_6lowpan(medium, nhc, b) {
                    continue;
                }
                if !run(&mut tgt, which, &[a, b], &mut out) {
                    break;
                }
                out.count("double_bit_mutants", 1);
            }
        }
        // the exemption, exactly: checksum field 0 is "no checksum" over IPv4 and must be delivered; over IPv6 it must be dropped
        if pristine && matches!(kind, Kind::Udp | Kind::DnsResponse | Kind::DhcpOffer | Kind::DhcpAck) {
            let mut z = base.clone();
            let i = ip::parse(&z[0], false).unwrap();
            z[0][i.payload_off + 6] = 0;
            z[0][i.payload_off + 7] = 0;
            let Some((mut t2, _)) = fresh(&mut out) else { return out };
            let b4 = t2.snapshot();
            let frames = t2.deliver(&z, &mut out);
            let aft = t2.snapshot();
            out.evals += 1;
            if v6 {
                out.count("udp6_zero_checksum_probes", 1);
                if !frames.is_empty() || aft != b4 {
                    out.violate(
                        Violation::new(
                            &format!("checksum-not-enforced:udp-zero-over-ipv6:{}:changed-socket-state", kind.name()),
                            format!(
                                "UDP over IPv6 with checksum field 0 (forbidden by RFC 8200 §8.1; only UDP over IPv4 may omit the checksum) was accepted with receive checksumming on ({}, {}): input {}; sockets before: {}; after: {}; frames sent: {}",
                                medium_name(medium),
                                caps_label(&caps),
                                hexs(&z),
                                b4,
                                aft,
                                frames.len()
                            ),
                        )
                        .with(Json::obj().set("input", Json::s(hexs(&z)))),
                    );
                }
            } else {
                out.count("udp4_zero_checksum_probes", 1);
                if aft == b4 {
                    out.violate(
                        Violation::new(
                            format!("checksum-exemption-not-honoured:udp-zero-over-ipv4:{}:dropped", kind.name()),
                            format!("UDP over IPv4 with checksum field 0 (RFC 768: no checksum) had no effect on the socket it is addressed to: input {}; sockets: {}", hexs(&z), aft),
                        )
                        .with(Json::obj().set("input", Json::s(hexs(&z)))),
                    );
                }
            }
        }
    } else {
        // receive checksumming off: a wrong checksum FIELD must not matter.  Flip every bit of each checksum
        // field (the content is otherwise the reference content) and expect exactly the reference effect.
        let mut fields: Vec<(usize, usize, &'static str)> = Vec::new(); // (packet, byte offset, name)
        for (w, p) in base.iter().enumerate() {
            let i = ip::parse(p, false).unwrap();
            if !v6 {
                fields.push((w, 10, "ipv4-header"));
            }
            if i.frag_offset == 0 {
                match i.proto {
                    ip::PROTO_UDP => fields.push((w, i.payload_off + 6, "udp")),
                    ip::PROTO_TCP => fields.push((w, i.payload_off + 16, "tcp")),
                    ip::PROTO_ICMP | ip::PROTO_ICMPV6 => fields.push((w, i.payload_off + 2, "icmp")),
                    _ => {}
                }
            }
        }
        'f: for (w, off, name) in fields {
            for bit in 0..16 {
                let mutant = flip(&base, w, &[off * 8 + bit]);
                // (a UDP checksum that becomes 0 is simply "absent"; also fine)
                let Some((mut t2, _)) = fresh(&mut out) else { return out };
                let frames = t2.deliver(&mutant, &mut out);
                let aft = t2.snapshot();
                out.evals += 1;
                out.count("wrong_checksum_field_with_rx_off", 1);
                if (frames.len(), aft.clone()) != ref_effect {
                    out.violate(
                        Violation::new(
                            format!("checksum-setting-not-honoured:{}:{}:not-accepted", name, kind.name()),
                            format!(
                                "{} probe with receive checksumming OFF ({}) and bit {} of the {} checksum field flipped must behave like the unmodified probe ({} frame(s), sockets {}), but: {} frame(s), sockets {}; input {}",
                                label,
                                caps_label(&caps),
                                bit,
                                name,
                                ref_effect.0,
                                ref_effect.1,
                                frames.len(),
                                aft,
                                hexs(&mutant)
                            ),
                        )
                        .with(Json::obj().set("input", Json::s(hexs(&mutant)))),
                    );
                    break 'f;
                }
            }
        }
    }
    out.count("enforced_cases", 1);
    if idx == 0 {
        out.sample = Some(Json::obj().set("probe", Json::s(label)).set("input", Json::s(hexs(&base))).set("reference_effect", Json::s(format!("{} frame(s); {}", ref_effect.0, ref_effect.1))));
    }
    out
}
