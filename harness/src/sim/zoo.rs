//! The "socket zoo": one interface per medium (Ethernet, raw IP, IEEE 802.15.4 /
//! 6LoWPAN) with every kind of socket open and in an interesting state, a tiny
//! application that keeps the sockets alive, a record of everything the stack
//! emitted (`Learned`, used by the reply generator), the wall-clock watchdog
//! plumbing, and the liveness PROBE of property C03.
//!
//! Identities.  The interface owns the "B" addresses of `gen::corpus`
//! (MAC_B, 192.168.1.2, fe80::2, 2001:db8::2, LL_EXT_B) so that every packet of
//! the well-formed corpus is addressed to it.  Fuzz traffic comes from the
//! peers A, C and D.  The probe comes from an identity (`PROBE`) that no
//! generator ever uses, so neither ARP/NDISC rate limits nor challenge-ACK
//! limits nor a poisoned neighbour entry can explain a missing answer.
use crate::gen::corpus::{LL_EXT_A, LL_EXT_B, MAC_A, MAC_B, V4A, V4B, V4M, V6A, V6B, V6G, V6H};
use crate::indep::{self, cksum, Addr};
use crate::sim::{checksum_caps, inst, Host, Micros, SimDevice, TxRec};
use crate::util::rng::Rng;
use crate::util::run::{catch, CaseOut, PanicInfo, Violation};
use smoltcp::iface::{Config, SocketHandle};
use smoltcp::phy::Medium;
use smoltcp::socket::{dhcpv4, dns, icmp, raw, tcp, udp};
use smoltcp::wire::*;
use std::result::Result;
use std::sync::{mpsc, Arc, Mutex};

// ---------------------------------------------------------------- identities

#[derive(Clone, Copy, PartialEq, Eq, Debug)]
pub enum Med {
    Eth,
    Ip,
    Lowpan,
}

impl Med {
    pub fn name(&self) -> &'static str {
        match self {
            Med::Eth => "ethernet",
            Med::Ip => "ip",
            Med::Lowpan => "ieee802154",
        }
    }
    pub fn medium(&self) -> Medium {
        match self {
            Med::Eth => Medium::Ethernet,
            Med::Ip => Medium::Ip,
            Med::Lowpan => Medium::Ieee802154,
        }
    }
    pub const ALL: [Med; 3] = [Med::Eth, Med::Ip, Med::Lowpan];
}

#[derive(Clone, Copy, Debug)]
pub struct Peer {
    pub mac: EthernetAddress,
    pub ext: [u8; 8],
    pub short: [u8; 2],
    pub v4: Ipv4Address,
    pub ll6: Ipv6Address,
    pub g6: Ipv6Address,
}

pub const PEER_A: Peer = Peer { mac: MAC_A, ext: LL_EXT_A, short: [0x12, 0x34], v4: V4A, ll6: V6A, g6: V6G };
pub const PEER_C: Peer = Peer {
    mac: EthernetAddress([0x02, 0, 0, 0, 0, 0x03]),
    ext: [0x02, 0x33, 0x33, 0x33, 0x33, 0x33, 0x33, 0x03],
    short: [0x00, 0x03],
    v4: Ipv4Address::new(192, 168, 1, 3),
    ll6: Ipv6Address::new(0xfe80, 0, 0, 0, 0, 0, 0, 3),
    g6: Ipv6Address::new(0x2001, 0xdb8, 0, 0, 0, 0, 0, 3),
};
pub const PEER_D: Peer = Peer {
    mac: EthernetAddress([0x02, 0, 0, 0, 0, 0x04]),
    ext: [0x02, 0x44, 0x44, 0x44, 0x44, 0x44, 0x44, 0x04],
    short: [0x00, 0x04],
    v4: Ipv4Address::new(192, 168, 1, 4),
    ll6: Ipv6Address::new(0xfe80, 0, 0, 0, 0, 0, 0, 4),
    g6: Ipv6Address::new(0x2001, 0xdb8, 0, 0, 0, 0, 0, 4),
};
pub const PEERS: [Peer; 3] = [PEER_A, PEER_C, PEER_D];
/// never used by any generator
pub const PROBE: Peer = Peer {
    mac: EthernetAddress([0x02, 0, 0, 0, 0x77, 0x77]),
    ext: [0x02, 0x77, 0x77, 0x77, 0x77, 0x77, 0x77, 0x77],
    short: [0x77, 0x77],
    v4: Ipv4Address::new(192, 168, 1, 77),
    ll6: Ipv6Address::new(0xfe80, 0, 0, 0, 0, 0, 0, 0x77),
    g6: Ipv6Address::new(0x2001, 0xdb8, 0, 0, 0, 0, 0, 0x77),
};

pub const OUR_MAC: EthernetAddress = MAC_B;
pub const OUR_EXT: [u8; 8] = LL_EXT_B;
pub const OUR_V4: Ipv4Address = V4B;
pub const OUR_LL6: Ipv6Address = V6B;
pub const OUR_G6: Ipv6Address = V6H;
pub const GROUP4: Ipv4Address = V4M;
pub const GROUP6: Ipv6Address = Ipv6Address::new(0xff02, 0, 0, 0, 0, 0, 0, 0xfb);
pub const DEFAULT_PAN: u16 = 0xabcd;

pub const PORT_LISTEN: u16 = 80;
pub const PORT_EST: u16 = 8080;
pub const PORT_EST_PEER: u16 = 40000;
pub const PORT_CONN_LOCAL: u16 = 49500;
pub const PORT_CONN_REMOTE: u16 = 9000;
pub const PORT_UDP: u16 = 7;
pub const PORT_UDP2: u16 = 9;
pub const ICMP_IDENT: u16 = 0x1234;

/// the link-local address smoltcp derives from our extended 802.15.4 address
pub fn our_lowpan_ll6() -> Ipv6Address {
    Ieee802154Address::Extended(OUR_EXT).as_link_local_address().expect("extended address")
}

pub fn peer_derived_ll6(p: &Peer) -> Ipv6Address {
    Ieee802154Address::Extended(p.ext).as_link_local_address().expect("extended address")
}

#[derive(Clone, Debug)]
pub struct ZooCfg {
    pub med: Med,
    pub mtu: usize,
    pub seed: u64,
    pub t0: Micros,
    /// which pair of addresses the interface owns (IFACE_MAX_ADDR_COUNT is 2 in this build)
    pub addr_set: u8,
    pub pan: Option<u16>,
    /// 0 = verify and generate every checksum (default of a real device)
    pub cksum_kind: u8,
    pub raw4: u8,
    pub raw6: u8,
    pub join_groups: bool,
    /// SLAAC enabled (router solicitations go out, router advertisements are acted upon)
    pub slaac: bool,
    pub lowpan_contexts: bool,
    /// scripted TCP handshake over IPv6 instead of IPv4 (forced when there is no IPv4 address)
    pub est_v6: bool,
    pub dns_v6: bool,
    pub tcp_timestamps: bool,
    pub keep_alive: bool,
    /// per-poll cap of transmitted frames that counts as "poll does not return"
    pub tx_cap: usize,
}

impl ZooCfg {
    pub fn random(med: Med, rng: &mut Rng) -> ZooCfg {
        let mtu = match med {
            // 310 / 296: the classic low-delay serial-line IP MTU behind a bridge; 590 / 576: the IPv4 minimum reassembly size
            Med::Eth => *rng.pick(&[1514usize, 1514, 1514, 590, 310]),
            Med::Ip => *rng.pick(&[1500usize, 1500, 1500, 576, 1280, 296]),
            // 127 is the classic PHY; 2047 is the 802.15.4g (SUN) maximum PSDU
            Med::Lowpan => *rng.pick(&[127usize, 127, 127, 127, 2047]),
        };
        let addr_set = match med {
            Med::Lowpan => rng.below(2) as u8,
            _ => *rng.pick(&[0u8, 0, 0, 1, 1, 2]),
        };
        ZooCfg {
            med,
            mtu,
            seed: rng.next_u64(),
            t0: *rng.pick(&[0i64, 1_000_000, 77_000_000_000, 4_294_967_000_000]),
            addr_set,
            pan: if rng.chance(3, 4) { Some(DEFAULT_PAN) } else { None },
            cksum_kind: if rng.chance(7, 8) { 0 } else { rng.range(1, 3) as u8 },
            raw4: *rng.pick(&[253u8, 253, 17, 6, 1, 2]),
            raw6: *rng.pick(&[253u8, 253, 17, 6, 58, 0]),
            join_groups: med != Med::Lowpan || rng.chance(2, 3),
            slaac: rng.chance(1, 3),
            lowpan_contexts: rng.bool(),
            est_v6: rng.bool(),
            dns_v6: rng.bool(),
            tcp_timestamps: rng.bool(),
            keep_alive: rng.chance(1, 4),
            tx_cap: 40_000,
        }
    }

    pub fn addrs(&self) -> Vec<IpCidr> {
        let v4 = IpCidr::new(IpAddress::Ipv4(OUR_V4), 24);
        let ll = IpCidr::new(IpAddress::Ipv6(OUR_LL6), 64);
        let g = IpCidr::new(IpAddress::Ipv6(OUR_G6), 64);
        let d = IpCidr::new(IpAddress::Ipv6(our_lowpan_ll6()), 64);
        match (self.med, self.addr_set) {
            (Med::Lowpan, 0) => vec![d, ll],
            (Med::Lowpan, _) => vec![d, g],
            (_, 0) => vec![v4, ll],
            (_, 1) => vec![v4, g],
            _ => vec![ll, g],
        }
    }
    pub fn v4(&self) -> Option<Ipv4Address> {
        self.addrs().iter().find_map(|c| match c.address() {
            IpAddress::Ipv4(a) => Some(a),
            _ => None,
        })
    }
    pub fn v6(&self) -> Vec<Ipv6Address> {
        self.addrs()
            .iter()
            .filter_map(|c| match c.address() {
                IpAddress::Ipv6(a) => Some(a),
                _ => None,
            })
            .collect()
    }
    /// the address of `p` that is on-link for our IPv6 address `ours`
    pub fn peer6_for(&self, p: &Peer, ours: Ipv6Address) -> Ipv6Address {
        if ours == OUR_G6 {
            p.g6
        } else {
            p.ll6
        }
    }
    pub fn class(&self) -> String {
        format!("{}/mtu{}/a{}/ck{}", self.med.name(), self.mtu, self.addr_set, self.cksum_kind)
    }
}

// ---------------------------------------------------------------- what the stack told us

#[derive(Clone, Debug)]
pub struct Flow {
    pub local_port: u16,
    pub remote: Addr,
    pub local: Addr,
    pub remote_port: u16,
    /// sequence number the stack expects from the peer next (its ACK field)
    pub rcv_nxt: u32,
    /// first sequence number the stack has not sent yet
    pub snd_nxt: u32,
    /// oldest sequence number seen from the stack on this flow
    pub snd_first: u32,
    pub last_flags: u8,
    pub window: u16,
    pub ts: Option<(u32, u32)>,
    pub segments: u32,
}

#[derive(Clone, Debug, Default)]
pub struct Learned {
    pub flows: Vec<Flow>,
    pub dhcp_xid: Option<u32>,
    pub dhcp_type: u8,
    pub dhcp_requested: Option<[u8; 4]>,
    /// (source port, transaction id, server, question bytes)
    pub dns: Vec<(u16, u16, Addr, Vec<u8>)>,
    /// the last IP packets emitted by the stack (newest last)
    pub last_ip: Vec<Vec<u8>>,
    pub arp_targets: Vec<[u8; 4]>,
    pub ns_targets: Vec<[u8; 16]>,
    pub tx_frames: u64,
    pub undecoded: u64,
}

impl Learned {
    pub fn flow(&self, local_port: u16) -> Option<&Flow> {
        self.flows.iter().rev().find(|f| f.local_port == local_port)
    }
}

// ---------------------------------------------------------------- events, log, watchdog

#[derive(Clone, Copy, Debug, PartialEq)]
pub enum PollMode {
    /// Interface::poll
    Poll,
    /// poll_ingress_single until it reports None, then poll_egress
    Single,
}

#[derive(Clone, Debug)]
pub struct Ev {
    pub at: Micros,
    pub frames: Vec<Vec<u8>>,
    pub mode: PollMode,
    /// generator + protocol label, evidence only
    pub label: String,
}

#[derive(Default)]
pub struct Log {
    pub cfg: String,
    pub events: Vec<Ev>,
    pub in_poll_since: Option<std::time::Instant>,
    pub phase: String,
}

pub type SharedLog = Arc<Mutex<Log>>;

pub fn hex(b: &[u8]) -> String {
    let mut s = String::with_capacity(b.len() * 2);
    for x in b {
        s.push_str(&format!("{:02x}", x));
    }
    s
}

pub fn render_events(t0: Micros, evs: &[Ev], max_frames: usize) -> String {
    let total: usize = evs.iter().map(|e| e.frames.len().max(1)).sum();
    let mut skip = total.saturating_sub(max_frames);
    let mut s = String::new();
    if skip > 0 {
        s.push_str(&format!("[{} earlier frames/polls omitted, replay prints them] ", skip));
    }
    for e in evs {
        let t = (e.at - t0) as f64 / 1e6;
        let m = if e.mode == PollMode::Poll { "poll" } else { "ingress_single+egress" };
        if e.frames.is_empty() {
            if skip > 0 {
                skip -= 1;
                continue;
            }
            s.push_str(&format!("t=+{:.6}s {} without frame; ", t, m));
        }
        for f in &e.frames {
            if skip > 0 {
                skip -= 1;
                continue;
            }
            s.push_str(&format!("t=+{:.6}s {} rx[{}B,{}] {}; ", t, m, f.len(), e.label, hex(f)));
        }
    }
    s
}

/// Run `f` on a helper thread.  `f` marks the start/end of every Interface::poll
/// in the shared log; if one poll stays in flight for more than `limit_s`
/// seconds of wall time the case is reported as `no-return:<medium>` (the helper
/// thread is abandoned).  Wall time is used for nothing else.
pub fn guarded<F>(med: Med, limit_s: u64, verbose: bool, f: F) -> CaseOut
where
    F: FnOnce(SharedLog) -> CaseOut + Send + 'static,
{
    let log: SharedLog = Arc::new(Mutex::new(Log::default()));
    let (txc, rxc) = mpsc::channel();
    let l2 = log.clone();
    let spawned = std::thread::Builder::new().stack_size(8 << 20).spawn(move || {
        let r = catch(|| f(l2));
        let _ = txc.send(r);
    });
    if let Err(e) = spawned {
        let mut out = CaseOut::default();
        out.harness_errors.push(format!("cannot spawn helper thread: {}", e));
        return out;
    }
    let started = std::time::Instant::now();
    loop {
        match rxc.recv_timeout(std::time::Duration::from_millis(250)) {
            Ok(Ok(out)) => return out,
            Ok(Err(p)) => {
                let mut out = CaseOut::default();
                if p.in_target() {
                    // a panic of library code outside the guarded polls (socket API call of the
                    // harness application, frame construction): not what C03 is about
                    out.harness_errors.push(format!("library code panicked outside Interface::poll at {}:{}: {}", p.file, p.line, p.msg));
                } else {
                    out.harness_errors.push(format!("harness panic at {}:{}: {}", p.file, p.line, p.msg));
                }
                return out;
            }
            Err(mpsc::RecvTimeoutError::Timeout) => {
                let l = log.lock().unwrap();
                if let Some(since) = l.in_poll_since {
                    if since.elapsed().as_secs() >= limit_s {
                        let mut out = CaseOut::default();
                        let t0 = l.events.first().map(|e| e.at).unwrap_or(0);
                        let desc = format!(
                            "Interface::poll did not return within {} s of wall time ({}; phase {}). History: {}",
                            limit_s,
                            l.cfg,
                            l.phase,
                            render_events(t0, &l.events, 24)
                        );
                        if verbose {
                            println!("{}", desc);
                        }
                        out.evals = 1;
                        out.violate(Violation::new(format!("no-return:{}", med.name()), desc));
                        return out;
                    }
                } else if started.elapsed().as_secs() > 600 {
                    let mut out = CaseOut::default();
                    out.harness_errors.push("case exceeded 600 s outside Interface::poll (harness problem)".into());
                    return out;
                }
            }
            Err(mpsc::RecvTimeoutError::Disconnected) => {
                let mut out = CaseOut::default();
                out.harness_errors.push("helper thread vanished".into());
                return out;
            }
        }
    }
}

// ---------------------------------------------------------------- the zoo

pub struct Handles {
    pub tcp_listen: SocketHandle,
    pub tcp_conn: SocketHandle,
    pub tcp_est: SocketHandle,
    pub udp: SocketHandle,
    pub udp2: SocketHandle,
    pub icmp_ident: SocketHandle,
    pub icmp_udp: SocketHandle,
    pub icmp_tcp: SocketHandle,
    pub raw4: SocketHandle,
    pub raw6: SocketHandle,
    pub dns: SocketHandle,
    pub dhcp: Option<SocketHandle>,
}

#[derive(Clone, Debug, Default)]
pub struct ZooStats {
    pub polls: u64,
    pub frames_in: u64,
    pub frames_out: u64,
    pub tcp_bytes_read: u64,
    pub udp_datagrams_read: u64,
    pub icmp_read: u64,
    pub raw_read: u64,
    pub dns_done: u64,
    pub dns_failed: u64,
    pub dhcp_events: u64,
    pub relisten: u64,
    pub reconnect: u64,
    pub app_sent: u64,
}

pub enum StepFail {
    Panic(PanicInfo),
    TxStorm(usize),
}

pub struct StepOut {
    pub tx: Vec<TxRec>,
    pub sockets_changed: bool,
}

pub struct Zoo {
    pub cfg: ZooCfg,
    pub host: Host,
    pub h: Handles,
    pub now: Micros,
    pub learned: Learned,
    pub log: SharedLog,
    pub stats: ZooStats,
    pub app_rng: Rng,
    pub dns_handles: Vec<dns::QueryHandle>,
    pub established_reached: bool,
    pub verbose: bool,
    /// first panic of Interface::poll_at (it is called between polls like every event loop does)
    pub poll_at_panic: Option<PanicInfo>,
    probe_seq: u16,
}

fn pbuf_udp(n: usize, bytes: usize) -> udp::PacketBuffer<'static> {
    udp::PacketBuffer::new(vec![udp::PacketMetadata::EMPTY; n], vec![0u8; bytes])
}
fn pbuf_icmp(n: usize, bytes: usize) -> icmp::PacketBuffer<'static> {
    icmp::PacketBuffer::new(vec![icmp::PacketMetadata::EMPTY; n], vec![0u8; bytes])
}
fn pbuf_raw(n: usize, bytes: usize) -> raw::PacketBuffer<'static> {
    raw::PacketBuffer::new(vec![raw::PacketMetadata::EMPTY; n], vec![0u8; bytes])
}

impl Zoo {
    /// Build the interface and the sockets (no poll yet).
    pub fn build(cfg: &ZooCfg, log: SharedLog, verbose: bool) -> Zoo {
        let mut dev = SimDevice::new(cfg.med.medium(), cfg.mtu);
        dev.checksum = checksum_caps(cfg.cksum_kind);
        dev.tx_cap = cfg.tx_cap;
        dev.prefill = 0x5a;
        let hw = match cfg.med {
            Med::Eth => HardwareAddress::Ethernet(OUR_MAC),
            Med::Ip => HardwareAddress::Ip,
            Med::Lowpan => HardwareAddress::Ieee802154(Ieee802154Address::Extended(OUR_EXT)),
        };
        let mut c = Config::new(hw);
        c.random_seed = cfg.seed;
        c.pan_id = cfg.pan.map(Ieee802154Pan);
        // one configuration in three runs SLAAC: hostile router advertisements then reach slaac.rs
        c.slaac = cfg.slaac;
        let mut host = Host::with_config(dev, c, &cfg.addrs(), cfg.t0);
        if cfg.med == Med::Lowpan && cfg.lowpan_contexts {
            let ctxs = host.iface.sixlowpan_address_context_mut();
            let _ = ctxs.push(SixlowpanAddressContext([0x20, 0x01, 0x0d, 0xb8, 0, 0, 0, 0]));
            let _ = ctxs.push(SixlowpanAddressContext([0xfe, 0x80, 0, 0, 0, 0, 0, 0]));
        }
        if cfg.join_groups {
            if cfg.v4().is_some() {
                let _ = host.iface.join_multicast_group(GROUP4);
            }
            if !cfg.v6().is_empty() {
                let _ = host.iface.join_multicast_group(GROUP6);
            }
        }
        let mut app_rng = Rng::new(cfg.seed ^ 0xa99);
        let mk_tcp = |rx: usize, tx: usize, cfg: &ZooCfg, r: &mut Rng| {
            let mut s = tcp::Socket::new(tcp::SocketBuffer::new(vec![0u8; rx]), tcp::SocketBuffer::new(vec![0u8; tx]));
            if cfg.tcp_timestamps {
                s.set_tsval_generator(Some(|| 0x1000_0000));
            }
            if cfg.keep_alive {
                s.set_keep_alive(Some(smoltcp::time::Duration::from_millis(r.range(500, 20_000))));
            }
            if r.chance(1, 3) {
                s.set_timeout(Some(smoltcp::time::Duration::from_millis(r.range(1_000, 90_000))));
            }
            if r.chance(1, 3) {
                s.set_nagle_enabled(false);
            }
            if r.chance(1, 3) {
                s.set_ack_delay(None);
            }
            s
        };
        let tcp_listen = mk_tcp(2048, 2048, cfg, &mut app_rng);
        let tcp_conn = mk_tcp(1024, 4096, cfg, &mut app_rng);
        let tcp_est = mk_tcp(*app_rng.pick(&[64usize, 1024, 4096]), 4096, cfg, &mut app_rng);
        let mut udp1 = udp::Socket::new(pbuf_udp(4, 2048), pbuf_udp(4, 2048));
        udp1.bind(PORT_UDP).expect("udp bind");
        let mut udp2 = udp::Socket::new(pbuf_udp(2, 256), pbuf_udp(2, 256));
        let first = cfg.addrs()[0].address();
        udp2.bind(IpListenEndpoint { addr: Some(first), port: PORT_UDP2 }).expect("udp2 bind");
        let mut icmp_ident = icmp::Socket::new(pbuf_icmp(4, 1024), pbuf_icmp(2, 256));
        icmp_ident.bind(icmp::Endpoint::Ident(ICMP_IDENT)).expect("icmp bind");
        let mut icmp_udp = icmp::Socket::new(pbuf_icmp(4, 2048), pbuf_icmp(2, 256));
        icmp_udp.bind(icmp::Endpoint::Udp(IpListenEndpoint { addr: None, port: PORT_UDP })).expect("icmp bind udp");
        let mut icmp_tcp = icmp::Socket::new(pbuf_icmp(4, 2048), pbuf_icmp(2, 256));
        icmp_tcp.bind(icmp::Endpoint::Tcp(IpListenEndpoint { addr: None, port: PORT_EST })).expect("icmp bind tcp");
        let raw4 = raw::Socket::new(Some(IpVersion::Ipv4), Some(IpProtocol::from(cfg.raw4)), pbuf_raw(4, 4096), pbuf_raw(2, 256));
        let raw6 = raw::Socket::new(Some(IpVersion::Ipv6), Some(IpProtocol::from(cfg.raw6)), pbuf_raw(4, 4096), pbuf_raw(2, 256));
        let dns_server: IpAddress = match (cfg.v4(), cfg.dns_v6 || cfg.v4().is_none()) {
            (Some(_), false) => PEER_C.v4.into(),
            _ => cfg.peer6_for(&PEER_C, cfg.v6()[0]).into(),
        };
        let dns_sock = dns::Socket::new(&[dns_server], vec![None, None, None]);
        let mut sockets = smoltcp::iface::SocketSet::new(Vec::new());
        let h = Handles {
            tcp_listen: sockets.add(tcp_listen),
            tcp_conn: sockets.add(tcp_conn),
            tcp_est: sockets.add(tcp_est),
            udp: sockets.add(udp1),
            udp2: sockets.add(udp2),
            icmp_ident: sockets.add(icmp_ident),
            icmp_udp: sockets.add(icmp_udp),
            icmp_tcp: sockets.add(icmp_tcp),
            raw4: sockets.add(raw4),
            raw6: sockets.add(raw6),
            dns: sockets.add(dns_sock),
            dhcp: if cfg.med == Med::Eth && cfg.v4().is_some() { Some(sockets.add(dhcpv4::Socket::new())) } else { None },
        };
        *host.sockets = sockets;
        {
            let mut l = log.lock().unwrap();
            l.cfg = format!("{:?}", cfg);
            l.phase = "setup".into();
        }
        Zoo {
            cfg: cfg.clone(),
            host,
            h,
            now: cfg.t0,
            learned: Learned::default(),
            log,
            stats: ZooStats::default(),
            app_rng,
            dns_handles: Vec::new(),
            established_reached: false,
            verbose,
            poll_at_panic: None,
            probe_seq: 0,
        }
    }

    /// Open the sockets (listen / connect / DNS queries) and run the scripted
    /// handshake.  Every poll is guarded like the polls of the fuzz phase.
    pub fn open(&mut self) -> Result<(), StepFail> {
        let cfg = self.cfg.clone();
        {
            let s = self.host.sockets.get_mut::<tcp::Socket>(self.h.tcp_listen);
            s.listen(PORT_LISTEN).expect("listen");
            let s = self.host.sockets.get_mut::<tcp::Socket>(self.h.tcp_est);
            s.listen(PORT_EST).expect("listen");
        }
        self.connect_conn();
        {
            let cx = self.host.iface.context();
            let s = self.host.sockets.get_mut::<dns::Socket>(self.h.dns);
            if let Ok(hd) = s.start_query(cx, "www.example.com", DnsQueryType::A) {
                self.dns_handles.push(hd);
            }
            if let Ok(hd) = s.start_query(cx, "printer.local", DnsQueryType::Aaaa) {
                self.dns_handles.push(hd);
            }
        }
        self.step(Ev { at: self.now, frames: vec![], mode: PollMode::Poll, label: "setup".into() })?;
        // --- scripted handshake from peer A
        let use_v6 = cfg.v4().is_none() || cfg.med == Med::Lowpan || (cfg.est_v6 && !cfg.v6().is_empty());
        let (src, dst): (Addr, Addr) = if use_v6 {
            let ours = *cfg.v6().last().unwrap();
            (Addr::V6(cfg.peer6_for(&PEER_A, ours).octets()), Addr::V6(ours.octets()))
        } else {
            (Addr::V4(PEER_A.v4.octets()), Addr::V4(OUR_V4.octets()))
        };
        // introduce peer A to the neighbour cache
        let intro = crate::gen::frames::neighbor_intro(&cfg, &PEER_A, &src, &dst);
        if !intro.is_empty() {
            self.now += 1_000;
            self.step(Ev { at: self.now, frames: intro, mode: PollMode::Poll, label: "setup:neighbor".into() })?;
        }
        // the peer's initial sequence number: also just below 2^31 and 2^32, so that the receive
        // window of the established connection lies across the wrap of the signed / unsigned comparison
        let iss: u32 = match self.cfg.t0 % 3 + (self.cfg.raw4 as i64 % 2) * 3 {
            0 => 0x0100_0000,
            1 => 0x7fff_ffff - 20 - (self.cfg.raw6 as u32),
            2 => 0xffff_ffff - 20 - (self.cfg.raw6 as u32),
            3 => 0x7fff_ffff - 700,
            4 => 0x0100_0000,
            _ => 0xffff_fff0,
        };
        let syn = indep::tcp::Seg {
            sport: PORT_EST_PEER,
            dport: PORT_EST,
            seq: iss,
            ack: 0,
            flags: indep::tcp::SYN,
            wnd: 4096,
            urg: 0,
            mss: Some(536),
            wscale: Some(0),
            sack_perm: true,
            sack: vec![],
            ts: if cfg.tcp_timestamps { Some((1, 0)) } else { None },
            payload: vec![],
            opt_len: 0,
            checksum_ok: true,
            opt_defects: vec![],
        };
        let pkt = indep::ip::build(&src, &dst, 6, 64, &indep::tcp::build(&src, &dst, &syn));
        let frames = crate::gen::frames::link_wrap_plain(&cfg, &PEER_A, &pkt);
        self.now += 1_000;
        self.step(Ev { at: self.now, frames, mode: PollMode::Poll, label: "setup:syn".into() })?;
        if let Some(f) = self.learned.flow(PORT_EST).cloned() {
            if f.last_flags & (indep::tcp::SYN | indep::tcp::ACK) == (indep::tcp::SYN | indep::tcp::ACK) && f.rcv_nxt == iss.wrapping_add(1) {
                let mut ack = syn.clone();
                ack.flags = indep::tcp::ACK;
                ack.seq = iss.wrapping_add(1);
                ack.ack = f.snd_nxt;
                ack.mss = None;
                ack.wscale = None;
                ack.sack_perm = false;
                ack.ts = f.ts.map(|(v, _)| (2, v));
                let pkt = indep::ip::build(&src, &dst, 6, 64, &indep::tcp::build(&src, &dst, &ack));
                let frames = crate::gen::frames::link_wrap_plain(&cfg, &PEER_A, &pkt);
                self.now += 1_000;
                self.step(Ev { at: self.now, frames, mode: PollMode::Poll, label: "setup:ack".into() })?;
            }
        }
        let st = self.host.sockets.get::<tcp::Socket>(self.h.tcp_est).state();
        self.established_reached = st == tcp::State::Established;
        self.log.lock().unwrap().phase = "fuzz".into();
        Ok(())
    }

    fn connect_conn(&mut self) {
        let cfg = &self.cfg;
        let remote: IpAddress = match cfg.v4() {
            Some(_) => PEER_C.v4.into(),
            None => cfg.peer6_for(&PEER_C, cfg.v6()[0]).into(),
        };
        let cx = self.host.iface.context();
        let s = self.host.sockets.get_mut::<tcp::Socket>(self.h.tcp_conn);
        let _ = s.connect(cx, (remote, PORT_CONN_REMOTE), PORT_CONN_LOCAL);
    }

    fn fingerprint(&self) -> u64 {
        let mut words: Vec<u64> = Vec::new();
        for hd in [self.h.tcp_listen, self.h.tcp_conn, self.h.tcp_est] {
            let s = self.host.sockets.get::<tcp::Socket>(hd);
            words.push(s.state() as u64);
            words.push(s.recv_queue() as u64);
            words.push(s.send_queue() as u64);
        }
        for hd in [self.h.udp, self.h.udp2] {
            words.push(self.host.sockets.get::<udp::Socket>(hd).recv_queue() as u64);
        }
        for hd in [self.h.icmp_ident, self.h.icmp_udp, self.h.icmp_tcp] {
            words.push(self.host.sockets.get::<icmp::Socket>(hd).recv_queue() as u64);
        }
        for hd in [self.h.raw4, self.h.raw6] {
            words.push(self.host.sockets.get::<raw::Socket>(hd).recv_queue() as u64);
        }
        crate::util::rng::mix(&words)
    }

    /// Deliver the frames of `ev` and poll at `ev.at` under the panic guard, then let
    /// the application look at its sockets.
    pub fn step(&mut self, ev: Ev) -> Result<StepOut, StepFail> {
        debug_assert!(ev.at >= self.now);
        self.now = ev.at;
        if self.verbose {
            let t = (ev.at - self.cfg.t0) as f64 / 1e6;
            if ev.frames.is_empty() {
                println!("t=+{:.6}s {:?} without frame [{}]", t, ev.mode, ev.label);
            }
            for f in &ev.frames {
                println!("t=+{:.6}s {:?} rx[{}B {}] {}", t, ev.mode, f.len(), ev.label, hex(f));
            }
        }
        for f in &ev.frames {
            self.host.dev.rx.push_back(f.clone());
        }
        self.stats.frames_in += ev.frames.len() as u64;
        let mode = ev.mode;
        {
            let mut l = self.log.lock().unwrap();
            l.events.push(ev);
            l.in_poll_since = Some(std::time::Instant::now());
        }
        let before = self.fingerprint();
        let dhcp_before = self.dhcp_pending();
        self.host.dev.begin_poll(self.now);
        self.host.dev.tx_cap_hit = false;
        let now = self.now;
        let host = &mut self.host;
        let r = catch(|| match mode {
            PollMode::Poll => {
                host.iface.poll(inst(now), &mut host.dev, &mut host.sockets);
            }
            PollMode::Single => {
                let mut n = 0;
                loop {
                    let r = host.iface.poll_ingress_single(inst(now), &mut host.dev, &mut host.sockets);
                    n += 1;
                    if r == smoltcp::iface::PollIngressSingleResult::None || n > 100_000 {
                        break;
                    }
                }
                let mut m = 0;
                while host.iface.poll_egress(inst(now), &mut host.dev, &mut host.sockets) != smoltcp::iface::PollResult::None {
                    m += 1;
                    if m > 100_000 {
                        break;
                    }
                }
            }
        });
        self.log.lock().unwrap().in_poll_since = None;
        self.stats.polls += 1;
        let tx = self.host.dev.drain_tx();
        self.stats.frames_out += tx.len() as u64;
        if self.verbose {
            for t in &tx {
                println!("        tx[{}B] {}", t.data.len(), hex(&t.data));
            }
        }
        if let Err(p) = r {
            if self.verbose {
                println!("        PANIC {}:{}: {}", p.file, p.line, p.msg);
            }
            return Err(StepFail::Panic(p));
        }
        if self.host.dev.tx_cap_hit {
            return Err(StepFail::TxStorm(tx.len()));
        }
        // frames left in the receive queue would mean poll() returned before draining it;
        // the Single mode may stop early only through its iteration guard
        self.host.dev.rx.clear();
        self.observe(&tx);
        let changed = before != self.fingerprint() || dhcp_before != self.dhcp_pending();
        self.app();
        Ok(StepOut { tx, sockets_changed: changed })
    }

    /// Interface::poll_at under the panic guard (a panic is remembered, the answer is then None)
    pub fn poll_at(&mut self) -> Option<Micros> {
        let now = self.now;
        let host = &mut self.host;
        match catch(|| host.poll_at(now)) {
            Ok(t) => t,
            Err(p) => {
                if self.verbose {
                    println!("        PANIC in poll_at {}:{}: {}", p.file, p.line, p.msg);
                    for (n, hd) in [("listen:80", self.h.tcp_listen), ("connect:49500", self.h.tcp_conn), ("established:8080", self.h.tcp_est)] {
                        let s = self.host.sockets.get::<tcp::Socket>(hd);
                        println!("          tcp socket {}: state {} recv_queue {} send_queue {} remote {:?}", n, s.state(), s.recv_queue(), s.send_queue(), s.remote_endpoint());
                    }
                }
                if self.poll_at_panic.is_none() {
                    self.poll_at_panic = Some(p);
                }
                None
            }
        }
    }

    fn dhcp_pending(&self) -> u64 {
        self.learned.dhcp_type as u64
    }

    /// The application: drains every socket, echoes, restarts what the network killed.
    /// Only documented, always-legal API calls.
    fn app(&mut self) {
        let mut buf = [0u8; 2048];
        let r = &mut self.app_rng;
        for (i, hd) in [self.h.tcp_listen, self.h.tcp_conn, self.h.tcp_est].into_iter().enumerate() {
            let s = self.host.sockets.get_mut::<tcp::Socket>(hd);
            while s.can_recv() {
                match s.recv_slice(&mut buf) {
                    Ok(0) | Err(_) => break,
                    Ok(n) => {
                        self.stats.tcp_bytes_read += n as u64;
                        if s.can_send() && r.chance(1, 2) {
                            let _ = s.send_slice(&buf[..n]);
                            self.stats.app_sent += 1;
                        }
                    }
                }
            }
            if s.may_send() && s.can_send() && r.chance(1, 6) {
                let n = r.urange(1, 1500);
                for (k, b) in buf[..n].iter_mut().enumerate() {
                    *b = (k as u8).wrapping_mul(3);
                }
                let _ = s.send_slice(&buf[..n]);
                self.stats.app_sent += 1;
            }
            if s.state() == tcp::State::CloseWait && r.chance(1, 3) {
                s.close();
            }
            if s.is_open() && r.chance(1, 60) {
                s.close();
            }
            if s.state() == tcp::State::Closed && r.chance(1, 2) {
                match i {
                    0 => {
                        let _ = s.listen(PORT_LISTEN);
                        self.stats.relisten += 1;
                    }
                    2 => {
                        let _ = s.listen(PORT_EST);
                        self.stats.relisten += 1;
                    }
                    _ => {}
                }
            }
        }
        if self.host.sockets.get::<tcp::Socket>(self.h.tcp_conn).state() == tcp::State::Closed && self.app_rng.chance(1, 2) {
            self.connect_conn();
            self.stats.reconnect += 1;
        }
        let r = &mut self.app_rng;
        for hd in [self.h.udp, self.h.udp2] {
            let s = self.host.sockets.get_mut::<udp::Socket>(hd);
            while let Ok((n, meta)) = s.recv_slice(&mut buf) {
                self.stats.udp_datagrams_read += 1;
                if r.chance(1, 2) {
                    // echo; an unaddressable peer (unspecified address, port 0) is refused by send_slice
                    let _ = s.send_slice(&buf[..n.min(1200)], meta.endpoint);
                    self.stats.app_sent += 1;
                }
            }
            // a datagram larger than our buffer: drop it
            if s.can_recv() {
                let _ = s.recv();
            }
        }
        for hd in [self.h.icmp_ident, self.h.icmp_udp, self.h.icmp_tcp] {
            let s = self.host.sockets.get_mut::<icmp::Socket>(hd);
            while s.can_recv() {
                if s.recv().is_err() {
                    break;
                }
                self.stats.icmp_read += 1;
            }
        }
        for hd in [self.h.raw4, self.h.raw6] {
            let s = self.host.sockets.get_mut::<raw::Socket>(hd);
            while s.can_recv() {
                if s.recv().is_err() {
                    break;
                }
                self.stats.raw_read += 1;
            }
        }
        {
            let cx = self.host.iface.context();
            let s = self.host.sockets.get_mut::<dns::Socket>(self.h.dns);
            let mut keep = Vec::new();
            let mut restart = 0;
            for hd in self.dns_handles.drain(..) {
                match s.get_query_result(hd) {
                    Err(dns::GetQueryResultError::Pending) => keep.push(hd),
                    Ok(_) => {
                        self.stats.dns_done += 1;
                        restart += 1;
                    }
                    Err(dns::GetQueryResultError::Failed) => {
                        self.stats.dns_failed += 1;
                        restart += 1;
                    }
                }
            }
            for k in 0..restart {
                let name = if k % 2 == 0 { "www.example.com" } else { "printer.local" };
                if let Ok(hd) = s.start_query(cx, name, if r.bool() { DnsQueryType::A } else { DnsQueryType::Aaaa }) {
                    keep.push(hd);
                }
            }
            self.dns_handles = keep;
        }
        if let Some(hd) = self.h.dhcp {
            let s = self.host.sockets.get_mut::<dhcpv4::Socket>(hd);
            // the application is free not to apply the offered configuration: the interface keeps
            // its static addresses so that "one of its addresses" stays well defined for the probe
            while s.poll().is_some() {
                self.stats.dhcp_events += 1;
            }
        }
    }

    // ------------------------------------------------------------ learning from emitted frames

    fn observe(&mut self, tx: &[TxRec]) {
        for t in tx {
            self.learned.tx_frames += 1;
            let f = &t.data;
            match self.cfg.med {
                Med::Eth => {
                    if f.len() < 14 {
                        continue;
                    }
                    let et = indep::be16(f, 12);
                    if et == 0x0806 && f.len() >= 42 && indep::be16(f, 20) == 1 {
                        let mut t4 = [0u8; 4];
                        t4.copy_from_slice(&f[38..42]);
                        push_cap(&mut self.learned.arp_targets, t4, 4);
                    } else if et == 0x0800 || et == 0x86dd {
                        let p = f[14..].to_vec();
                        self.observe_ip(p);
                    }
                }
                Med::Ip => self.observe_ip(f.clone()),
                Med::Lowpan => match catch(|| crate::gen::frames::lowpan_decode(f)) {
                    Ok(Some(p)) => self.observe_ip(p),
                    Ok(None) => self.learned.undecoded += 1,
                    Err(_) => self.learned.undecoded += 1,
                },
            }
        }
    }

    fn observe_ip(&mut self, p: Vec<u8>) {
        let Ok(info) = indep::ip::parse(&p, false) else {
            self.learned.undecoded += 1;
            return;
        };
        let end = (info.payload_off + info.payload_len).min(p.len());
        let pl = &p[info.payload_off.min(end)..end];
        match info.proto {
            6 if info.frag_offset == 0 => {
                if let Ok(seg) = indep::tcp::parse(&info.src, &info.dst, pl) {
                    let nxt = seg.seq.wrapping_add(seg.seg_len());
                    let l = &mut self.learned;
                    if let Some(fl) = l.flows.iter_mut().find(|f| f.local_port == seg.sport && f.remote_port == seg.dport && f.remote == info.dst) {
                        if seg.is(indep::tcp::SYN) {
                            fl.snd_first = seg.seq;
                        }
                        if indep::tcp::seq_lt(fl.snd_nxt, nxt) || seg.is(indep::tcp::SYN) {
                            fl.snd_nxt = nxt;
                        }
                        if seg.is(indep::tcp::ACK) {
                            fl.rcv_nxt = seg.ack;
                        }
                        fl.last_flags = seg.flags;
                        fl.window = seg.wnd;
                        fl.ts = seg.ts.or(fl.ts);
                        fl.segments += 1;
                    } else {
                        l.flows.push(Flow {
                            local_port: seg.sport,
                            remote: info.dst,
                            local: info.src,
                            remote_port: seg.dport,
                            rcv_nxt: seg.ack,
                            snd_nxt: nxt,
                            snd_first: seg.seq,
                            last_flags: seg.flags,
                            window: seg.wnd,
                            ts: seg.ts,
                            segments: 1,
                        });
                        if l.flows.len() > 12 {
                            l.flows.remove(0);
                        }
                    }
                }
            }
            17 if info.frag_offset == 0 && pl.len() >= 8 => {
                let (sp, dp) = (indep::be16(pl, 0), indep::be16(pl, 2));
                let body = &pl[8..];
                if sp == 68 && dp == 67 && body.len() >= 244 {
                    self.learned.dhcp_xid = Some(indep::be32(body, 4));
                    // walk the options for the message type and the requested address
                    let mut i = 240;
                    while i + 1 < body.len() {
                        let (k, l) = (body[i], body[i + 1] as usize);
                        if k == 255 {
                            break;
                        }
                        if k == 0 {
                            i += 1;
                            continue;
                        }
                        if i + 2 + l > body.len() {
                            break;
                        }
                        if k == 53 && l == 1 {
                            self.learned.dhcp_type = body[i + 2];
                        }
                        if k == 50 && l == 4 {
                            let mut a = [0u8; 4];
                            a.copy_from_slice(&body[i + 2..i + 6]);
                            self.learned.dhcp_requested = Some(a);
                        }
                        i += 2 + l;
                    }
                } else if (dp == 53 || dp == 5353) && body.len() >= 12 {
                    let q = body[12..].to_vec();
                    let e = (sp, indep::be16(body, 0), info.dst, q);
                    if !self.learned.dns.contains(&e) {
                        push_cap(&mut self.learned.dns, e, 6);
                    }
                }
            }
            58 => {
                if pl.len() >= 24 && pl[0] == 135 {
                    let mut t = [0u8; 16];
                    t.copy_from_slice(&pl[8..24]);
                    push_cap(&mut self.learned.ns_targets, t, 4);
                }
            }
            _ => {}
        }
        push_cap(&mut self.learned.last_ip, p, 6);
    }

    // ------------------------------------------------------------ the probe

    /// After the sequence: a well-formed request from an identity the fuzz traffic never used
    /// must be answered.  Returns the number of probes answered or (kind, description).
    pub fn probe(&mut self) -> Result<u32, (String, String)> {
        self.log.lock().unwrap().phase = "probe".into();
        let cfg = self.cfg.clone();
        let mut answered = 0;
        // a device that declares transmit checksum offload gets frames with empty checksum fields
        let ck = cfg.cksum_kind == 0 || cfg.cksum_kind == 2;
        let mut token = [0u8; 16];
        for (i, b) in token.iter_mut().enumerate() {
            *b = 0xc0 ^ (i as u8).wrapping_mul(37) ^ (cfg.seed as u8);
        }
        if let (Some(our4), true) = (cfg.v4(), cfg.med != Med::Lowpan) {
            let (src, dst) = (Addr::V4(PROBE.v4.octets()), Addr::V4(our4.octets()));
            answered += self.probe_arp(our4)?;
            let seq = self.next_seq();
            let mut icmp = vec![8u8, 0, 0, 0, 0x77, 0x77, (seq >> 8) as u8, seq as u8];
            icmp.extend_from_slice(&token);
            let c = cksum::checksum(&[&icmp]);
            indep::put16(&mut icmp, 2, c);
            let pkt = indep::ip::build(&src, &dst, 1, 64, &icmp);
            let frames = crate::gen::frames::link_wrap_plain(&cfg, &PROBE, &pkt);
            let med = cfg.med;
            let ok = self.probe_round("icmpv4-echo", frames, &|t: &[u8]| {
                let p = match med {
                    Med::Eth => {
                        if t.len() < 14 || t[0..6] != *PROBE.mac.as_bytes() || indep::be16(t, 12) != 0x0800 {
                            return false;
                        }
                        &t[14..]
                    }
                    _ => t,
                };
                let Ok(info) = indep::ip::parse(p, true) else { return false };
                if info.proto != 1 || info.src != dst || info.dst != src || info.frag_offset != 0 || info.more_frags {
                    return false;
                }
                let m = &p[info.payload_off..info.payload_off + info.payload_len];
                m.len() == 24 && m[0] == 0 && m[1] == 0 && (!ck || (cksum::verifies(&[m]) && info.v4_header_ok)) && m[4..6] == [0x77, 0x77] && indep::be16(m, 6) == seq && m[8..] == token
            })?;
            answered += ok;
        }
        if let Some(our6) = cfg.v6().first().copied() {
            let p6 = cfg.peer6_for(&PROBE, our6);
            let (src, dst) = (Addr::V6(p6.octets()), Addr::V6(our6.octets()));
            answered += self.probe_ns(our6, ck)?;
            let seq = self.next_seq();
            let mut icmp = vec![128u8, 0, 0, 0, 0x77, 0x77, (seq >> 8) as u8, seq as u8];
            icmp.extend_from_slice(&token);
            cksum::transport_fill(&src, &dst, 58, &mut icmp, 2);
            let pkt = indep::ip::build(&src, &dst, 58, 64, &icmp);
            let frames = crate::gen::frames::link_wrap_plain(&cfg, &PROBE, &pkt);
            let ok = self.probe_round("icmpv6-echo", frames, &|t: &[u8]| {
                if t.len() < 24 {
                    return false;
                }
                let m = &t[t.len() - 24..];
                m[0] == 129 && m[1] == 0 && m[4..6] == [0x77, 0x77] && indep::be16(m, 6) == seq && m[8..] == token && (!ck || cksum::transport_verifies(&dst, &src, 58, m))
            })?;
            answered += ok;
        }
        // ---- the same requests, fragmented.  Reassembly state left behind by the sequence may
        // legitimately occupy every slot until it times out (60 s), so the clock is moved past
        // that first; from then on a fragmented request is a well-formed request like any other.
        self.now += 65_000_000;
        let idle = Ev { at: self.now, frames: vec![], mode: PollMode::Poll, label: "probe:idle-65s".into() };
        match self.step(idle) {
            Ok(_) => {}
            Err(StepFail::Panic(p)) => return Err((semantic_sig(&p), format!("panic in the idle poll before the fragmented probe at {}:{}: {}", p.file, p.line, p.msg))),
            Err(StepFail::TxStorm(n)) => return Err((format!("no-return:{}:tx-cap", self.cfg.med.name()), format!("{} frames in one poll before the fragmented probe", n))),
        }
        if let (Some(our4), true) = (cfg.v4(), cfg.med != Med::Lowpan) {
            let (src, dst) = (Addr::V4(PROBE.v4.octets()), Addr::V4(our4.octets()));
            if cfg.med == Med::Eth {
                // after 65 s of silence the probe's neighbor entry may have expired or been evicted;
                // a reply to an unknown neighbor is legitimately replaced by a discovery request
                answered += self.probe_arp(our4)?;
            }
            let seq = self.next_seq();
            let mut icmp = vec![8u8, 0, 0, 0, 0x77, 0x78, (seq >> 8) as u8, seq as u8];
            icmp.extend_from_slice(&token);
            let c = cksum::checksum(&[&icmp]);
            indep::put16(&mut icmp, 2, c);
            let whole = indep::ip::build_v4(&PROBE.v4.octets(), &our4.octets(), 1, 64, 0x7000 | seq, false, false, 0, &icmp);
            let mut frames = Vec::new();
            // second fragment first: the stack has to hold it until the first one arrives
            for (off, mf, part) in [(8usize, false, &whole[28..]), (0usize, true, &whole[20..28])] {
                let f = indep::ip::build_v4(&PROBE.v4.octets(), &our4.octets(), 1, 64, 0x7000 | seq, false, mf, off, part);
                frames.extend(crate::gen::frames::link_wrap_plain(&cfg, &PROBE, &f));
            }
            let med = cfg.med;
            let ok = self.probe_round("icmpv4-echo-fragmented", frames, &|t: &[u8]| {
                let p = match med {
                    Med::Eth => {
                        if t.len() < 14 || t[0..6] != *PROBE.mac.as_bytes() || indep::be16(t, 12) != 0x0800 {
                            return false;
                        }
                        &t[14..]
                    }
                    _ => t,
                };
                let Ok(info) = indep::ip::parse(p, true) else { return false };
                if info.proto != 1 || info.src != dst || info.dst != src || info.frag_offset != 0 || info.more_frags {
                    return false;
                }
                let m = &p[info.payload_off..info.payload_off + info.payload_len];
                m.len() == 24 && m[0] == 0 && m[1] == 0 && (!ck || (cksum::verifies(&[m]) && info.v4_header_ok)) && m[4..6] == [0x77, 0x78] && indep::be16(m, 6) == seq && m[8..] == token
            })?;
            answered += ok;
        }
        if let (Some(our6), true) = (cfg.v6().first().copied(), cfg.med == Med::Lowpan) {
            let p6 = cfg.peer6_for(&PROBE, our6);
            let (src, dst) = (Addr::V6(p6.octets()), Addr::V6(our6.octets()));
            answered += self.probe_ns(our6, ck)?;
            let seq = self.next_seq();
            let mut icmp = vec![128u8, 0, 0, 0, 0x77, 0x78, (seq >> 8) as u8, seq as u8];
            icmp.extend_from_slice(&token);
            cksum::transport_fill(&src, &dst, 58, &mut icmp, 2);
            let pkt = indep::ip::build(&src, &dst, 58, 64, &icmp);
            let mut o = crate::gen::frames::LpOpts::plain(&cfg);
            o.force_frag = true;
            o.tag = 0x7000 | seq;
            let frames = crate::gen::frames::link_wrap(&cfg, &PROBE, &pkt, &o);
            if frames.len() >= 2 {
                let ok = self.probe_round("icmpv6-echo-fragmented", frames, &|t: &[u8]| {
                    if t.len() < 24 {
                        return false;
                    }
                    let m = &t[t.len() - 24..];
                    m[0] == 129 && m[1] == 0 && m[4..6] == [0x77, 0x78] && indep::be16(m, 6) == seq && m[8..] == token && (!ck || cksum::transport_verifies(&dst, &src, 58, m))
                })?;
                answered += ok;
            }
        }
        Ok(answered)
    }

    /// ARP request from the probe identity (Ethernet): must be answered; it also (re)introduces the
    /// probe's hardware address, like any host does before it talks after a long silence.
    fn probe_arp(&mut self, our4: Ipv4Address) -> Result<u32, (String, String)> {
        let cfg = self.cfg.clone();
        let mut answered = 0;
            if cfg.med == Med::Eth {
                // ARP request, broadcast
                let mut f = Vec::new();
                f.extend_from_slice(&[0xff; 6]);
                f.extend_from_slice(PROBE.mac.as_bytes());
                f.extend_from_slice(&[0x08, 0x06, 0, 1, 8, 0, 6, 4, 0, 1]);
                f.extend_from_slice(PROBE.mac.as_bytes());
                f.extend_from_slice(&PROBE.v4.octets());
                f.extend_from_slice(&[0; 6]);
                f.extend_from_slice(&our4.octets());
                let our_mac = OUR_MAC;
                let ok = self.probe_round("arp-request", vec![f], &|t: &[u8]| {
                    t.len() >= 42
                        && t[0..6] == *PROBE.mac.as_bytes()
                        && indep::be16(t, 12) == 0x0806
                        && indep::be16(t, 20) == 2
                        && t[22..28] == *our_mac.as_bytes()
                        && t[28..32] == our4.octets()
                        && t[32..38] == *PROBE.mac.as_bytes()
                        && t[38..42] == PROBE.v4.octets()
                })?;
                answered += ok;
            }
        Ok(answered)
    }

    /// Neighbor solicitation with source link-layer address option from the probe identity.
    fn probe_ns(&mut self, our6: Ipv6Address, ck: bool) -> Result<u32, (String, String)> {
        let cfg = self.cfg.clone();
        let mut answered = 0;
        let p6 = cfg.peer6_for(&PROBE, our6);
        let (src, dst) = (Addr::V6(p6.octets()), Addr::V6(our6.octets()));
            if cfg.med != Med::Ip {
                // neighbour solicitation with source link-layer address option, to the solicited-node group
                let o = our6.octets();
                let sol = Addr::V6([0xff, 2, 0, 0, 0, 0, 0, 0, 0, 0, 0, 1, 0xff, o[13], o[14], o[15]]);
                let mut ns = vec![135u8, 0, 0, 0, 0, 0, 0, 0];
                ns.extend_from_slice(&o);
                if cfg.med == Med::Eth {
                    ns.extend_from_slice(&[1, 1]);
                    ns.extend_from_slice(PROBE.mac.as_bytes());
                } else {
                    ns.extend_from_slice(&[1, 2]);
                    ns.extend_from_slice(&PROBE.ext);
                    ns.extend_from_slice(&[0; 6]);
                }
                cksum::transport_fill(&src, &sol, 58, &mut ns, 2);
                let pkt = indep::ip::build(&src, &sol, 58, 255, &ns);
                let frames = crate::gen::frames::link_wrap_plain(&cfg, &PROBE, &pkt);
                let med = cfg.med;
                let ok = self.probe_round("neighbor-solicit", frames, &|t: &[u8]| {
                    // the advertisement is the tail of the frame on every medium (ICMPv6 is never compressed)
                    for optlen in [0usize, 8, 16] {
                        let n = 24 + optlen;
                        if t.len() < n {
                            continue;
                        }
                        let m = &t[t.len() - n..];
                        if m[0] == 136 && m[1] == 0 && m[8..24] == o && (!ck || cksum::transport_verifies(&dst, &src, 58, m)) {
                            if med == Med::Eth && t[0..6] != *PROBE.mac.as_bytes() {
                                continue;
                            }
                            return true;
                        }
                    }
                    false
                })?;
                answered += ok;
            }
        Ok(answered)
    }

    fn next_seq(&mut self) -> u16 {
        self.probe_seq += 1;
        0x5000 + self.probe_seq
    }

    /// Deliver the request, then poll (following poll_at, at most 3 virtual seconds) until `is_answer`
    /// accepts an emitted frame.  A panic or transmit storm during the probe is reported as such.
    fn probe_round(&mut self, kind: &str, frames: Vec<Vec<u8>>, is_answer: &dyn Fn(&[u8]) -> bool) -> Result<u32, (String, String)> {
        let req = frames.clone();
        let mut frames = Some(frames);
        let deadline = self.now + 3_000_000;
        let mut seen: Vec<Vec<u8>> = Vec::new();
        for _round in 0..8 {
            let ev = Ev { at: self.now, frames: frames.take().unwrap_or_default(), mode: PollMode::Poll, label: format!("probe:{}", kind) };
            match self.step(ev) {
                Ok(o) => {
                    for t in &o.tx {
                        if is_answer(&t.data) {
                            return Ok(1);
                        }
                        if seen.len() < 6 {
                            seen.push(t.data.clone());
                        }
                    }
                }
                Err(StepFail::Panic(p)) => return Err((semantic_sig(&p), format!("panic during the {} probe at {}:{}: {}", kind, p.file, p.line, p.msg))),
                Err(StepFail::TxStorm(n)) => return Err((format!("no-return:{}:tx-cap", self.cfg.med.name()), format!("{} frames in one poll during the {} probe", n, kind))),
            }
            let next = self.poll_at().unwrap_or(self.now + 500_000).max(self.now + 1_000);
            if next > deadline {
                break;
            }
            self.now = next;
        }
        let seen_s: Vec<String> = seen.iter().map(|f| if f.len() > 100 { format!("{}..({}B)", hex(&f[..100]), f.len()) } else { hex(f) }).collect();
        Err((
            format!("wedged:{}:{}", self.cfg.med.name(), kind),
            format!(
                "probe {} from the unused identity {} was not answered within 3 s; request {}; frames emitted instead: [{}]",
                kind,
                PROBE.v4,
                req.iter().map(|f| hex(f)).collect::<Vec<_>>().join(" | "),
                seen_s.join(" | ")
            ),
        ))
    }
}

/// PanicInfo::signature() with the variable tail of the message removed (addresses, lengths)
pub fn semantic_sig(p: &PanicInfo) -> String {
    let s = p.signature();
    // panic:<file>:<fn>:<message>
    let mut parts = s.splitn(4, ':');
    let (a, b, c, msg) = (parts.next().unwrap_or(""), parts.next().unwrap_or(""), parts.next().unwrap_or(""), parts.next().unwrap_or(""));
    let msg = match msg.find(": ") {
        Some(i) if msg[i..].contains('#') || msg[i..].contains('(') => &msg[..i],
        _ => msg,
    };
    format!("{}:{}:{}:{}", a, b, c, msg)
}

fn push_cap<T>(v: &mut Vec<T>, x: T, cap: usize) {
    v.push(x);
    if v.len() > cap {
        v.remove(0);
    }
}
