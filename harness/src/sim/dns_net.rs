//! The harness as "the network" of a DNS resolver socket (property C19).
//!
//! One `Medium::Ip` host runs `smoltcp::socket::dns::Socket` with 1..N servers
//! and 1..4 concurrent queries.  Every datagram the host emits is parsed with
//! `indep`; the scripted servers answer each emitted query with responses that
//! are valid, wrong in exactly one respect, truncated, oddly compressed, ...
//! The oracle judges every delivered response from its bytes (never from the
//! generator's intention) and every result reported by `get_query_result`.
use super::*;
use crate::indep::x2::dns::{self, Builder, Name, NameEnc};
use crate::indep::mini::{self, Arp};
use crate::indep::{ip, Addr};
use crate::indep::x2::{udp};
use crate::util::json::Json;
use crate::util::rng::Rng;
use crate::util::run::Violation;
use smoltcp::iface::SocketHandle;
use smoltcp::socket::dns as sdns;
use smoltcp::wire::{DnsQueryType, IpAddress, IpCidr, Ipv4Address, Ipv6Address};

pub const MAX_SERVERS: usize = smoltcp::config::DNS_MAX_SERVER_COUNT;
pub const MAX_RESULTS: usize = smoltcp::config::DNS_MAX_RESULT_COUNT;

pub const HOST_V4: [u8; 4] = [10, 0, 0, 2];
pub const HOST_V6: [u8; 16] = [0xfd, 0, 0, 0, 0, 0, 0, 0, 0, 0, 0, 0, 0, 0, 0, 2];
pub const HOST_LL: [u8; 16] = [0xfe, 0x80, 0, 0, 0, 0, 0, 0, 0, 0, 0, 0, 0, 0, 0, 2];
pub const MDNS_V4: [u8; 4] = [224, 0, 0, 251];
pub const MDNS_V6: [u8; 16] = [0xff, 0x02, 0, 0, 0, 0, 0, 0, 0, 0, 0, 0, 0, 0, 0, 0xfb];

pub const SEC: Micros = 1_000_000;
/// per-server bound of the restated liveness claim
pub const PER_SERVER_BOUND: Micros = 25 * SEC;

#[derive(Clone, Copy, Debug, PartialEq)]
pub enum Kind {
    Silent,
    Good,
    WrongTxid,
    WrongDstPort,
    WrongSrcAddr,
    WrongSrcPort,
    WrongQName,
    WrongQType,
    QrZero,
    Opcode,
    QdCount0,
    QdCount2,
    Truncated,
    NxDomain,
    NxDomainOtherQuestion,
    Empty,
    ServFail,
    Many,
    CnameThenMalformed,
    CnameAway,
    OtherNameOnly,
    PointerTricks,
    Garbage,
    ClassNotIn,
    FromMdnsPort,
    TypeMix,
}

pub const ALL_KINDS: &[Kind] = &[
    Kind::Silent,
    Kind::Good,
    Kind::WrongTxid,
    Kind::WrongDstPort,
    Kind::WrongSrcAddr,
    Kind::WrongSrcPort,
    Kind::WrongQName,
    Kind::WrongQType,
    Kind::QrZero,
    Kind::Opcode,
    Kind::QdCount0,
    Kind::QdCount2,
    Kind::Truncated,
    Kind::NxDomain,
    Kind::NxDomainOtherQuestion,
    Kind::Empty,
    Kind::ServFail,
    Kind::Many,
    Kind::CnameThenMalformed,
    Kind::CnameAway,
    Kind::OtherNameOnly,
    Kind::PointerTricks,
    Kind::Garbage,
    Kind::ClassNotIn,
    Kind::FromMdnsPort,
    Kind::TypeMix,
];

#[derive(Clone, Debug)]
pub struct QuerySpec {
    pub name: String,
    pub aaaa: bool,
    pub start_at: Micros,
}

#[derive(Clone, Debug)]
pub struct DnsCfg {
    pub servers: Vec<Addr>,
    pub queries: Vec<QuerySpec>,
    pub iface_seed: u64,
    /// (kind, weight) menu for the reaction to an emitted query
    pub menu: Vec<(Kind, u32)>,
    /// chance of a second / third reaction to the same emission
    pub extra_pm: u32,
    pub latencies: Vec<Micros>,
    pub dup_pm: u32,
    pub early_poll_pm: u32,
    /// truncation point for Kind::Truncated is drawn per response unless fixed here
    pub trunc_at: Option<usize>,
    pub max_polls: u64,
    /// 0: `Medium::Ip` (no neighbors); 1: Ethernet, every next hop answers ARP / neighbor solicitations
    /// at once; 2: Ethernet, each next hop is dead (never answers) with probability 1/2; 3: Ethernet,
    /// each next hop starts answering only some time after it was first asked
    pub l2: u8,
}

#[derive(Default, Clone, Debug)]
pub struct DnsStats {
    pub polls: u64,
    pub evals: u64,
    pub queries_started: u64,
    pub queries_emitted: u64,
    pub neighbor_requests: u64,
    pub retransmissions: u64,
    pub server_switches: u64,
    pub responses_delivered: u64,
    pub responses_matching: u64,
    pub responses_wrong_one: u64,
    pub completed_ok: u64,
    pub completed_via_cname: u64,
    pub failed: u64,
    pub failed_by_timeout: u64,
    pub failed_by_response: u64,
    pub spacing_checks: u64,
    pub result_checks: u64,
    pub termination_checks: u64,
    pub icmp_from_host: u64,
    pub other_from_host: u64,
    pub rewritten_question_emitted: u64,
    pub early_polls: u64,
    pub max_virtual_time: Micros,
}

struct Q {
    handle: sdns::QueryHandle,
    name: Name,
    name_str: String,
    qtype: u16,
    mdns: bool,
    started_at: Micros,
    deadline: Micros,
    port: Option<u16>,
    txid: Option<u16>,
    /// (time, destination) of every emission
    emissions: Vec<(Micros, Addr)>,
    /// question name of the most recent emission (differs from `name` once the resolver rewrote it)
    last_emitted_question: Option<Name>,
    /// names the resolver may have put in place of `name`: questions it emitted later and every CNAME
    /// target in a response that carried the query's port and id
    rewrite_names: Vec<Name>,
    done: bool,
}

struct Pending {
    at: Micros,
    seq: u64,
    packet: Vec<u8>,
    label: String,
    /// already an Ethernet frame (ARP reply / neighbor advertisement): not a DNS response
    framed: bool,
}

const HOST_MAC: [u8; 6] = [0x02, 0, 0, 0, 0, 0x02];

fn mac_of(a: &Addr) -> [u8; 6] {
    match a {
        Addr::V4(x) => [0x02, 0x04, x[0], x[1], x[2], x[3]],
        Addr::V6(x) => [0x02, 0x06, x[0], x[1], x[14], x[15]],
    }
}

/// A delivered datagram as the oracle sees it.
struct Resp {
    src: Addr,
    sport: u16,
    dport: u16,
    msg: Option<dns::Msg>,
    label: String,
    raw: Vec<u8>,
}

pub struct DnsSim {
    pub cfg: DnsCfg,
    pub host: Host,
    handle: SocketHandle,
    pub now: Micros,
    qs: Vec<Q>,
    started: Vec<bool>,
    pub refused: u64,
    pending: Vec<Pending>,
    seq: u64,
    pub violations: Vec<Violation>,
    pub stats: DnsStats,
    pub classes: Vec<String>,
    pub trace: Vec<String>,
    pub trace_on: bool,
    /// Ethernet runs: per next hop, the instant from which it answers (None: never)
    hops: Vec<(Addr, Option<Micros>)>,
}

fn hex(b: &[u8]) -> String {
    let mut s = String::with_capacity(b.len() * 2);
    for x in b {
        s.push_str(&format!("{:02x}", x));
    }
    s
}

fn v4(a: [u8; 4]) -> IpAddress {
    IpAddress::Ipv4(Ipv4Address::new(a[0], a[1], a[2], a[3]))
}
fn v6(a: [u8; 16]) -> IpAddress {
    IpAddress::Ipv6(Ipv6Address::from(a))
}

impl DnsSim {
    pub fn new(cfg: DnsCfg) -> DnsSim {
        let addrs = [
            IpCidr::new(v4(HOST_V4), 24),
            IpCidr::new(v6(HOST_V6), 64),
            IpCidr::new(v6(HOST_LL), 64),
        ];
        let mut host = if cfg.l2 == 0 {
            Host::new(Medium::Ip, 1500, HardwareAddress::Ip, cfg.iface_seed, &addrs, 0)
        } else {
            Host::new(Medium::Ethernet, 1514, HardwareAddress::Ethernet(smoltcp::wire::EthernetAddress(HOST_MAC)), cfg.iface_seed, &addrs, 0)
        };
        let _ = host.iface.routes_mut().add_default_ipv4_route(Ipv4Address::new(10, 0, 0, 1));
        let _ = host.iface.routes_mut().add_default_ipv6_route(Ipv6Address::from([0xfe, 0x80, 0, 0, 0, 0, 0, 0, 0, 0, 0, 0, 0, 0, 0, 1]));
        let servers: Vec<IpAddress> = cfg.servers.iter().map(|a| a.to_smol()).collect();
        let sock = sdns::Socket::new(&servers, vec![]);
        let handle = host.sockets.add(sock);
        let nq = cfg.queries.len();
        DnsSim {
            cfg,
            host,
            handle,
            now: 0,
            qs: Vec::new(),
            started: vec![false; nq],
            refused: 0,
            pending: Vec::new(),
            seq: 0,
            violations: Vec::new(),
            stats: DnsStats::default(),
            classes: Vec::new(),
            trace: Vec::new(),
            trace_on: false,
            hops: Vec::new(),
        }
    }

    /// Ethernet runs: a frame from the host.  ARP requests and neighbor solicitations are answered
    /// according to the run's neighbor model, IP packets go to `observe_emission`.
    fn observe_frame(&mut self, rng: &mut Rng, frame: &[u8]) {
        if self.cfg.l2 == 0 {
            return self.observe_emission(rng, frame);
        }
        let Ok((e, payload)) = mini::parse_eth(frame) else {
            self.stats.other_from_host += 1;
            return;
        };
        let now = self.now;
        match e.ethertype {
            mini::ET_ARP => {
                let Ok(a) = mini::parse_arp(payload) else { return };
                if a.op != 1 {
                    return;
                }
                let target = Addr::V4(a.tpa);
                self.stats.neighbor_requests += 1;
                if self.hop_answers(rng, target) {
                    let mac = mac_of(&target);
                    let rep = mini::build_arp(&Arp { op: 2, sha: mac, spa: a.tpa, tha: a.sha, tpa: a.spa });
                    self.seq += 1;
                    self.pending.push(Pending { at: now, seq: self.seq, packet: mini::eth(&a.sha, &mac, mini::ET_ARP, &rep), label: format!("ARP reply {} is-at {:02x?}", target, mac), framed: true });
                }
            }
            mini::ET_IPV4 | mini::ET_IPV6 => {
                if let Ok(i) = ip::parse(payload, true) {
                    let body = &payload[i.payload_off..i.payload_off + i.payload_len];
                    if i.proto == ip::PROTO_ICMPV6 && body.len() >= 24 && body[0] == 135 {
                        let mut t = [0u8; 16];
                        t.copy_from_slice(&body[8..24]);
                        let target = Addr::V6(t);
                        self.stats.neighbor_requests += 1;
                        if !i.src.is_unspecified() && self.hop_answers(rng, target) {
                            let mac = mac_of(&target);
                            let na = mini::build_ndisc(&target, &i.src, 136, 0x60, &t, Some(2), &mac);
                            let pkt = ip::build(&target, &i.src, ip::PROTO_ICMPV6, 255, &na);
                            self.seq += 1;
                            self.pending.push(Pending { at: now, seq: self.seq, packet: mini::eth(&e.src, &mac, mini::ET_IPV6, &pkt), label: format!("neighbor advertisement {} is-at {:02x?}", target, mac), framed: true });
                        }
                        return;
                    }
                }
                self.observe_emission(rng, payload)
            }
            _ => self.stats.other_from_host += 1,
        }
    }

    fn hop_answers(&mut self, rng: &mut Rng, a: Addr) -> bool {
        let now = self.now;
        let from = match self.hops.iter().find(|h| h.0 == a) {
            Some(h) => h.1,
            None => {
                let f = match self.cfg.l2 {
                    1 => Some(now),
                    2 => {
                        if rng.bool() {
                            None
                        } else {
                            Some(now)
                        }
                    }
                    _ => Some(now + *rng.pick(&[0, 400_000, 2_500_000, 6_000_000, 12_000_000])),
                };
                self.hops.push((a, f));
                self.log(format!("   (next hop {} answers from {:?})", a, f));
                f
            }
        };
        matches!(from, Some(t) if t <= now)
    }

    fn log(&mut self, s: String) {
        if self.trace_on {
            println!("[{:>10}us] {}", self.now, s);
        }
        if self.trace.len() < 80 {
            self.trace.push(format!("[{}us] {}", self.now, s));
        }
    }

    fn class(&mut self, c: String) {
        if !self.classes.contains(&c) {
            self.classes.push(c);
        }
    }

    fn violate(&mut self, sig: &str, desc: String) {
        if self.trace_on {
            println!("[{:>10}us] VIOLATION {}: {}", self.now, sig, desc);
        }
        if self.violations.iter().any(|v| v.sig == sig) {
            return;
        }
        let detail = Json::obj()
            .set("virtual_time_us", Json::Int(self.now))
            .set("servers", Json::s(format!("{:?}", self.cfg.servers.iter().map(|a| a.to_string()).collect::<Vec<_>>())))
            .set("queries", Json::s(format!("{:?}", self.cfg.queries)))
            .set("trace_head", Json::Arr(self.trace.iter().take(60).map(|s| Json::s(s.clone())).collect()));
        self.violations.push(Violation::new(sig, desc).with(detail));
    }

    fn effective_servers(&self, mdns: bool) -> usize {
        if mdns {
            2
        } else {
            self.cfg.servers.len().min(MAX_SERVERS)
        }
    }

    fn start_due_queries(&mut self) {
        let now = self.now;
        let specs = self.cfg.queries.clone();
        for (i, spec) in specs.iter().enumerate() {
            if self.started[i] || spec.start_at > now {
                continue;
            }
            self.started[i] = true;
            let ty = if spec.aaaa { DnsQueryType::Aaaa } else { DnsQueryType::A };
            let cx = self.host.iface.context();
            let sock = self.host.sockets.get_mut::<sdns::Socket>(self.handle);
            match sock.start_query(cx, &spec.name, ty) {
                Ok(h) => {
                    let name = dns::name_from_str(&spec.name);
                    let mdns = name.last().map(|l| l.as_slice() == b"local").unwrap_or(false);
                    // One dns::Socket sends one datagram per dispatch and stops at the first query whose
                    // datagram cannot leave (next hop unresolved): the queries behind it wait, their own
                    // per-server timeouts start later.  With slow or dead next hops the bound is therefore
                    // the sum over all queries of the run.
                    let n = self.effective_servers(mdns) as Micros * if self.cfg.l2 >= 2 { specs.len().max(1) as Micros } else { 1 };
                    self.stats.queries_started += 1;
                    self.qs.push(Q {
                        handle: h,
                        name,
                        name_str: spec.name.clone(),
                        qtype: if spec.aaaa { dns::TYPE_AAAA } else { dns::TYPE_A },
                        mdns,
                        started_at: now,
                        deadline: now + n * PER_SERVER_BOUND,
                        port: None,
                        txid: None,
                        emissions: Vec::new(),
                        last_emitted_question: None,
                        rewrite_names: Vec::new(),
                        done: false,
                    });
                    self.log(format!("app: start_query({:?}, {}) ", spec.name, if spec.aaaa { "AAAA" } else { "A" }));
                }
                Err(e) => {
                    self.refused += 1;
                    self.log(format!("app: start_query({:?}) refused: {:?}", spec.name, e));
                }
            }
        }
    }

    fn schedule(&mut self, at: Micros, packet: Vec<u8>, label: String) {
        self.seq += 1;
        self.pending.push(Pending { at, seq: self.seq, packet, label, framed: false });
    }

    // ------------------------------------------------------------ run

    pub fn run(&mut self, rng: &mut Rng) {
        let mut idle_spins = 0;
        loop {
            if self.stats.polls >= self.cfg.max_polls {
                break;
            }
            let now = self.now;
            self.stats.max_virtual_time = now;
            self.start_due_queries();

            // ---- deliver
            let mut due: Vec<Pending> = Vec::new();
            let mut i = 0;
            while i < self.pending.len() {
                if self.pending[i].at <= now {
                    due.push(self.pending.swap_remove(i));
                } else {
                    i += 1;
                }
            }
            due.sort_by_key(|p| (p.at, p.seq));
            let mut batch: Vec<Resp> = Vec::new();
            for p in due {
                if p.framed {
                    self.log(format!("-> host: {}", p.label));
                    self.host.dev.rx.push_back(p.packet);
                    continue;
                }
                self.stats.responses_delivered += 1;
                if let Some(r) = judge_packet(&p.packet, &p.label) {
                    if self.qs.iter().any(|q| !q.done && self.mismatches(q, &r).is_empty()) {
                        self.stats.responses_matching += 1;
                    }
                    if let Some(m) = &r.msg {
                        for q in self.qs.iter_mut() {
                            if q.done || q.port != Some(r.dport) || q.txid != Some(m.id) {
                                continue;
                            }
                            for rec in &m.records {
                                if let Some(t) = &rec.target {
                                    if q.rewrite_names.len() < 64 && !dns::name_eq(t, &q.name) && !q.rewrite_names.iter().any(|n| dns::name_eq(n, t)) {
                                        q.rewrite_names.push(t.clone());
                                    }
                                }
                            }
                        }
                    }
                    batch.push(r);
                }
                self.log(format!("-> host: {} [{}]", p.label, hex(&p.packet[..p.packet.len().min(96)])));
                if self.cfg.l2 == 0 {
                    self.host.dev.rx.push_back(p.packet);
                } else {
                    // from the station that owns the source address (a wrong-source response comes from that other station)
                    let (et, smac) = match ip::parse(&p.packet, false) {
                        Ok(i) => (if i.src.is_v4() { mini::ET_IPV4 } else { mini::ET_IPV6 }, mac_of(&i.src)),
                        Err(_) => (if p.packet.first().map(|b| b >> 4) == Some(6) { mini::ET_IPV6 } else { mini::ET_IPV4 }, [0x02, 0xee, 0, 0, 0, 1]),
                    };
                    self.host.dev.rx.push_back(mini::eth(&HOST_MAC, &smac, et, &p.packet));
                }
            }

            // ---- poll
            let out = self.host.poll(now);
            self.stats.polls += 1;
            let progressed = out.rx_count > 0 || !out.tx.is_empty();
            for rec in &out.tx {
                self.observe_frame(rng, &rec.data);
            }

            // ---- results
            self.collect_results(&batch);

            // ---- termination bound
            for k in 0..self.qs.len() {
                if !self.qs[k].done {
                    self.stats.termination_checks += 1;
                    self.stats.evals += 1;
                    if now > self.qs[k].deadline {
                        let q = &self.qs[k];
                        let d = format!(
                            "query {:?} started at t={}us is still Pending at t={}us: bound {} server(s) x 25 s{} exceeded; emissions (time, destination): {:?}",
                            q.name_str, q.started_at, now, self.effective_servers(q.mdns), if self.cfg.l2 >= 2 { format!(" x {} queries of the run (next hops slow or dead)", self.cfg.queries.len()) } else { String::new() }, q.emissions.iter().map(|e| (e.0, e.1.to_string())).collect::<Vec<_>>()
                        );
                        self.violate("dns:termination:pending-beyond-bound", d);
                        self.qs[k].done = true;
                    }
                }
            }

            // ---- next instant
            let all_started = self.started.iter().all(|s| *s);
            let all_done = all_started && self.qs.iter().all(|q| q.done);
            if all_done && self.pending.is_empty() {
                break;
            }
            let pa = self.host.poll_at(now);
            let next_delivery = self.pending.iter().map(|p| p.at).min();
            let next_start = self.cfg.queries.iter().enumerate().filter(|(i, _)| !self.started[*i]).map(|(_, q)| q.start_at).min();
            let mut next = [pa, next_delivery, next_start].iter().flatten().copied().min();
            if next.is_none() {
                // nothing scheduled although a query is pending: jump beyond the bound so that the termination check decides
                let d = self.qs.iter().filter(|q| !q.done).map(|q| q.deadline).max();
                match d {
                    Some(d) if now <= d => next = Some(d + 1),
                    _ => break,
                }
            }
            let mut next = next.unwrap();
            if next <= now {
                next = now;
                if progressed {
                    idle_spins = 0;
                } else {
                    idle_spins += 1;
                    if idle_spins > 8 {
                        // poll_at answers "now" although nothing happens; let time pass (C13 judges that)
                        next = now + SEC / 2;
                        idle_spins = 0;
                    }
                }
            } else if rng.below(1000) < self.cfg.early_poll_pm as u64 && next - now > 1 {
                let gap = next - now;
                next = now + (gap / *rng.pick(&[2i64, 3, 10, 1000])).max(1);
                self.stats.early_polls += 1;
            }
            self.now = next;
        }
    }

    fn collect_results(&mut self, batch: &[Resp]) {
        let now = self.now;
        for k in 0..self.qs.len() {
            if self.qs[k].done {
                continue;
            }
            let h = self.qs[k].handle;
            let res = self.host.sockets.get_mut::<sdns::Socket>(self.handle).get_query_result(h);
            let res = match res {
                Err(sdns::GetQueryResultError::Pending) => continue,
                Ok(v) => Ok(v.iter().map(|a| Addr::from_smol(*a)).collect::<Vec<Addr>>()),
                Err(sdns::GetQueryResultError::Failed) => Err(()),
            };
            self.qs[k].done = true;
            self.stats.result_checks += 1;
            self.stats.evals += 1;
            // which of the responses handed over before this poll match the query in every respect?
            let mut matching: Vec<&Resp> = Vec::new();
            // responses that match in everything but the question name, which is the name the resolver
            // itself put into its latest retransmission (CNAME rewrite of the pending name)
            let mut rewritten_matching: Vec<&Resp> = Vec::new();
            // the non-matching response that most plausibly caused the result: one that carries the
            // query's port and id if there is one, then the one failing the fewest conditions
            let mut best_miss: Option<(usize, String, String)> = None;
            for r in batch {
                let fails = self.mismatches(&self.qs[k], r);
                if fails.is_empty() {
                    matching.push(r);
                    continue;
                }
                let demux_ok = !fails.iter().any(|f| f == "port" || f == "txid" || f == "malformed");
                let mut kind = fails.join("+");
                let mut rank = 10 * fails.len() + if demux_ok { 0 } else { 1000 };
                if let Some(m) = &r.msg {
                    if let Some(qq) = m.questions.first() {
                        let rewritten = qq.name_ok && self.qs[k].rewrite_names.iter().any(|n| dns::name_eq(n, &qq.name));
                        if rewritten && fails.iter().any(|f| f == "qname") {
                            kind = kind.replace("qname", "qname(as-rewritten-by-cname)");
                            rank = rank.saturating_sub(3);
                            if fails.len() == 1 {
                                rewritten_matching.push(r);
                            }
                        }
                    }
                    if m.rcode() == dns::RCODE_NXDOMAIN {
                        kind = format!("nxdomain:{}", kind);
                        rank = rank.saturating_sub(5);
                    }
                }
                if best_miss.as_ref().map_or(true, |b| rank < b.0) {
                    best_miss = Some((rank, kind, format!("{} [{}]", r.label, hex(&r.raw))));
                }
            }
            let q = &self.qs[k];
            let qdesc = format!(
                "query {:?} type {} (source port {:?}, id {:?}, started t={}us)",
                q.name_str,
                q.qtype,
                q.port,
                q.txid.map(|x| format!("{:#06x}", x)),
                q.started_at
            );
            match res {
                Ok(addrs) => {
                    self.stats.completed_ok += 1;
                    let mut allowed: Vec<Addr> = Vec::new();
                    let mut via_cname = false;
                    for r in &matching {
                        if let Some(m) = &r.msg {
                            let chain = dns::cname_closure(&q.name, &m.records);
                            if chain.len() > 1 {
                                via_cname = true;
                            }
                            allowed.extend(dns::addresses_of(&chain, &m.records));
                        }
                    }
                    let astr = addrs.iter().map(|a| a.to_string()).collect::<Vec<_>>();
                    // can the result be explained only by a response to the rewritten question?
                    let mut allowed_rewritten: Vec<Addr> = allowed.clone();
                    for r in &rewritten_matching {
                        if let Some(m) = &r.msg {
                            if let Some(qq) = m.questions.first() {
                                let chain = dns::cname_closure(&qq.name, &m.records);
                                allowed_rewritten.extend(dns::addresses_of(&chain, &m.records));
                            }
                        }
                    }
                    let ok_plain = !addrs.is_empty() && !matching.is_empty() && addrs.iter().all(|a| allowed.contains(a));
                    let ok_rewritten = !addrs.is_empty() && !rewritten_matching.is_empty() && addrs.iter().all(|a| allowed_rewritten.contains(a));
                    if !ok_plain && ok_rewritten {
                        let r = rewritten_matching[0];
                        self.violate(
                            "dns:result:from-non-matching-response:qname(as-rewritten-by-cname)",
                            format!(
                                "{} completed with {:?} at t={}us from a response that does not repeat the name the application asked for but {:?}, a CNAME target that an earlier (incomplete) response made the resolver substitute for the pending name: {} [{}]",
                                qdesc, astr, now, r.msg.as_ref().and_then(|m| m.questions.first()).map(|x| dns::name_str(&x.name)).unwrap_or_default(), r.label, hex(&r.raw)
                            ),
                        );
                    } else if matching.is_empty() {
                        let (kind, why) = match &best_miss {
                            Some((_, k, d)) => (k.clone(), format!("closest response handed over before this poll fails on [{}]: {}", k, d)),
                            None => ("no-response".to_string(), "no response was handed over before this poll".to_string()),
                        };
                        self.violate(
                            &format!("dns:result:from-non-matching-response:{}", kind),
                            format!("{} completed with {:?} at t={}us, but {}", qdesc, astr, now, why),
                        );
                    } else if addrs.is_empty() {
                        self.violate("dns:result:empty-address-list", format!("{} completed with an empty address list at t={}us", qdesc, now));
                    } else if let Some(bad) = addrs.iter().find(|a| !allowed.contains(a)) {
                        let r = matching[0];
                        self.violate(
                            "dns:result:address-not-on-cname-chain",
                            format!(
                                "{} completed with {:?} at t={}us; {} is not the address of any record whose owner lies on the CNAME chain from the queried name in the matching response {} [{}] (addresses on the chain: {:?})",
                                qdesc, astr, now, bad, r.label, hex(&r.raw), allowed.iter().map(|a| a.to_string()).collect::<Vec<_>>()
                            ),
                        );
                    } else {
                        if via_cname {
                            self.stats.completed_via_cname += 1;
                        }
                        let fam = if addrs[0].is_v4() { "v4" } else { "v6" };
                        let c = format!("ok:{}:{}:{}", if q.qtype == dns::TYPE_A { "A" } else { "AAAA" }, fam, if via_cname { "cname" } else { "direct" });
                        self.class(c);
                    }
                    self.log(format!("RESULT {} -> Ok({:?})", qdesc, astr));
                }
                Err(()) => {
                    self.stats.failed += 1;
                    // on Ethernet (neighbor discovery first, at most one request per second) the first transmission on the wire is later than the
                    // instant the resolver turned to the server: the 10 s are then counted from the start
                    let relaxed = self.cfg.l2 >= 1;
                    let first = if relaxed { q.emissions.first().map(|_| q.started_at) } else { q.emissions.first().map(|e| e.0) };
                    let timed_out = match first {
                        Some(f) => now >= f + 10 * SEC,
                        None => false,
                    };
                    if !matching.is_empty() {
                        self.stats.failed_by_response += 1;
                        self.class("failed:by-matching-response".into());
                    } else if timed_out {
                        self.stats.failed_by_timeout += 1;
                        self.class(format!("failed:timeout:{}-servers", self.effective_servers(q.mdns)));
                    } else if first.is_some() {
                        let why = match &best_miss {
                            Some((_, k, d)) => format!("the closest response handed over before this poll fails on [{}]: {}", k, d),
                            None => "no response was handed over before this poll".to_string(),
                        };
                        let kind = best_miss.as_ref().map(|b| b.1.clone()).unwrap_or_else(|| "no-response".into());
                        self.violate(
                            &format!("dns:failure:from-non-matching-response:{}", kind),
                            format!("{} was reported Failed at t={}us, less than 10 s after its first transmission{} (t={}us), although {}", qdesc, now, if relaxed { " at the earliest" } else { "" }, first.unwrap(), why),
                        );
                    } else {
                        self.class("failed:never-emitted".into());
                    }
                    self.log(format!("RESULT {} -> Failed", qdesc));
                }
            }
        }
    }

    /// The conditions of the property a response fails with respect to a query (empty: it matches).
    fn mismatches(&self, q: &Q, r: &Resp) -> Vec<String> {
        let mut f: Vec<String> = Vec::new();
        let from_server = r.sport == 53 && self.cfg.servers.iter().take(MAX_SERVERS).any(|s| *s == r.src);
        let from_mdns = r.sport == 5353;
        if !from_server && !from_mdns {
            f.push("source".into());
        }
        if Some(r.dport) != q.port {
            f.push("port".into());
        }
        match &r.msg {
            None => f.push("malformed".into()),
            Some(m) => {
                if Some(m.id) != q.txid {
                    f.push("txid".into());
                }
                if !m.qr() {
                    f.push("qr".into());
                }
                match m.questions.first() {
                    None => f.push("question".into()),
                    Some(qq) => {
                        if !qq.name_ok || !dns::name_eq(&qq.name, &q.name) {
                            f.push("qname".into());
                        }
                        if qq.qtype != q.qtype {
                            f.push("qtype".into());
                        }
                    }
                }
            }
        }
        f
    }

    // ------------------------------------------------------------ emissions and reactions

    fn observe_emission(&mut self, rng: &mut Rng, data: &[u8]) {
        let now = self.now;
        let Ok(i) = ip::parse(data, true) else {
            self.stats.other_from_host += 1;
            return;
        };
        if i.proto == ip::PROTO_ICMP || i.proto == ip::PROTO_ICMPV6 {
            self.stats.icmp_from_host += 1;
            return;
        }
        if i.proto != ip::PROTO_UDP {
            self.stats.other_from_host += 1;
            return;
        }
        let Ok(u) = udp::parse(&i.src, &i.dst, &data[i.payload_off..i.payload_off + i.payload_len]) else {
            self.stats.other_from_host += 1;
            return;
        };
        let Ok(m) = dns::parse(&u.payload) else {
            self.stats.other_from_host += 1;
            return;
        };
        self.stats.queries_emitted += 1;
        // attribute to a query: known (port, id) first, else an unbound query with this question
        let mut idx = self.qs.iter().position(|q| q.port == Some(u.sport) && q.txid == Some(m.id));
        if idx.is_none() {
            if let Some(qq) = m.questions.first() {
                idx = self.qs.iter().position(|q| q.port.is_none() && dns::name_eq(&q.name, &qq.name) && q.qtype == qq.qtype);
            }
        }
        let qn = m.questions.first().map(|q| dns::name_str(&q.name)).unwrap_or_default();
        self.log(format!("<- host: query id={:#06x} {}:{} -> {}:{} {:?} type {:?}", m.id, i.src, u.sport, i.dst, u.dport, qn, m.questions.first().map(|q| q.qtype)));
        let Some(k) = idx else {
            self.stats.other_from_host += 1;
            return;
        };
        if self.qs[k].port.is_none() {
            self.qs[k].port = Some(u.sport);
            self.qs[k].txid = Some(m.id);
        }
        // --- spacing per server
        let prev_same: Vec<Micros> = self.qs[k].emissions.iter().filter(|e| e.1 == i.dst).map(|e| e.0).collect();
        let first_to_other: Option<Micros> = {
            let q = &self.qs[k];
            // first emission to the previous server (the most recent destination different from this one)
            q.emissions.iter().rev().find(|e| e.1 != i.dst).map(|last_other| q.emissions.iter().find(|e| e.1 == last_other.1).unwrap().0)
        };
        let name_str = self.qs[k].name_str.clone();
        if self.cfg.l2 >= 1 {
            // (on Ethernet a datagram can be held back by neighbor discovery - one request per second for
            // all neighbors - and by a query in front of it whose next hop does not answer: the spacing
            // seen on the wire is then not the resolver's)
            self.stats.retransmissions += prev_same.len().min(1) as u64;
        } else if let Some(&last) = prev_same.last() {
            self.stats.retransmissions += 1;
            self.stats.spacing_checks += 1;
            self.stats.evals += 1;
            let gap = now - last;
            if gap > 10 * SEC {
                self.violate(
                    "dns:retransmit:gap-above-10s",
                    format!("query {:?}: {}us between consecutive transmissions to {} (t={}us, t={}us) under poll_at-driven polling", name_str, gap, i.dst, last, now),
                );
            }
            if prev_same.len() >= 2 {
                let prev_gap = last - prev_same[prev_same.len() - 2];
                if gap < prev_gap {
                    self.violate(
                        "dns:retransmit:gap-decreasing",
                        format!("query {:?}: transmissions to {} at {:?} and now t={}us: gap {}us after gap {}us (back-off must not shrink)", name_str, i.dst, prev_same, now, gap, prev_gap),
                    );
                }
            }
            self.class(format!("retransmit-gap:{}s", gap / SEC));
        } else if let Some(first_prev) = first_to_other {
            self.stats.server_switches += 1;
            self.stats.spacing_checks += 1;
            self.stats.evals += 1;
            let d = now - first_prev;
            // (with slow or dead next hops the first transmission to a server can be later than the
            // instant the resolver turned to it: the 10 s are then not observable on the wire)
            if d < 10 * SEC {
                self.violate(
                    "dns:server-switch:before-10s",
                    format!("query {:?}: first transmission to {} at t={}us, only {}us after the first transmission to the previous server (t={}us)", name_str, i.dst, now, d, first_prev),
                );
            }
            if d > PER_SERVER_BOUND {
                self.violate(
                    "dns:server-switch:after-25s",
                    format!("query {:?}: first transmission to {} at t={}us, {}us after the first transmission to the previous server (t={}us)", name_str, i.dst, now, d, first_prev),
                );
            }
            self.class(format!("server-switch-after:{}s", d / SEC));
        }
        self.qs[k].emissions.push((now, i.dst));
        if let Some(qq) = m.questions.first() {
            self.qs[k].last_emitted_question = Some(qq.name.clone());
            if !dns::name_eq(&qq.name, &self.qs[k].name) {
                if !self.qs[k].rewrite_names.iter().any(|n| dns::name_eq(n, &qq.name)) {
                    self.qs[k].rewrite_names.push(qq.name.clone());
                }
                self.stats.rewritten_question_emitted += 1;
                self.class("emitted-question-differs-from-started-query".into());
            }
        }
        // --- the servers react
        let mut n = 1;
        while n < 3 && rng.below(1000) < self.cfg.extra_pm as u64 {
            n += 1;
        }
        for _ in 0..n {
            let kind = self.pick_kind(rng);
            self.react(rng, kind, &i, &u, &m, k);
        }
    }

    fn pick_kind(&self, rng: &mut Rng) -> Kind {
        let total: u32 = self.cfg.menu.iter().map(|m| m.1).sum();
        let mut x = rng.below(total.max(1) as u64) as u32;
        for (k, w) in &self.cfg.menu {
            if x < *w {
                return *k;
            }
            x -= *w;
        }
        Kind::Good
    }

    fn react(&mut self, rng: &mut Rng, kind: Kind, i: &ip::IpInfo, u: &udp::Dgram, m: &dns::Msg, k: usize) {
        if kind == Kind::Silent {
            self.log("   (no answer)".into());
            return;
        }
        let Some(qq) = m.questions.first().cloned() else { return };
        let v6 = !i.src.is_v4();
        // where the answer comes from / goes to
        let mut src = if i.dst.is_multicast() {
            if v6 { Addr::V6([0xfe, 0x80, 0, 0, 0, 0, 0, 0, 0, 0, 0, 0, 0, 0, 0, 0x99]) } else { Addr::V4([10, 0, 0, 99]) }
        } else {
            i.dst
        };
        let dst = i.src;
        let mut sport = u.dport;
        let mut dport = u.sport;
        let mut id = m.id;
        let mut flags = dns::FLAG_QR | dns::FLAG_RD | dns::FLAG_RA;
        let mut qname = qq.name.clone();
        let mut qtype = qq.qtype;
        let mut qd_override: Option<u16> = None;
        let other_name = dns::name_from_str(&format!("other{}.example.net", rng.below(50)));
        match kind {
            Kind::WrongTxid => id = id.wrapping_add(1 + rng.below(0xfffe) as u16),
            Kind::WrongDstPort => dport = if rng.bool() { dport.wrapping_add(1).max(1025) } else { 1025 + rng.below(60000) as u16 },
            Kind::WrongSrcAddr => {
                src = if v6 { Addr::V6([0xfd, 0, 0, 0, 0, 0, 0, 0, 0, 0, 0, 0, 0, 0, 0x66, rng.u8() | 1]) } else { Addr::V4([10, 0, 0, 100 + rng.below(100) as u8]) };
            }
            Kind::WrongSrcPort => sport = *rng.pick(&[54u16, 52, 5354, 1053, 0]),
            Kind::FromMdnsPort => {
                sport = 5353;
                if rng.bool() {
                    src = if v6 { Addr::V6([0xfd, 0, 0, 0, 0, 0, 0, 0, 0, 0, 0, 0, 0, 0, 0x77, 1]) } else { Addr::V4([10, 0, 0, 77]) };
                }
            }
            Kind::WrongQName => {
                qname = match rng.below(6) {
                    4 | 5 => {
                        // near miss: one octet differs from the query in a single bit - bit 5 of a
                        // non-letter ("case folding" applied to digits, '-' or '_'), or any other bit
                        let mut n = qname.clone();
                        let l = rng.usize_below(n.len().max(1));
                        if let Some(lab) = n.get_mut(l) {
                            let cands: Vec<usize> = (0..lab.len()).filter(|i| !lab[*i].is_ascii_alphabetic()).collect();
                            if !cands.is_empty() && rng.chance(2, 3) {
                                let p = *rng.pick(&cands);
                                lab[p] ^= 0x20;
                            } else if !lab.is_empty() {
                                let p = rng.usize_below(lab.len());
                                let bit = *rng.pick(&[0x01u8, 0x02, 0x04, 0x08, 0x10, 0x40, 0x80]);
                                lab[p] ^= bit;
                            }
                        }
                        n
                    }
                    0 => other_name.clone(),
                    1 => {
                        // one label more
                        let mut n = qname.clone();
                        n.insert(0, b"www".to_vec());
                        n
                    }
                    2 if qname.len() > 1 => qname[1..].to_vec(),
                    _ => {
                        // one octet of one label changed (not only in case)
                        let mut n = qname.clone();
                        let l = rng.usize_below(n.len().max(1));
                        if let Some(lab) = n.get_mut(l) {
                            let p = rng.usize_below(lab.len());
                            lab[p] = if lab[p] == b'z' { b'y' } else { b'z' };
                        }
                        n
                    }
                };
                if dns::name_eq(&qname, &qq.name) {
                    qname = other_name.clone();
                }
            }
            Kind::WrongQType => qtype = if qtype == dns::TYPE_A { *rng.pick(&[dns::TYPE_AAAA, dns::TYPE_CNAME, 255]) } else { *rng.pick(&[dns::TYPE_A, dns::TYPE_CNAME, 255]) },
            Kind::QrZero => flags &= !dns::FLAG_QR,
            Kind::Opcode => flags |= (1 + rng.below(15) as u16) << 11,
            Kind::QdCount0 => qd_override = Some(0),
            Kind::QdCount2 => qd_override = Some(2),
            Kind::NxDomain => flags |= dns::RCODE_NXDOMAIN,
            Kind::NxDomainOtherQuestion => {
                flags |= dns::RCODE_NXDOMAIN;
                qname = other_name.clone();
            }
            Kind::ServFail => flags |= 2,
            _ => {}
        }
        if matches!(
            kind,
            Kind::WrongTxid | Kind::WrongDstPort | Kind::WrongSrcAddr | Kind::WrongSrcPort | Kind::WrongQName | Kind::WrongQType | Kind::QrZero | Kind::Opcode | Kind::QdCount0 | Kind::QdCount2
        ) {
            self.stats.responses_wrong_one += 1;
        }

        // ---- the answer section
        let want_v6 = qq.qtype == dns::TYPE_AAAA;
        let mut b = Builder::new(id, flags, 1, 0, 0, 0);
        let mut an: u16 = 0;
        let mut qd: u16 = 1;
        let addr_rdata = |rng: &mut Rng, v6: bool| -> Vec<u8> {
            if v6 {
                let mut a = vec![0x20, 0x01, 0x0d, 0xb8];
                a.extend_from_slice(&rng.bytes(12));
                a
            } else {
                vec![198, 51, 100 + rng.below(3) as u8, rng.u8()]
            }
        };
        let (rt, rv6) = if want_v6 { (dns::TYPE_AAAA, true) } else { (dns::TYPE_A, false) };
        match kind {
            Kind::QdCount0 => {
                // no question at all, answers follow directly
                qd = 0;
                let rd = addr_rdata(rng, rv6);
                b.record(&NameEnc::Plain(qname.clone()), rt, dns::CLASS_IN, 60, &rd);
                an = 1;
            }
            Kind::Garbage => {
                let n = rng.sizeish(300);
                let g = rng.bytes(n);
                b.buf.extend_from_slice(&g);
                // counts are random as well
                let c = rng.bytes(8);
                b.buf[4..12].copy_from_slice(&c);
                if rng.bool() {
                    b.buf[4] = 0;
                    b.buf[5] = 1;
                }
                qd = u16::from_be_bytes([b.buf[4], b.buf[5]]);
                an = u16::from_be_bytes([b.buf[6], b.buf[7]]);
            }
            _ => {
                let qoff = b.question(&NameEnc::Plain(qname.clone()), qtype, dns::CLASS_IN);
                if kind == Kind::QdCount2 {
                    b.question(&NameEnc::Plain(other_name.clone()), qtype, dns::CLASS_IN);
                }
                let owner_q = |rng: &mut Rng| -> NameEnc {
                    match rng.below(4) {
                        0 => NameEnc::Plain(qname.clone()),
                        1 if qname.len() > 1 => {
                            // first label spelled out, the rest by pointer into the question
                            let skip = 1 + qname[0].len() as u16;
                            NameEnc::Labels(vec![qname[0].clone()], qoff + skip)
                        }
                        _ => NameEnc::Ptr(qoff),
                    }
                };
                match kind {
                    Kind::NxDomain | Kind::NxDomainOtherQuestion | Kind::Empty | Kind::ServFail => {}
                    Kind::OtherNameOnly => {
                        let rd = addr_rdata(rng, rv6);
                        b.record(&NameEnc::Plain(other_name.clone()), rt, dns::CLASS_IN, 60, &rd);
                        an += 1;
                    }
                    Kind::ClassNotIn => {
                        let rd = addr_rdata(rng, rv6);
                        let o = owner_q(rng);
                        b.record(&o, rt, *rng.pick(&[3u16, 4, 255, 0]), 60, &rd);
                        an += 1;
                    }
                    Kind::TypeMix => {
                        // records of the other address family and of unrelated types under the queried name
                        for _ in 0..rng.range(1, 4) {
                            let (t, rd) = match rng.below(4) {
                                0 => (dns::TYPE_A, addr_rdata(rng, false)),
                                1 => (dns::TYPE_AAAA, addr_rdata(rng, true)),
                                2 => (16u16, vec![3, b'a', b'b', b'c']),
                                _ => (dns::TYPE_NS, dns::name_wire(&other_name)),
                            };
                            let o = owner_q(rng);
                            b.record(&o, t, dns::CLASS_IN, 60, &rd);
                            an += 1;
                        }
                    }
                    Kind::Many => {
                        let n = rng.range(5, 80);
                        for j in 0..n {
                            let own = if rng.chance(1, 4) { NameEnc::Plain(other_name.clone()) } else { owner_q(rng) };
                            let rd = addr_rdata(rng, if j % 7 == 3 { !rv6 } else { rv6 });
                            b.record(&own, if rd.len() == 4 { dns::TYPE_A } else { dns::TYPE_AAAA }, dns::CLASS_IN, 60, &rd);
                            an += 1;
                        }
                    }
                    Kind::PointerTricks => {
                        let trick = rng.below(6);
                        let at = b.pos();
                        let rd = addr_rdata(rng, rv6);
                        match trick {
                            0 => {
                                // owner is a pointer to itself
                                b.record(&NameEnc::Ptr(at), rt, dns::CLASS_IN, 60, &rd);
                            }
                            1 => {
                                // two pointers pointing at each other: the owner points forward into RDATA of a TXT-like record
                                b.record(&NameEnc::Ptr(at + 2 + 10), 16, dns::CLASS_IN, 60, &[0xC0 | (at >> 8) as u8, at as u8]);
                            }
                            2 => {
                                // forward pointer to the name spelled out in a later record
                                let fwd = at + 2 + 10 + rd.len() as u16;
                                b.record(&NameEnc::Ptr(fwd), rt, dns::CLASS_IN, 60, &rd);
                                let rd2 = addr_rdata(rng, rv6);
                                b.record(&NameEnc::Plain(qname.clone()), rt, dns::CLASS_IN, 60, &rd2);
                                an += 1;
                            }
                            3 => {
                                // pointer into the header
                                b.record(&NameEnc::Ptr(rng.below(12) as u16), rt, dns::CLASS_IN, 60, &rd);
                            }
                            4 => {
                                // pointer beyond the end of the message
                                b.record(&NameEnc::Ptr(0x3fff - rng.below(100) as u16), rt, dns::CLASS_IN, 60, &rd);
                            }
                            _ => {
                                // reserved label types 01 / 10
                                b.record(&NameEnc::Raw(vec![*rng.pick(&[0x40u8, 0x80, 0x7f, 0xbf]), b'x', 0]), rt, dns::CLASS_IN, 60, &rd);
                            }
                        }
                        an += 1;
                        if rng.bool() {
                            let rd3 = addr_rdata(rng, rv6);
                            let o = owner_q(rng);
                            b.record(&o, rt, dns::CLASS_IN, 60, &rd3);
                            an += 1;
                        }
                    }
                    Kind::CnameThenMalformed => {
                        let target = dns::name_from_str(&format!("alias{}.cdn.example.org", rng.below(20)));
                        let o = owner_q(rng);
                        b.cname(&o, 60, &NameEnc::Plain(target.clone()));
                        an += 1;
                        match rng.below(3) {
                            0 => {
                                // announced but missing
                                an += 1;
                            }
                            1 => {
                                // RDLENGTH beyond the end
                                let rd = addr_rdata(rng, rv6);
                                b.record(&NameEnc::Plain(target.clone()), rt, dns::CLASS_IN, 60, &rd);
                                let n = b.buf.len();
                                let cut = rd.len() + 2;
                                b.buf[n - cut] = 0x7f;
                                an += 1;
                            }
                            _ => {
                                // an A record with 3 octets
                                b.record(&NameEnc::Plain(target.clone()), dns::TYPE_A, dns::CLASS_IN, 60, &[1, 2, 3]);
                                an += 1;
                            }
                        }
                    }
                    Kind::CnameAway => {
                        // CNAME chain that leaves, and an address for a name that is NOT on it
                        let target = dns::name_from_str("elsewhere.example.org");
                        let o = owner_q(rng);
                        b.cname(&o, 60, &NameEnc::Plain(target));
                        let rd = addr_rdata(rng, rv6);
                        b.record(&NameEnc::Plain(other_name.clone()), rt, dns::CLASS_IN, 60, &rd);
                        an += 2;
                    }
                    _ => {
                        // Good and every "wrong in one respect" kind: a proper answer
                        let chain_len = match rng.below(10) {
                            0..=5 => 0,
                            6 | 7 => 1,
                            8 => 2,
                            _ => rng.range(3, 5) as usize,
                        };
                        let mut names: Vec<Name> = vec![qname.clone()];
                        for c in 0..chain_len {
                            names.push(dns::name_from_str(&format!("c{}-{}.alias.example.org", c, rng.below(1000))));
                        }
                        // records: CNAME names[j] -> names[j+1], then addresses of the last name
                        let mut recs: Vec<(usize, Option<usize>)> = Vec::new(); // (owner index, cname target index | None = address)
                        for j in 0..chain_len {
                            recs.push((j, Some(j + 1)));
                        }
                        let n_addr = rng.range(1, 4) as usize;
                        for _ in 0..n_addr {
                            recs.push((chain_len, None));
                        }
                        let order = rng.below(8);
                        if order == 0 {
                            recs.reverse();
                        } else if order == 1 {
                            rng.shuffle(&mut recs);
                        }
                        if rng.chance(1, 5) {
                            // an unrelated record in front
                            let rd = addr_rdata(rng, rv6);
                            b.record(&NameEnc::Plain(other_name.clone()), rt, dns::CLASS_IN, 60, &rd);
                            an += 1;
                        }
                        let mut written: Vec<Option<u16>> = vec![None; names.len()];
                        written[0] = Some(qoff);
                        for (o, t) in recs {
                            let enc = |idx: usize, written: &Vec<Option<u16>>, rng: &mut Rng| -> NameEnc {
                                match written[idx] {
                                    Some(off) if rng.chance(2, 3) => NameEnc::Ptr(off),
                                    _ => NameEnc::Plain(names[idx].clone()),
                                }
                            };
                            let own = if o == 0 { owner_q(rng) } else { enc(o, &written, rng) };
                            match t {
                                Some(ti) => {
                                    let tenc = enc(ti, &written, rng);
                                    let (oo, ro) = b.cname(&own, 60, &tenc);
                                    if written[o].is_none() && matches!(own, NameEnc::Plain(_)) {
                                        written[o] = Some(oo);
                                    }
                                    if written[ti].is_none() && matches!(tenc, NameEnc::Plain(_)) {
                                        written[ti] = Some(ro);
                                    }
                                }
                                None => {
                                    let rd = addr_rdata(rng, rv6);
                                    let (oo, _) = b.record(&own, rt, dns::CLASS_IN, 60, &rd);
                                    if written[o].is_none() && matches!(own, NameEnc::Plain(_)) {
                                        written[o] = Some(oo);
                                    }
                                }
                            }
                            an += 1;
                        }
                        if rng.chance(1, 6) {
                            // authority / additional records after the answers
                            b.record(&NameEnc::Plain(dns::name_from_str("example.org")), dns::TYPE_NS, dns::CLASS_IN, 60, &dns::name_wire(&dns::name_from_str("ns.example.org")));
                            let n = b.buf.len();
                            let _ = n;
                            b.buf[9] = 1; // NSCOUNT = 1
                        }
                    }
                }
            }
        }
        let mut payload = b.finish();
        if kind != Kind::Garbage {
            payload[4..6].copy_from_slice(&qd_override.unwrap_or(qd).to_be_bytes());
            payload[6..8].copy_from_slice(&an.to_be_bytes());
        }
        if kind == Kind::Truncated {
            let at = match self.cfg.trunc_at {
                Some(a) => a.min(payload.len()),
                None => rng.usize_below(payload.len()),
            };
            payload.truncate(at);
        }
        let label = format!("{:?} id={:#06x} {}:{} -> {}:{} q={:?}/{} an={} ({} octets)", kind, id, src, sport, dst, dport, dns::name_str(&qname), qtype, an, payload.len());
        let dgram = udp::build(&src, &dst, sport, dport, &payload);
        let packet = ip::build(&src, &dst, ip::PROTO_UDP, 64, &dgram);
        let delay = *rng.pick(&self.cfg.latencies.clone());
        if rng.below(1000) < self.cfg.dup_pm as u64 {
            let d2 = *rng.pick(&[0i64, 1_000, 1_500_000, 12_000_000]);
            self.schedule(self.now + delay + d2, packet.clone(), format!("{} (dup)", label));
        }
        let _ = k;
        self.schedule(self.now + delay, packet, label);
    }
}

/// Parse a datagram addressed to the host the way the oracle sees it.
fn judge_packet(p: &[u8], label: &str) -> Option<Resp> {
    let i = ip::parse(p, false).ok()?;
    if i.proto != ip::PROTO_UDP {
        return None;
    }
    let u = udp::parse(&i.src, &i.dst, &p[i.payload_off..i.payload_off + i.payload_len]).ok()?;
    let msg = dns::parse(&u.payload).ok();
    Some(Resp {
        src: i.src,
        sport: u.sport,
        dport: u.dport,
        msg,
        label: label.to_string(),
        raw: u.payload.clone(),
    })
}
