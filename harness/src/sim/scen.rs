//! Traffic scenarios: every frame any node transmits is judged by `indep::x1::validate`.
//! Used by C10 (all defect classes) and C08b (checksum defects only).
use super::traffic::*;
use super::*;
use crate::indep::{self, ip, tcp as itcp, Addr};
use crate::indep::x1::{arp, dhcp_v, dns_v, eth, icmp, igmp, mld, ndisc, udp as iudp};
use crate::util::json::Json;
use crate::util::rng::{stream_byte, Rng};
use crate::util::run::{CaseOut, Ctx};
use smoltcp::socket::{dhcpv4, dns, icmp as sicmp, raw, tcp, udp};
use smoltcp::time::Duration;
use smoltcp::wire::{DnsQueryType, IpAddress, IpEndpoint, IpListenEndpoint, IpProtocol, IpVersion};
use std::cell::Cell;

thread_local! {
    static VNOW: Cell<i64> = const { Cell::new(0) };
}
fn tsgen() -> u32 {
    (VNOW.with(|v| v.get()) / 1000) as u32
}
fn set_vnow(t: Micros) {
    VNOW.with(|v| v.set(t));
}

pub fn pick_medium(rng: &mut Rng) -> Medium {
    match rng.below(10) {
        0..=3 => Medium::Ethernet,
        4..=6 => Medium::Ip,
        _ => Medium::Ieee802154,
    }
}

fn content(tag: u64, n: usize) -> Vec<u8> {
    (0..n).map(|i| stream_byte(tag, i as u64)).collect()
}

fn cfg_class(out: &mut CaseOut, scen: &str, n: &Node, v6: bool) {
    out.class(format!("cfg:{}/{}/mtu-{}/{}", medium_name(n.medium), if v6 { "v6" } else { "v4" }, n.mtu_class, caps_class(&n.caps)));
    out.class(format!("scenario:{}/{}/{}", scen, medium_name(n.medium), if v6 { "v6" } else { "v4" }));
}

/// Addresses of node `n` for the chosen family. IFACE_MAX_ADDR_COUNT is 2 in the default configuration.
fn node_addrs(medium: Medium, v6: bool, dual: bool, n: u8) -> Vec<smoltcp::wire::IpCidr> {
    let mut v = Vec::new();
    if v6 {
        if dual {
            v.push(cidr(&Addr::V4(v4(n)), 24));
            v.push(cidr(&Addr::V6(ula_v6(n)), 64));
        } else {
            v.push(cidr(&Addr::V6(ll_v6(medium, n)), 64));
            v.push(cidr(&Addr::V6(ula_v6(n)), 64));
        }
    } else {
        v.push(cidr(&Addr::V4(v4(n)), 24));
        if dual {
            v.push(cidr(&Addr::V6(ll_v6(medium, n)), 64));
        }
    }
    v
}

struct Pair {
    a: Node,
    b: Node,
    loss_pm: u64,
}

impl Pair {
    /// poll both nodes at `t`, exchange frames; returns the number of frames moved
    fn step(&mut self, t: Micros, rng: &mut Rng, out: &mut CaseOut) -> usize {
        set_vnow(t);
        let fa = self.a.poll(t, out);
        let mut n = fa.len();
        for f in fa {
            if rng.below(1000) >= self.loss_pm {
                self.b.host.dev.rx.push_back(f);
            } else {
                out.count("frames_lost_on_the_link", 1);
            }
        }
        let fb = self.b.poll(t, out);
        n += fb.len();
        for f in fb {
            if rng.below(1000) >= self.loss_pm {
                self.a.host.dev.rx.push_back(f);
            } else {
                out.count("frames_lost_on_the_link", 1);
            }
        }
        n
    }
    fn next_time(&mut self, t: Micros, moved: usize, cap: Micros) -> Micros {
        if moved > 0 || !self.a.host.dev.rx.is_empty() || !self.b.host.dev.rx.is_empty() {
            return t + 200;
        }
        let pa = self.a.poll_at(t);
        let pb = self.b.poll_at(t);
        let n = match (pa, pb) {
            (Some(x), Some(y)) => x.min(y),
            (Some(x), None) | (None, Some(x)) => x,
            (None, None) => t + cap,
        };
        n.clamp(t + 200, t + cap)
    }
}

fn mk_pair(rng: &mut Rng, ctx: &Ctx, focus: Focus, scen: &str, medium: Medium, v6: bool, dual: bool) -> Pair {
    // a dual-stack node needs the IPv6 minimum as soon as it owns an IPv6 address
    let (mtu, cls) = pick_mtu(rng, medium, v6 || dual);
    let (ca, cb) = caps_pair(rng);
    let prefill = *rng.pick(&[0xA5u8, 0xff, 0x00, 0x5a, 0x01]);
    let mut a = Node::new("A", medium, mtu, cls, ca, hw_for(medium, 1), &node_addrs(medium, v6, dual, 1), rng.next_u64(), prefill, false, focus);
    let mut b = Node::new("B", medium, mtu, cls, cb, hw_for(medium, 2), &node_addrs(medium, v6, dual, 2), rng.next_u64(), prefill, false, focus);
    a.verbose = ctx.verbose;
    b.verbose = ctx.verbose;
    a.scenario = scen.to_string();
    b.scenario = scen.to_string();
    if rng.chance(1, 4) {
        let burst = Some(rng.urange(1, 4));
        a.host.dev.max_burst = burst;
        b.host.dev.max_burst = burst;
    }
    Pair { a, b, loss_pm: *rng.pick(&[0u64, 0, 20, 100]) }
}

// =========================================================================== TCP

pub fn scen_tcp(idx: u64, rng: &mut Rng, ctx: &Ctx, focus: Focus) -> CaseOut {
    let mut out = CaseOut::default();
    let medium = pick_medium(rng);
    let v6 = medium == Medium::Ieee802154 || rng.bool();
    let dual = medium != Medium::Ieee802154 && rng.chance(1, 4);
    let mut p = mk_pair(rng, ctx, focus, "tcp", medium, v6, dual);
    cfg_class(&mut out, "tcp", &p.a, v6);
    let tag = rng.next_u64();
    let bufs = [64usize, 536, 2048, 8192, 70_000, 300_000];
    let mk_sock = |rng: &mut Rng| {
        let mut s = tcp::Socket::new(tcp::SocketBuffer::new(vec![0u8; *rng.pick(&bufs)]), tcp::SocketBuffer::new(vec![0u8; *rng.pick(&bufs)]));
        s.set_nagle_enabled(rng.bool());
        s.set_ack_delay(if rng.bool() { Some(Duration::from_millis(10)) } else { None });
        if rng.bool() {
            s.set_tsval_generator(Some(tsgen));
        }
        if rng.chance(1, 3) {
            s.set_keep_alive(Some(Duration::from_millis(rng.range(50, 2000))));
        }
        if rng.chance(1, 4) {
            s.set_hop_limit(Some(rng.range(1, 255) as u8));
        }
        s.set_congestion_control(*rng.pick(&[tcp::CongestionControl::None, tcp::CongestionControl::Reno, tcp::CongestionControl::Cubic]));
        s
    };
    let sa = mk_sock(rng);
    let sb = mk_sock(rng);
    let ha = p.a.host.sockets.add(sa);
    let hb = p.b.host.sockets.add(sb);
    // B's address that A connects to
    let b_addr: IpAddress = if v6 {
        if !dual && rng.bool() {
            ip6(ll_v6(medium, 2))
        } else {
            ip6(ula_v6(2))
        }
    } else {
        ip4(v4(2))
    };
    let listen_ep: IpListenEndpoint = if rng.bool() { IpListenEndpoint { addr: None, port: 80 } } else { IpListenEndpoint { addr: Some(b_addr), port: 80 } };
    p.b.host.sockets.get_mut::<tcp::Socket>(hb).listen(listen_ep).expect("listen");
    {
        let lp = 49152 + rng.range(0, 1000) as u16;
        let h = &mut p.a.host;
        let cx = h.iface.context();
        h.sockets.get_mut::<tcp::Socket>(ha).connect(cx, IpEndpoint::new(b_addr, 80), lp).expect("connect");
    }
    let total_a = *rng.pick(&[0usize, 1, 100, 1500, 6000, 40_000]);
    let total_b = *rng.pick(&[0usize, 1, 100, 1500, 6000, 40_000]);
    let (mut wa, mut wb, mut ra, mut rb) = (0usize, 0usize, 0usize, 0usize);
    let (mut closed_a, mut closed_b) = (false, false);
    let mut t: Micros = 0;
    let mut buf = vec![0u8; 4096];
    let mut iters = 0;
    let abort_at = if rng.chance(1, 8) { Some(rng.range(1_000, 400_000) as Micros) } else { None };
    loop {
        iters += 1;
        if iters > 6000 || t > 90_000_000 {
            out.count("tcp_runs_cut_by_budget", 1);
            break;
        }
        // applications
        {
            let s = p.a.host.sockets.get_mut::<tcp::Socket>(ha);
            if s.may_send() && wa < total_a {
                let n = (total_a - wa).min(rng.urange(1, 3000));
                let chunk: Vec<u8> = (wa..wa + n).map(|i| stream_byte(tag, i as u64)).collect();
                wa += s.send_slice(&chunk).unwrap_or(0);
            }
            while s.can_recv() {
                match s.recv_slice(&mut buf) {
                    Ok(n) if n > 0 => ra += n,
                    _ => break,
                }
            }
            if wa >= total_a && !closed_a && s.is_active() && (ra >= total_b || rng.chance(1, 50)) {
                s.close();
                closed_a = true;
            }
            if let Some(at) = abort_at {
                if t >= at && s.is_open() {
                    s.abort();
                    closed_a = true;
                }
            }
        }
        {
            let s = p.b.host.sockets.get_mut::<tcp::Socket>(hb);
            if s.may_send() && wb < total_b {
                let n = (total_b - wb).min(rng.urange(1, 3000));
                let chunk: Vec<u8> = (wb..wb + n).map(|i| stream_byte(tag ^ 1, i as u64)).collect();
                wb += s.send_slice(&chunk).unwrap_or(0);
            }
            while s.can_recv() {
                match s.recv_slice(&mut buf) {
                    Ok(n) if n > 0 => rb += n,
                    _ => break,
                }
            }
            if wb >= total_b && !closed_b && s.is_active() && !s.may_recv() {
                s.close();
                closed_b = true;
            }
        }
        let moved = p.step(t, rng, &mut out);
        if p.a.dead || p.b.dead {
            break;
        }
        let sa = p.a.host.sockets.get::<tcp::Socket>(ha).state();
        let sb = p.b.host.sockets.get::<tcp::Socket>(hb).state();
        let done = |s: tcp::State| matches!(s, tcp::State::Closed | tcp::State::TimeWait);
        if done(sa) && (done(sb) || sb == tcp::State::Listen) && moved == 0 {
            out.count("tcp_runs_completed", 1);
            break;
        }
        t = p.next_time(t, moved, 1_000_000);
    }
    out.count("tcp_runs", 1);
    out.count("tcp_bytes_received", (ra + rb) as u64);
    out.count("fragmented_datagrams_left_incomplete", (p.a.judge.pending() + p.b.judge.pending()) as u64);
    if idx == 0 {
        out.sample = Some(
            Json::obj()
                .set("scenario", Json::s("tcp"))
                .set("config", Json::s(p.a.cfg_label()))
                .set("frames_judged", Json::u(p.a.judge.stats.frames + p.b.judge.stats.frames))
                .set("bytes", Json::u((ra + rb) as u64)),
        );
    }
    out
}

// =========================================================================== datagrams (UDP / ICMP / raw)

fn udp_socket(rng: &mut Rng, cap: usize) -> udp::Socket<'static> {
    let _ = rng;
    udp::Socket::new(
        udp::PacketBuffer::new(vec![udp::PacketMetadata::EMPTY; 8], vec![0u8; cap]),
        udp::PacketBuffer::new(vec![udp::PacketMetadata::EMPTY; 8], vec![0u8; cap]),
    )
}

fn icmp_socket(cap: usize) -> sicmp::Socket<'static> {
    sicmp::Socket::new(
        sicmp::PacketBuffer::new(vec![sicmp::PacketMetadata::EMPTY; 8], vec![0u8; cap]),
        sicmp::PacketBuffer::new(vec![sicmp::PacketMetadata::EMPTY; 8], vec![0u8; cap]),
    )
}

fn raw_socket(v: IpVersion, proto: IpProtocol, cap: usize) -> raw::Socket<'static> {
    raw::Socket::new(
        Some(v),
        Some(proto),
        raw::PacketBuffer::new(vec![raw::PacketMetadata::EMPTY; 8], vec![0u8; cap]),
        raw::PacketBuffer::new(vec![raw::PacketMetadata::EMPTY; 8], vec![0u8; cap]),
    )
}

/// payload size with a bias to the boundaries of the MTU
fn dgram_size(rng: &mut Rng, ip_mtu: usize, hdrs: usize) -> usize {
    let edge = ip_mtu.saturating_sub(hdrs);
    match rng.below(10) {
        0 => 0,
        1 => 1,
        2 => edge,
        3 => edge + 1,
        4 => edge.saturating_sub(1),
        5 => edge + rng.urange(1, 1200),
        6 => rng.urange(1400, 3000),
        _ => rng.urange(0, edge.clamp(1, 1400)),
    }
}

pub fn scen_dgram(idx: u64, rng: &mut Rng, ctx: &Ctx, focus: Focus) -> CaseOut {
    let mut out = CaseOut::default();
    let medium = pick_medium(rng);
    let v6 = medium == Medium::Ieee802154 || rng.bool();
    let dual = medium != Medium::Ieee802154 && rng.chance(1, 4);
    let mut p = mk_pair(rng, ctx, focus, "dgram", medium, v6, dual);
    p.loss_pm = 0;
    cfg_class(&mut out, "dgram", &p.a, v6);
    let tag = rng.next_u64();
    let ip_mtu = p.a.mtu - if medium == Medium::Ethernet { 14 } else { 0 };
    let iphdr = if v6 { 40 } else { 20 };
    // --- sockets on A
    let ua = p.a.host.sockets.add(udp_socket(rng, 8192));
    p.a.host.sockets.get_mut::<udp::Socket>(ua).bind(4000).unwrap();
    let ua_bound = p.a.host.sockets.add(udp_socket(rng, 8192));
    {
        let own: IpAddress = if v6 { ip6(ula_v6(1)) } else { ip4(v4(1)) };
        p.a.host.sockets.get_mut::<udp::Socket>(ua_bound).bind(IpListenEndpoint { addr: Some(own), port: 4001 }).unwrap();
    }
    let ia = p.a.host.sockets.add(icmp_socket(8192));
    p.a.host.sockets.get_mut::<sicmp::Socket>(ia).bind(sicmp::Endpoint::Ident(0x22)).unwrap();
    let raw_a = if medium != Medium::Ieee802154 {
        Some(p.a.host.sockets.add(raw_socket(if v6 { IpVersion::Ipv6 } else { IpVersion::Ipv4 }, IpProtocol::Unknown(253), 8192)))
    } else {
        None
    };
    // --- sockets on B: echo server on 7, nothing on 9
    let ub = p.b.host.sockets.add(udp_socket(rng, 8192));
    p.b.host.sockets.get_mut::<udp::Socket>(ub).bind(7).unwrap();
    // routes: off-link destinations through B (resolvable) or through a silent gateway
    let gw_kind = rng.below(3);
    let gw_n = if gw_kind == 1 { 2 } else { 9 };
    if gw_kind != 0 {
        if v6 {
            let _ = p.a.host.iface.routes_mut().add_default_ipv6_route(smoltcp::wire::Ipv6Address::from(ula_v6(gw_n)));
        } else {
            let _ = p.a.host.iface.routes_mut().add_default_ipv4_route(smoltcp::wire::Ipv4Address::new(192, 168, 69, gw_n));
        }
    }
    let targets: Vec<(IpAddress, &'static str)> = if v6 {
        let mut offlink = [0u8; 16];
        offlink[0] = 0x20;
        offlink[1] = 0x01;
        offlink[2] = 0x0d;
        offlink[3] = 0xb8;
        offlink[15] = 7;
        let mut mdns = [0u8; 16];
        mdns[0] = 0xff;
        mdns[1] = 0x02;
        mdns[15] = 0xfb;
        let mut allnodes = [0u8; 16];
        allnodes[0] = 0xff;
        allnodes[1] = 0x02;
        allnodes[15] = 1;
        let mut v = vec![(ip6(ula_v6(2)), "peer"), (ip6(ula_v6(77)), "silent-neighbor"), (ip6(offlink), "off-link"), (ip6(mdns), "multicast"), (ip6(allnodes), "all-nodes")];
        if !dual {
            v.push((ip6(ll_v6(medium, 2)), "peer-link-local"));
        }
        v
    } else {
        vec![
            (ip4(v4(2)), "peer"),
            (ip4(v4(77)), "silent-neighbor"),
            (ip4([8, 8, 8, 8]), "off-link"),
            (ip4([224, 0, 0, 251]), "multicast"),
            (ip4([192, 168, 69, 255]), "subnet-broadcast"),
            (ip4([255, 255, 255, 255]), "limited-broadcast"),
        ]
    };
    let mut t: Micros = 0;
    let rounds = rng.urange(4, 12);
    let mut sent = 0u64;
    for _round in 0..rounds {
        // one application action on A
        let (dst, dname) = *rng.pick(&targets);
        let kind = rng.below(if raw_a.is_some() { 10 } else { 8 });
        match kind {
            0 if rng.bool() => {
                // payload crafted so that the RFC 768 checksum computes to 0x0000: it must travel as 0xffff
                let (src, dst) = if v6 { (Addr::V6(ula_v6(1)), Addr::V6(ula_v6(2))) } else { (Addr::V4(v4(1)), Addr::V4(v4(2))) };
                let n = 2 * rng.urange(1, 40);
                let mut data = content(tag ^ sent ^ 0x5a5a, n);
                data[n - 2] = 0;
                data[n - 1] = 0;
                let mut d = vec![0u8; 8];
                indep::put16(&mut d, 0, 4000);
                indep::put16(&mut d, 2, 9);
                indep::put16(&mut d, 4, (8 + n) as u16);
                d.extend_from_slice(&data);
                let ph = indep::cksum::pseudo(&src, &dst, ip::PROTO_UDP, d.len() as u32);
                let sum = indep::cksum::sum(&[&ph, &d]);
                let w = 0xffffu16 - sum;
                data[n - 2] = (w >> 8) as u8;
                data[n - 1] = w as u8;
                let s = p.a.host.sockets.get_mut::<udp::Socket>(ua);
                s.set_hop_limit(None);
                let r = s.send_slice(&data, IpEndpoint::new(dst.to_smol(), 9));
                p.a.note(format!("udp send {} bytes crafted for checksum 0x0000 to {} port 9 -> {:?}", n, dst, r.is_ok()));
                out.class("app:udp-zero-sum");
                out.count("udp_sends_crafted_for_checksum_zero", 1);
            }
            0..=4 => {
                let n = dgram_size(rng, ip_mtu, iphdr + 8);
                let data = content(tag ^ sent, n);
                let port = *rng.pick(&[7u16, 9, 4000, 65535]);
                let h = if rng.chance(1, 4) { ua_bound } else { ua };
                let s = p.a.host.sockets.get_mut::<udp::Socket>(h);
                if rng.chance(1, 4) {
                    s.set_hop_limit(Some(rng.range(1, 255) as u8));
                }
                let r = s.send_slice(&data, IpEndpoint::new(dst, port));
                p.a.note(format!("udp send {} bytes to {} [{}] port {} -> {:?}", n, dst, dname, port, r.is_ok()));
                out.class(format!("app:udp->{}", dname));
            }
            5..=7 => {
                let n = dgram_size(rng, ip_mtu, iphdr + 8).min(4000);
                let data = content(tag ^ sent, n);
                let pkt = if v6 {
                    // checksum is recomputed by the stack for the source it selects
                    icmp::build_v6_echo(&Addr::V6(ula_v6(1)), &Addr::from_smol(dst), true, 0x22, sent as u16, &data)
                } else {
                    icmp::build_v4_echo(true, 0x22, sent as u16, &data)
                };
                let s = p.a.host.sockets.get_mut::<sicmp::Socket>(ia);
                if rng.chance(1, 4) {
                    s.set_hop_limit(Some(rng.range(1, 255) as u8));
                }
                let r = s.send_slice(&pkt, dst);
                p.a.note(format!("icmp echo request with {} data bytes to {} [{}] -> {:?}", n, dst, dname, r.is_ok()));
                out.class(format!("app:icmp->{}", dname));
            }
            _ => {
                // raw socket: the application supplies the complete IP packet, source included
                let n = dgram_size(rng, ip_mtu, iphdr).min(1400);
                let data = content(tag ^ sent ^ 0xffff, n);
                let src_choice = rng.below(3);
                let pkt = if v6 {
                    let src = match src_choice {
                        0 => Addr::V6(ula_v6(1)),
                        1 => Addr::V6(ula_v6(99)),
                        _ => Addr::V6([0; 16]),
                    };
                    ip::build(&src, &Addr::from_smol(dst), 253, 64, &data)
                } else {
                    let src = match src_choice {
                        0 => Addr::V4(v4(1)),
                        1 => Addr::V4([10, 9, 8, 7]),
                        _ => Addr::V4([0; 4]),
                    };
                    ip::build(&src, &Addr::from_smol(dst), 253, 64, &data)
                };
                let s = p.a.host.sockets.get_mut::<raw::Socket>(raw_a.unwrap());
                let r = s.send_slice(&pkt);
                if r.is_ok() {
                    p.a.raw_sent.push(pkt.clone());
                }
                p.a.note(format!("raw send protocol 253, {} data bytes, source choice {} to {} [{}] -> {:?}", n, src_choice, dst, dname, r.is_ok()));
                out.class(format!("app:raw->{}", dname));
            }
        }
        sent += 1;
        // run the network for a while (fragments leave one per poll)
        let until = t + *rng.pick(&[2_000i64, 50_000, 1_500_000, 4_000_000]);
        let mut iters = 0;
        while t < until && iters < 400 {
            iters += 1;
            // B's echo server
            {
                let s = p.b.host.sockets.get_mut::<udp::Socket>(ub);
                let mut buf = vec![0u8; 8192];
                while let Ok((n, meta)) = s.recv_slice(&mut buf) {
                    let _ = s.send_slice(&buf[..n], meta.endpoint);
                }
            }
            {
                let s = p.a.host.sockets.get_mut::<udp::Socket>(ua);
                while s.recv().is_ok() {}
                let s = p.a.host.sockets.get_mut::<udp::Socket>(ua_bound);
                while s.recv().is_ok() {}
                let s = p.a.host.sockets.get_mut::<sicmp::Socket>(ia);
                while s.recv().is_ok() {}
                if let Some(h) = raw_a {
                    let s = p.a.host.sockets.get_mut::<raw::Socket>(h);
                    while s.recv().is_ok() {}
                }
            }
            let moved = p.step(t, rng, &mut out);
            if p.a.dead || p.b.dead {
                break;
            }
            t = p.next_time(t, moved, 500_000);
        }
        if p.a.dead || p.b.dead {
            break;
        }
    }
    out.count("dgram_runs", 1);
    out.count("dgram_app_sends", sent);
    out.count("fragmented_datagrams_left_incomplete", (p.a.judge.pending() + p.b.judge.pending()) as u64);
    if idx == 0 {
        out.sample = Some(Json::obj().set("scenario", Json::s("dgram")).set("config", Json::s(p.a.cfg_label())).set("frames_judged", Json::u(p.a.judge.stats.frames + p.b.judge.stats.frames)));
    }
    out
}

// =========================================================================== replies to injected input

/// IPv6 packet with a chain of extension headers: (header type, body after the two fixed octets)
fn v6_with_ext(src: &[u8; 16], dst: &[u8; 16], hop: u8, chain: &[(u8, Vec<u8>)], proto: u8, payload: &[u8]) -> Vec<u8> {
    let mut body = Vec::new();
    for (i, (_ty, b)) in chain.iter().enumerate() {
        let next = if i + 1 < chain.len() { chain[i + 1].0 } else { proto };
        let mut h = vec![next, 0];
        h.extend_from_slice(b);
        while h.len() % 8 != 0 {
            // PadN / Pad1 as needed
            let pad = 8 - h.len() % 8;
            if pad == 1 {
                h.push(0);
            } else {
                h.push(1);
                h.push((pad - 2) as u8);
                for _ in 0..pad - 2 {
                    h.push(0);
                }
            }
        }
        h[1] = (h.len() / 8 - 1) as u8;
        body.extend_from_slice(&h);
    }
    body.extend_from_slice(payload);
    let first = if chain.is_empty() { proto } else { chain[0].0 };
    ip::build(&Addr::V6(*src), &Addr::V6(*dst), first, hop, &body)
}

struct ReplyCtx {
    medium: Medium,
    v6: bool,
    own: Addr,
    own_ll: Option<Addr>,
    peer: Addr,
    stranger: Addr,
    group: Addr,
    tag: u64,
    n: u64,
}

fn tcp_seg(rng: &mut Rng, flags: u8, sport: u16, dport: u16, payload: Vec<u8>) -> itcp::Seg {
    let syn = flags & itcp::SYN != 0;
    itcp::Seg {
        sport,
        dport,
        seq: rng.u32(),
        ack: if flags & itcp::ACK != 0 { rng.u32() } else { 0 },
        flags,
        wnd: rng.u16(),
        mss: if syn && rng.chance(3, 4) { Some(*rng.pick(&[0u16, 1, 48, 536, 1460, 65535])) } else { None },
        wscale: if syn && rng.bool() { Some(rng.range(0, 15) as u8) } else { None },
        sack_perm: syn && rng.bool(),
        ts: if rng.chance(1, 3) { Some((rng.u32(), rng.u32())) } else { None },
        payload,
        ..Default::default()
    }
}

/// One injected IP packet (valid or deliberately odd) and a label.
fn reply_template(rng: &mut Rng, c: &mut ReplyCtx) -> (Vec<u8>, String, Option<u8>) {
    c.n += 1;
    // source / destination variety
    let (src, sname, src_n): (Addr, &str, u8) = match rng.below(16) {
        0 => (c.stranger, "stranger", 3),
        1 => (if c.v6 { Addr::V6([0; 16]) } else { Addr::V4([0; 4]) }, "unspecified", 2),
        2 => (c.group, "multicast-src", 2),
        3 => (if c.v6 { c.own } else { Addr::V4([255, 255, 255, 255]) }, "bcast-or-own-src", 2),
        4 => (if c.v6 { c.peer } else { Addr::V4([192, 168, 69, 255]) }, "subnet-bcast-src", 2),
        _ => (c.peer, "peer", 2),
    };
    let mut ll_dst: Option<u8> = Some(1);
    let (dst, dname): (Addr, &str) = if c.v6 {
        let mut all = [0u8; 16];
        all[0] = 0xff;
        all[1] = 0x02;
        all[15] = 1;
        let mut sol = [0xff, 2, 0, 0, 0, 0, 0, 0, 0, 0, 0, 1, 0xff, 0, 0, 0];
        if let Addr::V6(o) = c.own {
            sol[13..].copy_from_slice(&o[13..]);
        }
        match rng.below(12) {
            0 | 1 => {
                ll_dst = None;
                (Addr::V6(all), "all-nodes")
            }
            2 => {
                ll_dst = None;
                (Addr::V6(sol), "solicited-node")
            }
            3 => {
                ll_dst = None;
                (c.group, "joined-group")
            }
            4 => (Addr::V6(ula_v6(200)), "not-ours"),
            5 if c.own_ll.is_some() => (c.own_ll.unwrap(), "own-link-local"),
            _ => (c.own, "own"),
        }
    } else {
        match rng.below(12) {
            0 | 1 => {
                ll_dst = None;
                (Addr::V4([192, 168, 69, 255]), "subnet-broadcast")
            }
            2 => {
                ll_dst = None;
                (Addr::V4([255, 255, 255, 255]), "limited-broadcast")
            }
            3 => {
                ll_dst = None;
                (Addr::V4([224, 0, 0, 1]), "all-systems")
            }
            4 => {
                ll_dst = None;
                (c.group, "joined-group")
            }
            5 => (Addr::V4(v4(200)), "not-ours"),
            _ => (c.own, "own"),
        }
    };
    let size = match rng.below(6) {
        0 => 0,
        1 => rng.urange(1, 8),
        2 => rng.urange(1200, 1472),
        3 => rng.urange(500, 700),
        _ => rng.urange(0, 200),
    };
    let data = content(c.tag ^ c.n, size);
    let hop = *rng.pick(&[64u8, 64, 1, 255, 0]);
    let kind = rng.below(if c.v6 { 16 } else { 13 });
    let (proto, body, kname): (u8, Vec<u8>, String) = match kind {
        0 | 1 => {
            if c.v6 {
                (ip::PROTO_ICMPV6, icmp::build_v6_echo(&src, &dst, true, rng.u16(), rng.u16(), &data), "echo-request".into())
            } else {
                (ip::PROTO_ICMP, icmp::build_v4_echo(true, rng.u16(), rng.u16(), &data), "echo-request".into())
            }
        }
        2 | 3 => {
            let port = *rng.pick(&[9u16, 5000, 5001, 68, 53]);
            (ip::PROTO_UDP, iudp::build(&src, &dst, rng.range(1, 65535) as u16, port, &data), format!("udp-to-{}", port))
        }
        4 | 5 | 6 => {
            let flags = *rng.pick(&[itcp::SYN, itcp::SYN, itcp::SYN, itcp::ACK, itcp::SYN | itcp::ACK, itcp::FIN | itcp::ACK, itcp::RST, itcp::PSH | itcp::ACK, 0, itcp::SYN | itcp::FIN]);
            let port = *rng.pick(&[80u16, 80, 81, 9, 0]);
            let pl = if flags & itcp::SYN != 0 && rng.chance(3, 4) { Vec::new() } else { data.clone() };
            let sp = rng.range(1, 65535) as u16;
            let seg = tcp_seg(rng, flags, sp, port, pl);
            (ip::PROTO_TCP, itcp::build(&src, &dst, &seg), format!("tcp-{}-to-{}", seg.flag_str(), port))
        }
        7 => {
            let p = *rng.pick(&[200u8, 47, 50, 132, 253]);
            (p, data.clone(), format!("proto-{}", p))
        }
        8 => {
            // inbound ICMP error quoting a UDP datagram we "sent"
            let quoted_udp = iudp::build(&dst, &src, 5000, 4000, &data[..data.len().min(32)]);
            if c.v6 {
                let q = ip::build(&dst, &src, ip::PROTO_UDP, 64, &quoted_udp);
                let mut b = vec![0u8; 4];
                b.extend_from_slice(&q);
                (ip::PROTO_ICMPV6, icmp::build_v6(&src, &dst, 1, 4, &b), "icmp-error-in".into())
            } else {
                let q = ip::build(&dst, &src, ip::PROTO_UDP, 64, &quoted_udp);
                let mut b = vec![3u8, 3, 0, 0, 0, 0, 0, 0];
                b.extend_from_slice(&q[..q.len().min(28)]);
                let ck = indep::cksum::checksum(&[&b]);
                indep::put16(&mut b, 2, ck);
                (ip::PROTO_ICMP, b, "icmp-error-in".into())
            }
        }
        9 => {
            if c.v6 {
                let g = if rng.bool() { [0u8; 16] } else { *match &c.group { Addr::V6(g) => g, _ => unreachable!() } };
                (ip::PROTO_ICMPV6, mld::build_query(&src, &dst, *rng.pick(&[0u16, 1, 100, 1000]), &g), "mld-query-no-hbh".into())
            } else {
                let g = if rng.bool() { [0u8; 4] } else { *match &c.group { Addr::V4(g) => g, _ => unreachable!() } };
                (ip::PROTO_IGMP, igmp::build(igmp::QUERY, *rng.pick(&[0u8, 1, 10, 100]), &g), "igmp-query".into())
            }
        }
        10 => {
            // echo reply / other ICMP types nobody asked for
            if c.v6 {
                (ip::PROTO_ICMPV6, icmp::build_v6_echo(&src, &dst, false, 0x22, 1, &data), "echo-reply".into())
            } else {
                (ip::PROTO_ICMP, icmp::build_v4_echo(false, 0x22, 1, &data), "echo-reply".into())
            }
        }
        11 | 12 => {
            // UDP carrying an ICMP-sized payload to the closed port: the error must quote and truncate
            let big = content(c.tag ^ c.n ^ 7, rng.urange(400, 1400));
            (ip::PROTO_UDP, iudp::build(&src, &dst, 4000, 9, &big), "udp-big-to-closed".into())
        }
        13 => {
            // NDISC: solicitation / advertisement / router messages
            let Addr::V6(own) = c.own else { unreachable!() };
            let target = match rng.below(4) {
                0 => ula_v6(200),
                1 => match c.own_ll {
                    Some(Addr::V6(l)) => l,
                    _ => own,
                },
                _ => own,
            };
            let ll: Vec<u8> = match c.medium {
                Medium::Ethernet => mac(src_n).to_vec(),
                Medium::Ieee802154 => eui(src_n).to_vec(),
                Medium::Ip => Vec::new(),
            };
            let with_ll = !ll.is_empty() && rng.chance(3, 4);
            let ty = *rng.pick(&[ndisc::NS, ndisc::NS, ndisc::NS, ndisc::NA, ndisc::RS]);
            let b = match ty {
                ndisc::RS => icmp::build_v6(&src, &dst, ndisc::RS, 0, &[0, 0, 0, 0]),
                _ => ndisc::build(&src, &dst, ty, if ty == ndisc::NA { 0x60 } else { 0 }, &target, if with_ll { Some(&ll) } else { None }),
            };
            (ip::PROTO_ICMPV6, b, format!("ndisc-{}", ty))
        }
        _ => {
            // extension headers (kind 14, 15): packed below
            (0, Vec::new(), "ext".into())
        }
    };
    let mut packet = if kname == "ext" {
        let (Addr::V6(s6), Addr::V6(d6)) = (src, dst) else { unreachable!() };
        let inner = icmp::build_v6_echo(&src, &dst, true, 7, 7, &data[..data.len().min(64)]);
        let opt_type = *rng.pick(&[0x05u8, 0x3e, 0x7e, 0xbe, 0xfe, 0x1e, 0xc2]);
        let mut opt = vec![opt_type, 2, 0, 0];
        if rng.chance(1, 5) {
            opt = vec![opt_type, 200, 0, 0]; // overrunning option
        }
        match rng.below(6) {
            0 | 1 => v6_with_ext(&s6, &d6, hop.max(1), &[(0, opt)], ip::PROTO_ICMPV6, &inner),
            2 => v6_with_ext(&s6, &d6, hop.max(1), &[(60, opt)], ip::PROTO_ICMPV6, &inner),
            3 => v6_with_ext(&s6, &d6, hop.max(1), &[(43, vec![0, 0, 0, 0, 0, 0])], ip::PROTO_ICMPV6, &inner),
            4 => v6_with_ext(&s6, &d6, hop.max(1), &[(44, vec![0, 0, 0, 0, 0, 1])], ip::PROTO_ICMPV6, &inner),
            _ => v6_with_ext(&s6, &d6, 1, &[(0, vec![5, 2, 0, 0])], ip::PROTO_ICMPV6, &mld::build_query(&src, &dst, 0, &[0; 16])),
        }
    } else if kname.starts_with("ndisc") {
        ip::build(&src, &dst, proto, if rng.chance(9, 10) { 255 } else { 64 }, &body)
    } else if kname.starts_with("igmp") {
        ip::build(&src, &dst, proto, 1, &body)
    } else {
        ip::build(&src, &dst, proto, hop, &body)
    };
    // mutations: flipped bytes (checksums NOT repaired) or truncation
    let mut mutation = "";
    match rng.below(12) {
        0 => {
            let i = rng.usize_below(packet.len());
            packet[i] ^= 1 << rng.below(8);
            mutation = "+bitflip";
        }
        1 => {
            let keep = rng.urange(1, packet.len());
            packet.truncate(keep);
            mutation = "+truncated";
        }
        2 if packet.len() > 21 => {
            // corrupt transport part, repair nothing
            let i = rng.urange(20, packet.len() - 1);
            packet[i] = packet[i].wrapping_add(1);
            mutation = "+payload-corrupt";
        }
        _ => {}
    }
    let label = format!("{}{} from {} to {}", kname, mutation, sname, dname);
    let _ = src_n;
    (packet, label, ll_dst)
}

pub fn scen_replies(idx: u64, rng: &mut Rng, ctx: &Ctx, focus: Focus) -> CaseOut {
    let mut out = CaseOut::default();
    let medium = pick_medium(rng);
    let v6 = medium == Medium::Ieee802154 || rng.bool();
    let dual = medium != Medium::Ieee802154 && rng.chance(1, 5);
    let (mtu, cls) = pick_mtu(rng, medium, v6 || dual);
    let caps = caps_single(rng);
    let prefill = *rng.pick(&[0xA5u8, 0xff, 0x00, 0x5a, 0x01]);
    let mut n = Node::new("N", medium, mtu, cls, caps, hw_for(medium, 1), &node_addrs(medium, v6, dual, 1), rng.next_u64(), prefill, false, focus);
    n.verbose = ctx.verbose;
    n.scenario = "replies".into();
    cfg_class(&mut out, "replies", &n, v6);
    let group = if v6 {
        let mut g = [0u8; 16];
        g[0] = 0xff;
        g[1] = 0x02;
        g[14] = 0x12;
        g[15] = 0x34;
        Addr::V6(g)
    } else {
        Addr::V4([239, 1, 2, 3])
    };
    let joined = medium != Medium::Ieee802154 && rng.chance(2, 3);
    if joined {
        let _ = n.host.iface.join_multicast_group(group.to_smol());
    }
    // sockets
    let own = if v6 { Addr::V6(ula_v6(1)) } else { Addr::V4(v4(1)) };
    let own_ll = if v6 && !dual { Some(Addr::V6(ll_v6(medium, 1))) } else { None };
    let mk_tcp = || tcp::Socket::new(tcp::SocketBuffer::new(vec![0u8; 2048]), tcp::SocketBuffer::new(vec![0u8; 2048]));
    let l80 = n.host.sockets.add(mk_tcp());
    let l81 = n.host.sockets.add(mk_tcp());
    n.host.sockets.get_mut::<tcp::Socket>(l80).listen(80).unwrap();
    n.host.sockets.get_mut::<tcp::Socket>(l81).listen(IpListenEndpoint { addr: Some(own.to_smol()), port: 81 }).unwrap();
    let u5000 = n.host.sockets.add(udp_socket(rng, 4096));
    n.host.sockets.get_mut::<udp::Socket>(u5000).bind(5000).unwrap();
    let ic = n.host.sockets.add(icmp_socket(4096));
    n.host.sockets.get_mut::<sicmp::Socket>(ic).bind(sicmp::Endpoint::Udp(IpListenEndpoint { addr: None, port: 5000 })).unwrap();
    let mut c = ReplyCtx {
        medium,
        v6,
        own,
        own_ll,
        peer: if v6 { Addr::V6(ula_v6(2)) } else { Addr::V4(v4(2)) },
        stranger: if v6 { Addr::V6(ula_v6(3)) } else { Addr::V4(v4(3)) },
        group,
        tag: rng.next_u64(),
        n: 0,
    };
    let mut wrap = Wrap::new(medium);
    let mut t: Micros = 0;
    // make the peer known to the neighbor cache (ARP request / NS with source link-layer address)
    match medium {
        Medium::Ethernet if !v6 => {
            let a = arp::build(&arp::Arp { op: arp::OP_REQUEST, sha: mac(2), spa: v4(2), tha: [0; 6], tpa: v4(1) });
            n.inject("ARP request from the peer", eth::build(&eth::BROADCAST, &mac(2), eth::ETHERTYPE_ARP, &a));
        }
        Medium::Ethernet | Medium::Ieee802154 => {
            let Addr::V6(o) = own else { unreachable!() };
            let mut sol = [0xff, 2, 0, 0, 0, 0, 0, 0, 0, 0, 0, 1, 0xff, 0, 0, 0];
            sol[13..].copy_from_slice(&o[13..]);
            let ll: Vec<u8> = if medium == Medium::Ethernet { mac(2).to_vec() } else { eui(2).to_vec() };
            let ns = ndisc::build(&c.peer, &Addr::V6(sol), ndisc::NS, 0, &o, Some(&ll));
            let pkt = ip::build(&c.peer, &Addr::V6(sol), ip::PROTO_ICMPV6, 255, &ns);
            for f in wrap.frames(&pkt, None, 2) {
                n.inject("NS from the peer", f);
            }
        }
        Medium::Ip => {}
    }
    n.poll(t, &mut out);
    let rounds = ctx.n(30, 60) as usize;
    let mut injected = 0u64;
    for _ in 0..rounds {
        if n.dead {
            break;
        }
        t += *rng.pick(&[300i64, 5_000, 200_000, 1_200_000]);
        let burst = rng.urange(1, 3);
        for _ in 0..burst {
            // ARP input on IPv4 / Ethernet
            if medium == Medium::Ethernet && !v6 && rng.chance(1, 8) {
                let a = arp::Arp {
                    op: *rng.pick(&[arp::OP_REQUEST, arp::OP_REQUEST, arp::OP_REPLY, 7]),
                    sha: *rng.pick(&[mac(2), mac(3), [0xff; 6], [1, 0, 0x5e, 0, 0, 1]]),
                    spa: *rng.pick(&[v4(2), v4(3), [0; 4], [255, 255, 255, 255], [10, 0, 0, 1], v4(1), [224, 0, 0, 1]]),
                    tha: [0; 6],
                    tpa: *rng.pick(&[v4(1), v4(1), v4(200), [192, 168, 69, 255]]),
                };
                let mut b = arp::build(&a);
                if rng.chance(1, 6) {
                    let i = rng.usize_below(8);
                    b[i] ^= 1 << rng.below(8);
                }
                if rng.chance(1, 10) {
                    b.truncate(rng.urange(0, 27));
                }
                n.inject(&format!("ARP {:?}", a), eth::build(if rng.bool() { &eth::BROADCAST } else { &[0x02, 0, 0, 0, 0, 1] }, &a.sha, eth::ETHERTYPE_ARP, &b));
                out.class("in:arp");
                injected += 1;
                continue;
            }
            let (pkt, label, ll_dst) = reply_template(rng, &mut c);
            // IPv4 fragments of a big input now and then
            if !v6 && pkt.len() > 200 && rng.chance(1, 4) {
                if let Ok(i) = ip::parse(&pkt, false) {
                    if let (Addr::V4(s4), Addr::V4(d4)) = (i.src, i.dst) {
                        let pl = &pkt[i.payload_off..i.payload_off + i.payload_len];
                        let cut = (pl.len() / 2) / 8 * 8;
                        if cut > 0 {
                            let id = rng.u16();
                            let f1 = ip::build_v4(&s4, &d4, i.proto, i.hop_limit.max(1), id, false, true, 0, &pl[..cut]);
                            let f2 = ip::build_v4(&s4, &d4, i.proto, i.hop_limit.max(1), id, false, false, cut, &pl[cut..]);
                            let order = if rng.bool() { [f1, f2] } else { [f2, f1] };
                            for f in order {
                                for fr in wrap.frames(&f, ll_dst, 2) {
                                    n.inject(&format!("fragment of {}", label), fr);
                                }
                            }
                            out.class(format!("in:fragmented/{}", label.split(' ').next().unwrap_or("")));
                            injected += 1;
                            continue;
                        }
                    }
                }
            }
            let src_n = if label.contains("from stranger") { 3 } else { 2 };
            for fr in wrap.frames(&pkt, ll_dst, src_n) {
                n.inject(&label, fr);
            }
            let mut it = label.split(' ');
            let kind = it.next().unwrap_or("");
            let kind = kind.trim_end_matches(|ch: char| ch.is_ascii_digit());
            out.class(format!("in:{}", kind));
            let addrs = label.splitn(2, " from ").nth(1).unwrap_or("");
            let mut sd = addrs.splitn(2, " to ");
            out.class(format!("in-src:{}", sd.next().unwrap_or("")));
            out.class(format!("in-dst:{}", sd.next().unwrap_or("")));
            injected += 1;
        }
        // poll now and drain the timers for a while
        let frames = n.poll(t, &mut out);
        out.count("reply_frames", frames.len() as u64);
        // the UDP server answers whoever wrote to it
        {
            let s = n.host.sockets.get_mut::<udp::Socket>(u5000);
            let mut buf = vec![0u8; 4096];
            while let Ok((len, meta)) = s.recv_slice(&mut buf) {
                if !meta.endpoint.addr.is_unspecified() && meta.endpoint.port != 0 {
                    let _ = s.send_slice(&buf[..len.min(600)], meta.endpoint);
                }
            }
            let s = n.host.sockets.get_mut::<sicmp::Socket>(ic);
            while s.recv().is_ok() {}
        }
        let mut k = 0;
        while k < 6 {
            k += 1;
            match n.poll_at(t) {
                Some(at) if at <= t + 3_000_000 => {
                    t = at.max(t + 100);
                    n.poll(t, &mut out);
                }
                _ => break,
            }
        }
        // re-arm listeners that were consumed by a SYN
        for (h, ep) in [(l80, IpListenEndpoint { addr: None, port: 80 }), (l81, IpListenEndpoint { addr: Some(own.to_smol()), port: 81 })] {
            let s = n.host.sockets.get_mut::<tcp::Socket>(h);
            if !s.is_listening() && rng.chance(1, 2) {
                s.abort();
                n.poll(t, &mut out);
                let s = n.host.sockets.get_mut::<tcp::Socket>(h);
                let _ = s.listen(ep);
            }
        }
    }
    out.count("replies_runs", 1);
    out.count("packets_injected", injected);
    out.count("fragmented_datagrams_left_incomplete", n.judge.pending() as u64);
    if idx == 0 {
        out.sample = Some(Json::obj().set("scenario", Json::s("replies")).set("config", Json::s(n.cfg_label())).set("injected", Json::u(injected)).set("frames_judged", Json::u(n.judge.stats.frames)));
    }
    out
}

// =========================================================================== scripted peers

/// Answers ARP requests and neighbor solicitations for a set of pretended neighbors.
struct Neighbors {
    medium: Medium,
    wrap: Wrap,
    /// (address, node number used for its link-layer address)
    known: Vec<(Addr, u8)>,
}

impl Neighbors {
    fn new(medium: Medium, known: Vec<(Addr, u8)>) -> Neighbors {
        Neighbors { medium, wrap: Wrap::new(medium), known }
    }
    fn lookup(&self, a: &Addr) -> Option<u8> {
        self.known.iter().find(|(x, _)| x == a).map(|(_, n)| *n)
    }
    /// link-layer resolution traffic in `frame`? returns the answer frames
    fn answer(&mut self, frame: &[u8]) -> Vec<Vec<u8>> {
        if self.medium == Medium::Ethernet {
            if let Ok(e) = eth::parse(frame) {
                if e.ethertype == eth::ETHERTYPE_ARP && e.payload.len() >= arp::LEN && indep::be16(e.payload, 6) == arp::OP_REQUEST {
                    let mut tpa = [0u8; 4];
                    tpa.copy_from_slice(&e.payload[24..28]);
                    let mut spa = [0u8; 4];
                    spa.copy_from_slice(&e.payload[14..18]);
                    if let Some(n) = self.lookup(&Addr::V4(tpa)) {
                        let r = arp::build(&arp::Arp { op: arp::OP_REPLY, sha: mac(n), spa: tpa, tha: e.src, tpa: spa });
                        return vec![eth::build(&e.src, &mac(n), eth::ETHERTYPE_ARP, &r)];
                    }
                    return Vec::new();
                }
            }
        }
        if self.medium == Medium::Ip {
            return Vec::new();
        }
        let Some(p) = unwrap_ip(self.medium, frame) else { return Vec::new() };
        let Ok(i) = ip::parse(&p, false) else { return Vec::new() };
        if i.proto != ip::PROTO_ICMPV6 || i.payload_len < 24 {
            return Vec::new();
        }
        let b = &p[i.payload_off..i.payload_off + i.payload_len];
        if b[0] != ndisc::NS {
            return Vec::new();
        }
        let mut t = [0u8; 16];
        t.copy_from_slice(&b[8..24]);
        let Some(n) = self.lookup(&Addr::V6(t)) else { return Vec::new() };
        if i.src.is_unspecified() {
            return Vec::new();
        }
        let ll: Vec<u8> = if self.medium == Medium::Ethernet { mac(n).to_vec() } else { eui(n).to_vec() };
        let na = ndisc::build(&Addr::V6(t), &i.src, ndisc::NA, 0x60, &t, Some(&ll));
        let pkt = ip::build(&Addr::V6(t), &i.src, ip::PROTO_ICMPV6, 255, &na);
        self.wrap.frames(&pkt, Some(1), n)
    }
}

/// UDP datagrams (src, dst, sport, dport, payload) among the IP packets a node sent in one poll
/// AnyIP: an interface with `set_any_ip(true)` accepts packets for any unicast address and answers
/// from that address.  Node address sets: IPv4 only, IPv6 only, both; packets of both families
/// arrive regardless (echo requests, UDP and TCP to closed ports; destinations: own, foreign
/// unicast, all-nodes multicast, limited broadcast).  Every emitted frame is judged by the
/// validator; the source rule accepts, besides the node's own addresses, any destination a packet
/// was delivered to - and never a loopback, unspecified, multicast or broadcast source.
pub fn scen_anyip(_idx: u64, rng: &mut Rng, ctx: &Ctx, focus: Focus) -> CaseOut {
    let mut out = CaseOut::default();
    let medium = if rng.bool() { Medium::Ip } else { Medium::Ethernet };
    let fam = rng.below(3); // 0: IPv4 only, 1: IPv6 only, 2: both
    let (mtu, cls) = pick_mtu(rng, medium, fam != 0);
    let caps = caps_single(rng);
    let prefill = *rng.pick(&[0xA5u8, 0xff, 0x00]);
    let mut addrs = Vec::new();
    if fam != 1 {
        addrs.push(cidr(&Addr::V4(v4(1)), 24));
    }
    if fam != 0 {
        addrs.push(cidr(&Addr::V6(ula_v6(1)), 64));
    }
    let mut n = Node::new("Y", medium, mtu, cls, caps, hw_for(medium, 1), &addrs, rng.next_u64(), prefill, false, focus);
    n.verbose = ctx.verbose;
    n.scenario = "anyip".into();
    n.host.iface.set_any_ip(true);
    n.any_ip_dsts = Some(Vec::new());
    out.class(format!("anyip:{}:{}", if medium == Medium::Ip { "ip" } else { "eth" }, ["v4-only", "v6-only", "dual"][fam as usize]));
    // AnyIP answers need a route for the foreign address space: everything via the peer
    {
        let r = n.host.iface.routes_mut();
        let _ = r.add_default_ipv4_route(smoltcp::wire::Ipv4Address::new(192, 168, 69, 2));
        let _ = r.add_default_ipv6_route(match Addr::V6(ula_v6(2)).to_smol() {
            smoltcp::wire::IpAddress::Ipv6(a) => a,
            _ => unreachable!(),
        });
    }
    let mut wrap = Wrap::new(medium);
    let mut t: Micros = 0;
    let peer4 = Addr::V4(v4(2));
    let peer6 = Addr::V6(ula_v6(2));
    if medium == Medium::Ethernet {
        // the peer introduces itself (ARP request / NS with source link-layer address)
        let a = arp::build(&arp::Arp { op: arp::OP_REQUEST, sha: mac(2), spa: v4(2), tha: [0; 6], tpa: v4(1) });
        n.inject("ARP request from the peer", eth::build(&eth::BROADCAST, &mac(2), eth::ETHERTYPE_ARP, &a));
        let o = ula_v6(1);
        let mut sol = [0xff, 2, 0, 0, 0, 0, 0, 0, 0, 0, 0, 1, 0xff, 0, 0, 0];
        sol[13..].copy_from_slice(&o[13..]);
        let ns = ndisc::build(&peer6, &Addr::V6(sol), ndisc::NS, 0, &o, Some(&mac(2).to_vec()));
        let pkt = ip::build(&peer6, &Addr::V6(sol), ip::PROTO_ICMPV6, 255, &ns);
        for f in wrap.frames(&pkt, None, 2) {
            n.inject("NS from the peer", f);
        }
    }
    n.poll(t, &mut out);
    for _ in 0..ctx.n(12, 24) {
        if n.dead {
            break;
        }
        t += *rng.pick(&[300i64, 5_000, 200_000, 1_200_000]);
        let v6 = rng.bool();
        let src = if v6 { peer6 } else { peer4 };
        let dst = match (rng.below(5), v6) {
            (0, false) => Addr::V4(v4(1)),
            (0, true) => Addr::V6(ula_v6(1)),
            (1, false) => Addr::V4([192, 168, 69, 1 + 100 + rng.below(50) as u8]),
            (1, true) => Addr::V6(ula_v6(100 + rng.below(50) as u8)),
            (2, false) => Addr::V4([10, 20, rng.below(250) as u8, 1 + rng.below(250) as u8]),
            (2, true) => {
                let mut a = [0u8; 16];
                a[0] = 0x20;
                a[1] = 0x01;
                a[2] = 0x0d;
                a[3] = 0xb8;
                a[15] = 1 + rng.below(250) as u8;
                Addr::V6(a)
            }
            (3, false) => Addr::V4([224, 0, 0, 1]),
            (3, true) => Addr::V6([0xff, 2, 0, 0, 0, 0, 0, 0, 0, 0, 0, 0, 0, 0, 0, 1]),
            (_, false) => Addr::V4([255, 255, 255, 255]),
            (_, true) => Addr::V6([0xff, 2, 0, 0, 0, 0, 0, 0, 0, 0, 0, 0, 0, 0, 0, 1]),
        };
        let pl_len = rng.urange(0, 40);
        let pl = rng.bytes(pl_len);
        let dport_off = rng.below(100) as u16;
        let (proto, l4, what) = match rng.below(3) {
            0 => {
                let m = if v6 {
                    crate::indep::x3::icmp::build6(&src, &dst, 128, 0, 0x4242, t as u16, &pl)
                } else {
                    crate::indep::x3::icmp::build4(8, 0, 0x4242, t as u16, &pl)
                };
                (if v6 { ip::PROTO_ICMPV6 } else { ip::PROTO_ICMP }, m, "echo request")
            }
            1 => (ip::PROTO_UDP, crate::indep::x3::udp::build(&src, &dst, 4000, 6000 + dport_off, &pl, true), "UDP to a closed port"),
            _ => {
                let seg = tcp_seg(rng, itcp::SYN, 4001, 7000 + dport_off, Vec::new());
                (ip::PROTO_TCP, itcp::build(&src, &dst, &seg), "TCP SYN to a closed port")
            }
        };
        let pkt = ip::build(&src, &dst, proto, 64, &l4);
        if !dst.is_multicast() && !dst.is_limited_broadcast() {
            if let Some(v) = n.any_ip_dsts.as_mut() {
                if !v.contains(&dst) {
                    v.push(dst);
                }
            }
        }
        let to_us = if dst.is_multicast() || dst.is_limited_broadcast() { None } else { Some(1) };
        for f in wrap.frames(&pkt, to_us, 2) {
            n.inject(&format!("{} {} -> {}", what, src, dst), f);
        }
        out.count("anyip_packets_injected", 1);
        let frames = n.poll(t, &mut out);
        out.count("anyip_frames_emitted", frames.len() as u64);
        // neighbor discovery of the node is answered by the peer for its own addresses only
        let _ = frames;
    }
    out.count("anyip_cases", 1);
    out
}

fn udp_datagrams(medium: Medium, frames: &[Vec<u8>], reassembled: &[Vec<u8>]) -> Vec<(Addr, Addr, u16, u16, Vec<u8>)> {
    let mut v = Vec::new();
    let mut pkts: Vec<Vec<u8>> = frames.iter().filter_map(|f| unwrap_ip(medium, f)).collect();
    pkts.extend(reassembled.iter().cloned());
    for p in pkts {
        let Ok(i) = ip::parse(&p, false) else { continue };
        if i.proto != ip::PROTO_UDP || i.more_frags || i.frag_offset != 0 {
            continue;
        }
        let Ok(u) = iudp::parse(&p[i.payload_off..i.payload_off + i.payload_len]) else { continue };
        v.push((i.src, i.dst, u.sport, u.dport, u.payload.to_vec()));
    }
    v
}

// =========================================================================== DHCP

pub fn scen_dhcp(idx: u64, rng: &mut Rng, ctx: &Ctx, focus: Focus) -> CaseOut {
    let mut out = CaseOut::default();
    let medium = Medium::Ethernet;
    let (mtu, cls) = match rng.below(8) {
        0 => (82, "min"),
        1 => (82 + rng.urange(1, 60), "min+"),
        2 => (14 + rng.urange(200, 400), "small"),
        3 => (14 + 576, "mid"),
        _ => (1514, "1500"),
    };
    let caps = caps_single(rng);
    let prefill = *rng.pick(&[0xA5u8, 0xff, 0x00, 0x5a, 0x01]);
    let mut n = Node::new("C", medium, mtu, cls, caps, hw_for(medium, 1), &[], rng.next_u64(), prefill, false, focus);
    n.verbose = ctx.verbose;
    n.scenario = "dhcp".into();
    cfg_class(&mut out, "dhcp", &n, false);
    let mut sock = dhcpv4::Socket::new();
    let max_lease = *rng.pick(&[None, None, Some(4u64), Some(30)]);
    sock.set_max_lease_duration(max_lease.map(Duration::from_secs));
    if rng.chance(1, 4) {
        sock.set_ignore_naks(true);
    }
    let h = n.host.sockets.add(sock);
    n.dhcp = Some(h);
    // a UDP socket that keeps talking to the router while the lease lasts
    let u = n.host.sockets.add(udp_socket(rng, 2048));
    n.host.sockets.get_mut::<udp::Socket>(u).bind(4000).unwrap();
    // ---- the scripted server
    let server = [192, 168, 69, 254];
    let router = [192, 168, 69, 253];
    let mut lease_addr = [192, 168, 69, rng.range(10, 200) as u8];
    let lease_secs: u32 = *rng.pick(&[2u32, 6, 20, 120, 3600]);
    let timers = rng.below(4); // 0: none, 1: valid T1/T2, 2: only T1, 3: inverted
    let give_router = rng.chance(2, 3);
    let mut nb = Neighbors::new(medium, vec![(Addr::V4(server), 9), (Addr::V4(router), 8)]);
    // behaviour schedule
    let nak_first_request = rng.chance(1, 6);
    let silent_until: Micros = if rng.chance(1, 4) { rng.range(1_000_000, 25_000_000) as Micros } else { 0 };
    let ignore_renewals = rng.chance(1, 3);
    let change_addr_on_renew = rng.chance(1, 6);
    let mut naked = false;
    let mut t: Micros = 0;
    let end: Micros = *rng.pick(&[30_000_000i64, 90_000_000, 200_000_000]);
    let mut steps = 0;
    let (mut discovers, mut requests, mut renews, mut acks, mut configured, mut deconfigured) = (0u64, 0u64, 0u64, 0u64, 0u64, 0u64);
    let mut next_app: Micros = 0;
    while t < end && steps < 600 && !n.dead {
        steps += 1;
        if t >= next_app {
            next_app = t + 700_000;
            let s = n.host.sockets.get_mut::<udp::Socket>(u);
            let r = s.send_slice(b"ping", IpEndpoint::new(ip4(router), 7));
            let _ = r;
        }
        let frames = n.poll(t, &mut out);
        // apply the event of this poll exactly like examples/dhcp_client.rs
        if let Some(ev) = n.dhcp_event.take() {
            match ev {
                DhcpEv::Configured { address, router } => {
                    configured += 1;
                    n.note(format!("application applies Configured({}, router {:?})", address, router));
                    n.host.iface.update_ip_addrs(|a| {
                        a.clear();
                        a.push(smoltcp::wire::IpCidr::Ipv4(address)).unwrap();
                    });
                    match router {
                        Some(r) => {
                            n.host.iface.routes_mut().add_default_ipv4_route(r).unwrap();
                        }
                        None => {
                            n.host.iface.routes_mut().remove_default_ipv4_route();
                        }
                    }
                }
                DhcpEv::Deconfigured => {
                    deconfigured += 1;
                    n.note("application applies Deconfigured".to_string());
                    n.host.iface.update_ip_addrs(|a| a.clear());
                    n.host.iface.routes_mut().remove_default_ipv4_route();
                }
            }
        }
        let mut inbox: Vec<(String, Vec<u8>)> = Vec::new();
        for f in &frames {
            for r in nb.answer(f) {
                inbox.push(("ARP reply".into(), r));
            }
        }
        for (src, _dst, sp, dp, payload) in udp_datagrams(medium, &frames, &n.reassembled) {
            if sp != 68 || dp != 67 {
                continue;
            }
            let Ok(d) = dhcp_v::parse(&payload) else { continue };
            if t < silent_until {
                continue;
            }
            let mut opts: Vec<(u8, Vec<u8>)> = vec![(54, server.to_vec()), (51, lease_secs.to_be_bytes().to_vec()), (1, vec![255, 255, 255, 0])];
            if give_router {
                opts.push((3, router.to_vec()));
            }
            opts.push((6, vec![8, 8, 8, 8, 0, 0, 0, 0]));
            match timers {
                1 => {
                    opts.push((58, (lease_secs / 2).max(1).to_be_bytes().to_vec()));
                    opts.push((59, (lease_secs * 7 / 8).max(1).to_be_bytes().to_vec()));
                }
                2 => opts.push((58, (lease_secs / 3).max(1).to_be_bytes().to_vec())),
                3 => {
                    opts.push((58, lease_secs.to_be_bytes().to_vec()));
                    opts.push((59, 1u32.to_be_bytes().to_vec()));
                }
                _ => {}
            }
            let (ty, yi) = match d.msg_type {
                Some(dhcp_v::DISCOVER) => {
                    discovers += 1;
                    (dhcp_v::OFFER, lease_addr)
                }
                Some(dhcp_v::REQUEST) => {
                    if d.ciaddr != [0; 4] {
                        renews += 1;
                        if ignore_renewals {
                            continue;
                        }
                        if change_addr_on_renew {
                            lease_addr[3] = lease_addr[3].wrapping_add(1).clamp(10, 200);
                        }
                    } else {
                        requests += 1;
                    }
                    if nak_first_request && !naked {
                        naked = true;
                        (dhcp_v::NAK, [0; 4])
                    } else {
                        acks += 1;
                        (dhcp_v::ACK, lease_addr)
                    }
                }
                _ => continue,
            };
            let reply = dhcp_v::build_reply(d.xid, &d.chaddr, &yi, &server, ty, &opts);
            let unicast = !src.is_unspecified() && rng.bool();
            let dst = if unicast { src } else { Addr::V4([255, 255, 255, 255]) };
            let udp = iudp::build(&Addr::V4(server), &dst, 67, 68, &reply);
            let pkt = ip::build(&Addr::V4(server), &dst, ip::PROTO_UDP, 64, &udp);
            let fr = eth::build(if unicast { &[0x02, 0, 0, 0, 0, 1] } else { &eth::BROADCAST }, &mac(9), eth::ETHERTYPE_IPV4, &pkt);
            inbox.push((format!("DHCP server reply type {} yiaddr {:?} to {}", ty, yi, dst), fr));
        }
        let had_input = !inbox.is_empty();
        for (what, f) in inbox {
            n.inject(&what, f);
        }
        {
            let s = n.host.sockets.get_mut::<udp::Socket>(u);
            while s.recv().is_ok() {}
        }
        t = if had_input || !frames.is_empty() {
            t + 300
        } else {
            match n.poll_at(t) {
                Some(at) => at.clamp(t + 300, t + 5_000_000),
                None => t + 1_000_000,
            }
        };
    }
    out.count("dhcp_runs", 1);
    out.count("dhcp_discovers_seen_by_server", discovers);
    out.count("dhcp_selecting_requests_seen_by_server", requests);
    out.count("dhcp_renew_or_rebind_requests_seen_by_server", renews);
    out.count("dhcp_acks_sent", acks);
    out.count("dhcp_configured_events_applied", configured);
    out.count("dhcp_deconfigured_events_applied", deconfigured);
    out.count("fragmented_datagrams_left_incomplete", n.judge.pending() as u64);
    out.class(format!("dhcp:lease-{}s/timers-{}", lease_secs, timers));
    out.class(format!("dhcp:server-{}{}{}", if ignore_renewals { "ignores-renewals" } else { "renews" }, if nak_first_request { "/nak-first" } else { "" }, if silent_until > 0 { "/late" } else { "" }));
    if idx == 0 {
        out.sample = Some(Json::obj().set("scenario", Json::s("dhcp")).set("config", Json::s(n.cfg_label())).set("discovers", Json::u(discovers)).set("renewals", Json::u(renews)).set("frames_judged", Json::u(n.judge.stats.frames)));
    }
    out
}

// =========================================================================== DNS

fn dns_name(rng: &mut Rng) -> String {
    let labels = rng.urange(1, 5);
    let mut parts = Vec::new();
    let mut total = 0;
    for _ in 0..labels {
        let l = match rng.below(6) {
            0 => 63,
            1 => 1,
            _ => rng.urange(1, 20),
        };
        if total + l + 1 > 240 {
            break;
        }
        total += l + 1;
        let s: String = (0..l).map(|_| (b'a' + rng.below(26) as u8) as char).collect();
        parts.push(s);
    }
    if parts.is_empty() {
        parts.push("x".to_string());
    }
    if rng.chance(1, 4) {
        parts.push("local".to_string());
    }
    let mut s = parts.join(".");
    if rng.chance(1, 5) {
        s.push('.');
    }
    s
}

pub fn scen_dns(idx: u64, rng: &mut Rng, ctx: &Ctx, focus: Focus) -> CaseOut {
    let mut out = CaseOut::default();
    let medium = pick_medium(rng);
    let v6 = medium == Medium::Ieee802154 || rng.bool();
    let dual = medium != Medium::Ieee802154 && rng.chance(1, 4);
    let (mtu, cls) = pick_mtu(rng, medium, v6 || dual);
    let caps = caps_single(rng);
    let prefill = *rng.pick(&[0xA5u8, 0xff, 0x00, 0x5a, 0x01]);
    let mut n = Node::new("R", medium, mtu, cls, caps, hw_for(medium, 1), &node_addrs(medium, v6, dual, 1), rng.next_u64(), prefill, false, focus);
    n.verbose = ctx.verbose;
    n.scenario = "dns".into();
    n.dns_on_53 = true;
    cfg_class(&mut out, "dns", &n, v6);
    // server on-link, off-link through a gateway, or unreachable
    let placement = rng.below(3);
    let server: Addr = match (v6, placement) {
        (true, 0) => Addr::V6(ula_v6(53)),
        (true, _) => {
            let mut a = [0u8; 16];
            a[0] = 0x20;
            a[1] = 0x01;
            a[15] = 0x53;
            Addr::V6(a)
        }
        (false, 0) => Addr::V4(v4(53)),
        (false, _) => Addr::V4([9, 9, 9, 9]),
    };
    let gw: Addr = if v6 { Addr::V6(ula_v6(8)) } else { Addr::V4(v4(8)) };
    if placement == 1 {
        match gw {
            Addr::V6(g) => {
                let _ = n.host.iface.routes_mut().add_default_ipv6_route(smoltcp::wire::Ipv6Address::from(g));
            }
            Addr::V4(g) => {
                let _ = n.host.iface.routes_mut().add_default_ipv4_route(smoltcp::wire::Ipv4Address::new(g[0], g[1], g[2], g[3]));
            }
        }
    }
    let mut nb = Neighbors::new(medium, vec![(server, 9), (gw, 8)]);
    let s = dns::Socket::new(&[server.to_smol()], Vec::new());
    let h = n.host.sockets.add(s);
    if rng.chance(1, 4) {
        n.host.sockets.get_mut::<dns::Socket>(h).set_hop_limit(Some(rng.range(1, 255) as u8));
    }
    let answer_mode = rng.below(4); // 0 good, 1 silent, 2 cname-then-a, 3 nxdomain
    let mut wrap = Wrap::new(medium);
    let mut t: Micros = 0;
    let mut handles = Vec::new();
    let (mut queries_seen, mut started) = (0u64, 0u64);
    let mut steps = 0;
    let end: Micros = *rng.pick(&[3_000_000i64, 15_000_000, 40_000_000]);
    let mut next_q: Micros = 0;
    while t < end && steps < 300 && !n.dead {
        steps += 1;
        if t >= next_q && started < 6 {
            next_q = t + rng.range(100_000, 4_000_000) as Micros;
            let name = dns_name(rng);
            let qt = *rng.pick(&[DnsQueryType::A, DnsQueryType::Aaaa, DnsQueryType::A, DnsQueryType::Cname]);
            let hsock = &mut n.host;
            let cx = hsock.iface.context();
            let r = hsock.sockets.get_mut::<dns::Socket>(h).start_query(cx, &name, qt);
            if let Ok(q) = r {
                handles.push(q);
                started += 1;
            }
            let ok = r.is_ok();
            n.note(format!("dns start_query({} bytes name{}, {:?}) -> {}", name.len(), if name.ends_with("local") || name.ends_with("local.") { " .local" } else { "" }, qt, ok));
            out.class(format!("app:dns-{:?}{}", qt, if name.contains("local") { "-mdns" } else { "" }));
        }
        let frames = n.poll(t, &mut out);
        let mut inbox: Vec<(String, Vec<u8>)> = Vec::new();
        for f in &frames {
            for r in nb.answer(f) {
                inbox.push(("neighbor answer".into(), r));
            }
        }
        for (src, dst, sp, dp, payload) in udp_datagrams(medium, &frames, &n.reassembled) {
            if dp != 53 {
                continue;
            }
            queries_seen += 1;
            if answer_mode == 1 || dst != server {
                continue;
            }
            let rr_a: (u16, Vec<u8>) = (1, vec![93, 184, 216, 34]);
            let rr_aaaa: (u16, Vec<u8>) = (28, vec![0x20, 1, 0xd, 0xb8, 0, 0, 0, 0, 0, 0, 0, 0, 0, 0, 0, 1]);
            let answers: Vec<(u16, Vec<u8>)> = match answer_mode {
                0 => vec![rr_a.clone(), rr_aaaa.clone()],
                2 => vec![(5, vec![3, b'w', b'w', b'w', 0xc0, 12]), rr_a.clone()],
                _ => vec![],
            };
            let Ok(resp) = dns_v::build_response(&payload, if answer_mode == 3 { 3 } else { 0 }, &answers) else { continue };
            let udp = iudp::build(&dst, &src, 53, sp, &resp);
            let pkt = ip::build(&dst, &src, ip::PROTO_UDP, 64, &udp);
            let from_n = if placement == 0 { 9 } else { 8 };
            for fr in wrap.frames(&pkt, Some(1), from_n) {
                inbox.push(("DNS response".into(), fr));
            }
        }
        let had = !inbox.is_empty();
        for (w, f) in inbox {
            n.inject(&w, f);
        }
        // collect results
        let mut keep = Vec::new();
        for q in handles.drain(..) {
            match n.host.sockets.get_mut::<dns::Socket>(h).get_query_result(q) {
                Err(dns::GetQueryResultError::Pending) => keep.push(q),
                Ok(_) => out.count("dns_queries_resolved", 1),
                Err(_) => out.count("dns_queries_failed", 1),
            }
        }
        handles = keep;
        t = if had || !frames.is_empty() {
            t + 300
        } else {
            match n.poll_at(t) {
                Some(at) => at.clamp(t + 300, t + 2_000_000).min(next_q.max(t + 300)),
                None => (t + 500_000).min(next_q.max(t + 300)),
            }
        };
    }
    out.count("dns_runs", 1);
    out.count("dns_queries_started", started);
    out.count("dns_query_datagrams_seen", queries_seen);
    if idx == 0 {
        out.sample = Some(Json::obj().set("scenario", Json::s("dns")).set("config", Json::s(n.cfg_label())).set("queries", Json::u(queries_seen)));
    }
    out
}

// =========================================================================== multicast membership, SLAAC

pub fn scen_mcast(idx: u64, rng: &mut Rng, ctx: &Ctx, focus: Focus) -> CaseOut {
    let mut out = CaseOut::default();
    let medium = pick_medium(rng);
    // address plans: v4 only, v6 link-local + ULA, v6 ULA only (no link-local), v4 + link-local, no address at all
    let plan = if medium == Medium::Ieee802154 { *rng.pick(&[1u64, 2]) } else { rng.below(5) };
    let v6 = plan == 1 || plan == 2;
    let addrs: Vec<smoltcp::wire::IpCidr> = match plan {
        0 => vec![cidr(&Addr::V4(v4(1)), 24)],
        1 => vec![cidr(&Addr::V6(ll_v6(medium, 1)), 64), cidr(&Addr::V6(ula_v6(1)), 64)],
        2 => vec![cidr(&Addr::V6(ula_v6(1)), 64)],
        3 => vec![cidr(&Addr::V4(v4(1)), 24), cidr(&Addr::V6(ll_v6(medium, 1)), 64)],
        _ => vec![],
    };
    let any_v6 = plan != 0;
    let (mtu, cls) = pick_mtu(rng, medium, any_v6);
    let caps = caps_single(rng);
    let prefill = *rng.pick(&[0xA5u8, 0xff, 0x00, 0x5a, 0x01]);
    // SLAAC: mostly with a link-local address (the router solicitation is sent from it); one run in
    // four of the other address plans switches it on without one (RFC 4861 4.1: the solicitation then
    // comes from the unspecified address)
    let slaac = (plan == 3 || (plan == 1 && rng.bool()) || (plan != 1 && plan != 3 && rng.chance(1, 4))) && medium != Medium::Ieee802154 && rng.chance(2, 3);
    let addrs = if slaac && plan == 1 { vec![cidr(&Addr::V6(ll_v6(medium, 1)), 64)] } else { addrs };
    let mut n = Node::new("M", medium, mtu, cls, caps, hw_for(medium, 1), &addrs, rng.next_u64(), prefill, slaac, focus);
    n.verbose = ctx.verbose;
    n.scenario = "mcast".into();
    cfg_class(&mut out, "mcast", &n, v6);
    out.class(format!("mcast:plan-{}{}", plan, if slaac { "-slaac" } else { "" }));
    let g4: Vec<[u8; 4]> = vec![[224, 0, 0, 251], [239, 1, 2, 3], [232, 255, 255, 255], [224, 0, 1, 129]];
    let g6: Vec<[u8; 16]> = (0..4u8)
        .map(|i| {
            let mut g = [0u8; 16];
            g[0] = 0xff;
            g[1] = if i == 3 { 0x05 } else { 0x02 };
            g[13] = i;
            g[15] = 0x10 + i;
            g
        })
        .collect();
    let mut wrap = Wrap::new(medium);
    let router_ll = Addr::V6(ll_v6(medium, 7));
    let mut t: Micros = 0;
    let rounds = rng.urange(4, 14);
    let mut joined4: Vec<[u8; 4]> = Vec::new();
    let mut joined6: Vec<[u8; 16]> = Vec::new();
    for _ in 0..rounds {
        if n.dead {
            break;
        }
        t += *rng.pick(&[500i64, 40_000, 900_000, 5_000_000]);
        match rng.below(8) {
            0 | 1 if medium != Medium::Ieee802154 => {
                let g = *rng.pick(&g4);
                let r = n.host.iface.join_multicast_group(ip4(g));
                if r.is_ok() && !joined4.contains(&g) {
                    joined4.push(g);
                }
                n.note(format!("join {:?} -> {:?}", g, r.is_ok()));
                out.class("app:join-v4");
            }
            2 | 3 => {
                let g = *rng.pick(&g6);
                let r = n.host.iface.join_multicast_group(ip6(g));
                if r.is_ok() && !joined6.contains(&g) {
                    joined6.push(g);
                }
                n.note(format!("join {} -> {:?}", Addr::V6(g), r.is_ok()));
                out.class("app:join-v6");
            }
            4 => {
                if let Some(g) = joined4.pop() {
                    let _ = n.host.iface.leave_multicast_group(ip4(g));
                    n.note(format!("leave {:?}", g));
                    out.class("app:leave-v4");
                } else if let Some(g) = joined6.pop() {
                    let _ = n.host.iface.leave_multicast_group(ip6(g));
                    n.note(format!("leave {}", Addr::V6(g)));
                    out.class("app:leave-v6");
                }
            }
            5 if medium != Medium::Ieee802154 => {
                // IGMP query: general (v1: max resp 0, v2) or group specific
                let general = rng.bool() || joined4.is_empty();
                let g = if general { [0u8; 4] } else { *rng.pick(&joined4) };
                let dst = if general { [224, 0, 0, 1] } else { g };
                let q = igmp::build(igmp::QUERY, *rng.pick(&[0u8, 1, 10, 100, 255]), &g);
                let pkt = ip::build(&Addr::V4(v4(7)), &Addr::V4(dst), ip::PROTO_IGMP, 1, &q);
                for f in wrap.frames(&pkt, None, 7) {
                    n.inject(&format!("IGMP query for {:?}", g), f);
                }
                out.class(if general { "in:igmp-general-query" } else { "in:igmp-group-query" });
            }
            6 => {
                // MLD query with hop-by-hop router alert, hop limit 1, link-local source
                let general = rng.bool() || joined6.is_empty();
                let g = if general { [0u8; 16] } else { *rng.pick(&joined6) };
                let mut all = [0u8; 16];
                all[0] = 0xff;
                all[1] = 2;
                all[15] = 1;
                let dst = if general { all } else { g };
                let q = mld::build_query(&router_ll, &Addr::V6(dst), *rng.pick(&[0u16, 1, 100, 1000, 10000]), &g);
                let Addr::V6(rl) = router_ll else { unreachable!() };
                let pkt = v6_with_ext(&rl, &dst, 1, &[(0, vec![5, 2, 0, 0])], ip::PROTO_ICMPV6, &q);
                for f in wrap.frames(&pkt, None, 7) {
                    n.inject(&format!("MLD query for {}", Addr::V6(g)), f);
                }
                out.class(if general { "in:mld-general-query" } else { "in:mld-group-query" });
            }
            _ => {
                // router advertisement with a prefix (SLAAC), from the router's link-local address to all-nodes
                let mut all = [0u8; 16];
                all[0] = 0xff;
                all[1] = 2;
                all[15] = 1;
                let mut prefix = [0u8; 16];
                prefix[0] = 0x20;
                prefix[1] = 0x01;
                prefix[2] = 0x0d;
                prefix[3] = 0xb8;
                prefix[7] = rng.below(2) as u8;
                let valid = *rng.pick(&[0u32, 3, 60, 86400]);
                let ll: Vec<u8> = match medium {
                    Medium::Ethernet => mac(7).to_vec(),
                    Medium::Ieee802154 => eui(7).to_vec(),
                    Medium::Ip => Vec::new(),
                };
                let ra = ndisc::build_ra(&router_ll, &Addr::V6(all), *rng.pick(&[0u16, 30, 1800]), &prefix, 64, valid, valid / 2, if ll.is_empty() { None } else { Some(&ll) });
                let pkt = ip::build(&router_ll, &Addr::V6(all), ip::PROTO_ICMPV6, 255, &ra);
                for f in wrap.frames(&pkt, None, 7) {
                    n.inject(&format!("router advertisement, prefix lifetime {}", valid), f);
                }
                out.class("in:router-advertisement");
            }
        }
        n.poll(t, &mut out);
        let mut k = 0;
        while k < 10 && !n.dead {
            k += 1;
            match n.poll_at(t) {
                Some(at) if at <= t + 12_000_000 => {
                    t = at.max(t + 100);
                    n.poll(t, &mut out);
                }
                _ => break,
            }
        }
    }
    out.count("mcast_runs", 1);
    if slaac {
        out.count("mcast_runs_with_slaac", 1);
        if n.host.iface.ip_addrs().len() > addrs.len() {
            out.count("slaac_addresses_configured", 1);
        }
    }
    if idx == 0 {
        out.sample = Some(Json::obj().set("scenario", Json::s("mcast")).set("config", Json::s(n.cfg_label())).set("frames_judged", Json::u(n.judge.stats.frames)));
    }
    out
}
