use vharness::mon;
use vharness::util::run::*;

fn usage() -> ! {
    eprintln!("usage: vmon <Cxx> <quick|thorough> [--seed N] [--variant V] [--out DIR] [--threads N] [--replay PART CASE]");
    std::process::exit(2);
}

fn main() {
    let args: Vec<String> = std::env::args().collect();
    if args.len() < 3 {
        usage();
    }
    let prop = args[1].clone();
    let tier = args[2].clone();
    let mut ctx = Ctx {
        prop: prop.clone(),
        tier,
        seed: 1,
        variant: "chk".into(),
        verbose: false,
        threads: std::thread::available_parallelism().map(|n| n.get()).unwrap_or(4),
        out_dir: "build/out".into(),
        scale_pct: 100,
    };
    let mut replay: Option<(String, u64)> = None;
    let mut only_part: Option<String> = None;
    let mut i = 3;
    while i < args.len() {
        match args[i].as_str() {
            "--seed" => {
                ctx.seed = args[i + 1].parse().unwrap_or(1);
                i += 2;
            }
            "--variant" => {
                ctx.variant = args[i + 1].clone();
                i += 2;
            }
            "--out" => {
                ctx.out_dir = args[i + 1].clone();
                i += 2;
            }
            "--threads" => {
                ctx.threads = args[i + 1].parse().unwrap_or(1);
                i += 2;
            }
            "--scale" => {
                ctx.scale_pct = args[i + 1].parse().unwrap_or(100);
                i += 2;
            }
            "--part" => {
                only_part = Some(args[i + 1].clone());
                i += 2;
            }
            "--replay" => {
                replay = Some((args[i + 1].clone(), args[i + 2].parse().unwrap_or(0)));
                i += 3;
            }
            _ => usage(),
        }
    }
    install_panic_hook();
    let Some(m) = mon::all().into_iter().find(|m| m.id == prop) else {
        eprintln!("unknown property {}", prop);
        std::process::exit(2);
    };
    if let Some((part, case)) = replay {
        ctx.verbose = true;
        let Some(p) = m.parts.iter().find(|p| p.name == part) else {
            eprintln!("unknown part {}", part);
            std::process::exit(2);
        };
        let key = format!("{}/{}", ctx.prop, p.name);
        let out = run_one(&ctx, &key, case, &p.f);
        println!("replay {} part={} case={} seed={} variant={}", ctx.prop, part, case, ctx.seed, ctx.variant);
        println!("oracle evaluations: {}", out.evals);
        for h in &out.harness_errors {
            println!("harness error: {}", h);
        }
        if out.violations.is_empty() {
            println!("no violation reproduced");
            std::process::exit(0);
        }
        for v in &out.violations {
            println!("violation [{}]: {}", v.sig, v.desc);
            println!("  detail: {}", v.detail.to_string());
        }
        std::process::exit(1);
    }
    let mut total = Summary::new(&ctx);
    for p in &m.parts {
        if let Some(op) = &only_part {
            if op != p.name {
                continue;
            }
        }
        let n = (p.cases)(&ctx);
        let s = run_cases(&ctx, p.name, n, p.f);
        eprintln!("  part {:<18} cases={:<8} evals={:<10} violations={} wall={:.1}s", p.name, s.cases, s.evals, s.violations.len(), s.wall_s);
        total.merge(s);
    }
    if let Some(post) = m.post {
        post(&mut total);
    }
    let code = finish(&total, m.rule, m.assumptions, if only_part.is_some() { &[] } else { m.floors });
    std::process::exit(code);
}
