//! Runtime-monitoring harness for the smoltcp properties C01..C20.
#![allow(clippy::all)]
#![allow(dead_code)]
pub mod gen;
pub mod indep;
pub mod mon;
pub mod sim;
pub mod util;
