//! Hostile but structured inputs: DNS names with every kind of compression
//! pointer abuse, and option lists (TCP, IPv6, NDISC, DHCP) whose length octets
//! are zero / short / oversized at every position.
use super::corpus::{self, V4A, V4B, V6A, V6B};
use crate::util::rng::Rng;
use smoltcp::wire::*;
use std::sync::OnceLock;

// ================================================================ DNS

pub fn dns_header(qd: u16, an: u16, ns: u16, ar: u16) -> Vec<u8> {
    let mut v = vec![0xbe, 0xef, 0x81, 0x80];
    for c in [qd, an, ns, ar] {
        v.extend_from_slice(&c.to_be_bytes());
    }
    v
}

fn ptr(off: usize) -> [u8; 2] {
    [0xc0 | ((off >> 8) as u8 & 0x3f), off as u8]
}

const QTAIL: [u8; 4] = [0, 1, 0, 1]; // type A, class IN

/// fixed part of a resource record after the owner name
fn rr_fixed(ty: u16, rdlen: u16) -> Vec<u8> {
    let mut v = ty.to_be_bytes().to_vec();
    v.extend_from_slice(&[0, 1, 0, 0, 1, 0x2c]);
    v.extend_from_slice(&rdlen.to_be_bytes());
    v
}

/// A packet whose question name, answer owner name and CNAME rdata are all the hostile `name`
/// (`name` is written for offset 12; the other two copies point at it).
fn dns_with_name(name: &[u8], tail: &[u8]) -> Vec<u8> {
    let mut v = dns_header(1, 2, 0, 0);
    v.extend_from_slice(name);
    v.extend_from_slice(&QTAIL);
    // answer 1: owner = pointer to the question name, CNAME whose rdata is a pointer to it as well
    v.extend_from_slice(&ptr(12));
    v.extend_from_slice(&rr_fixed(5, 2));
    v.extend_from_slice(&ptr(12));
    // answer 2: owner = the hostile name again (only meaningful for position independent names)
    v.extend_from_slice(&ptr(12));
    v.extend_from_slice(&rr_fixed(1, 4));
    v.extend_from_slice(&[10, 0, 0, 1]);
    v.extend_from_slice(tail);
    v
}

fn dns_systematic_build() -> Vec<Vec<u8>> {
    let mut out: Vec<Vec<u8>> = Vec::new();
    // 1. self-referential pointer (offset 12 points at offset 12)
    out.push(dns_with_name(&ptr(12), &[]));
    // 2. two pointers pointing at each other
    out.push(dns_with_name(&[ptr(14), ptr(12)].concat(), &[]));
    // 3. mutual recursion with a label on each side (endless label stream if pointers may go forward)
    out.push(dns_with_name(&[&[1, b'a'][..], &ptr(16), &[1, b'b'], &ptr(12)].concat(), &[]));
    // 4. three-cycle
    out.push(dns_with_name(&[&[1, b'a'][..], &ptr(16), &[1, b'b'], &ptr(20), &[1, b'c'], &ptr(12)].concat(), &[]));
    // 5. forward pointer to a proper name placed behind the records
    {
        let mut v = dns_with_name(&ptr(0), &[]);
        let target = v.len();
        v[12..14].copy_from_slice(&ptr(target));
        v.extend_from_slice(corpus::NAME_EXAMPLE);
        out.push(v);
    }
    // 6. backward pointer into the header (header octets read as labels), to offsets 0..11
    for off in 0..12 {
        out.push(dns_with_name(&ptr(off), &[]));
    }
    // 7. pointer to the last byte of the packet (zero = valid root, 5 = truncated label, 0xc0 = truncated pointer)
    for last in [0u8, 5, 0x3f, 0x40, 0x80, 0xc0, 0xff] {
        let mut v = dns_with_name(&ptr(0), &[7, 7, 7, last]);
        let l = v.len() - 1;
        v[12..14].copy_from_slice(&ptr(l));
        out.push(v);
    }
    // 8. pointer to exactly the packet length, one past, and the largest encodable offset
    for delta in [0usize, 1, 2] {
        let mut v = dns_with_name(&ptr(0), &[]);
        let l = v.len() + delta;
        v[12..14].copy_from_slice(&ptr(l));
        out.push(v);
    }
    out.push(dns_with_name(&ptr(0x3fff), &[]));
    // 9. label length boundaries: 63 is the longest label, 64/0x80/0xbf are reserved label types
    for l in [1u8, 62, 63] {
        let mut name = vec![l];
        name.extend(std::iter::repeat(b'x').take(l as usize));
        name.push(0);
        out.push(dns_with_name(&name, &[]));
        // same label, but the terminator is missing
        let mut name = vec![l];
        name.extend(std::iter::repeat(b'x').take(l as usize));
        out.push(dns_with_name(&name, &[]));
    }
    for l in [0x40u8, 0x41, 0x7f, 0x80, 0xbf] {
        let mut name = vec![l];
        name.extend(std::iter::repeat(b'y').take(70));
        name.push(0);
        out.push(dns_with_name(&name, &[]));
    }
    // 10. a label that claims more bytes than the packet has; a pointer missing its second octet
    out.push([dns_header(1, 0, 0, 0), vec![63, b'a', b'b']].concat());
    out.push([dns_header(1, 0, 0, 0), vec![3, b'w', b'w', b'w', 0xc0]].concat());
    out.push([dns_header(1, 0, 0, 0), vec![0xc0]].concat());
    out.push(dns_header(1, 1, 1, 1));
    // 11. long chains of backward pointers (each hop strictly backwards), without and with labels
    for hops in [2usize, 10, 100, 500] {
        for with_label in [false, true] {
            let mut v = dns_header(1, 0, 0, 0);
            v.extend_from_slice(&[0, 0, 1, 0, 1]); // root question: keeps offset 12 a valid name
            let mut prev = 12usize;
            for i in 0..hops {
                let here = v.len();
                if with_label {
                    v.extend_from_slice(&[1, b'a' + (i % 26) as u8]);
                }
                v.extend_from_slice(&ptr(prev));
                prev = here;
            }
            // an answer whose owner is the head of the chain, CNAME to it as well
            v[6..8].copy_from_slice(&1u16.to_be_bytes());
            v.extend_from_slice(&ptr(prev));
            v.extend_from_slice(&rr_fixed(5, 2));
            v.extend_from_slice(&ptr(prev));
            if v.len() <= 2048 {
                out.push(v);
            }
        }
    }
    // 12. counts far larger than the payload; rdlength zero / one short / one past / huge
    out.push([dns_header(0xffff, 0xffff, 0xffff, 0xffff), vec![0, 0, 1, 0, 1]].concat());
    for (ty, rdlen, have) in [(1u16, 0u16, 4usize), (1, 3, 4), (1, 5, 4), (28, 16, 15), (28, 17, 16), (5, 0xffff, 2), (5, 0, 0), (5, 1, 1)] {
        let mut v = dns_header(1, 1, 0, 0);
        v.extend_from_slice(corpus::NAME_EXAMPLE);
        v.extend_from_slice(&QTAIL);
        v.extend_from_slice(&ptr(12));
        v.extend_from_slice(&rr_fixed(ty, rdlen));
        v.extend(std::iter::repeat(0xc0).take(have));
        out.push(v);
    }
    // 13. class other than IN, truncated fixed parts
    {
        let mut v = dns_header(1, 0, 0, 0);
        v.extend_from_slice(corpus::NAME_EXAMPLE);
        v.extend_from_slice(&[0, 1, 0, 3]);
        out.push(v.clone());
        for cut in 1..4 {
            out.push(v[..v.len() - cut].to_vec());
        }
    }
    out
}

pub fn dns_systematic() -> &'static [Vec<u8>] {
    static C: OnceLock<Vec<Vec<u8>>> = OnceLock::new();
    C.get_or_init(dns_systematic_build)
}

/// A random DNS message built from "name nodes" that end in a terminator, a pointer to
/// another node (any direction, itself included), an out-of-range pointer, or nothing.
pub fn dns_random(rng: &mut Rng) -> Vec<u8> {
    let nodes = rng.urange(1, 8);
    // lay the nodes out first so that pointers can refer to nodes that come later
    let mut sizes: Vec<Vec<u8>> = Vec::new();
    for _ in 0..nodes {
        let labels = rng.urange(0, 3);
        let mut n = Vec::new();
        for _ in 0..labels {
            let l = match rng.below(8) {
                0 => 63,
                1 => 0x40, // reserved label type
                2 => rng.urange(1, 62),
                _ => rng.urange(1, 6),
            };
            n.push(l as u8);
            let body = if l < 0x40 { l } else { rng.urange(0, 4) };
            n.extend((0..body).map(|i| b'a' + (i % 26) as u8));
        }
        sizes.push(n);
    }
    let questions = rng.urange(0, 2);
    let records = rng.urange(0, 3);
    let (qd, an) = (questions as u16, records as u16);
    let mut v = dns_header(if rng.chance(1, 10) { 0xffff } else { qd }, if rng.chance(1, 10) { 0xffff } else { an }, rng.below(2) as u16, rng.below(2) as u16);
    // node offsets: nodes are emitted as question / record owner names (and the rest as a trailing arena)
    let mut offsets = vec![0usize; nodes];
    let mut layout: Vec<(usize, usize)> = Vec::new(); // (node, offset of its end marker)
    let emit_node = |v: &mut Vec<u8>, i: usize, offsets: &mut Vec<usize>, layout: &mut Vec<(usize, usize)>| {
        offsets[i] = v.len();
        v.extend_from_slice(&sizes[i]);
        layout.push((i, v.len()));
        v.extend_from_slice(&[0, 0]); // room for a terminator or a pointer, patched below
    };
    let mut next = 0usize;
    for _ in 0..questions {
        let i = next % nodes;
        next += 1;
        emit_node(&mut v, i, &mut offsets, &mut layout);
        v.extend_from_slice(&QTAIL);
    }
    for _ in 0..records {
        let i = next % nodes;
        next += 1;
        emit_node(&mut v, i, &mut offsets, &mut layout);
        let ty = *rng.pick(&[1u16, 28, 5, 5, 2, 16]);
        let rd_node = next % nodes;
        let rdata: Vec<u8> = match ty {
            1 => vec![1, 2, 3, 4],
            28 => vec![9; 16],
            _ => {
                next += 1;
                Vec::new()
            }
        };
        let rdlen_pos = v.len() + 8;
        v.extend_from_slice(&rr_fixed(ty, rdata.len() as u16));
        if ty == 1 || ty == 28 {
            v.extend_from_slice(&rdata);
        } else {
            let start = v.len();
            emit_node(&mut v, rd_node, &mut offsets, &mut layout);
            let l = (v.len() - start) as u16;
            v[rdlen_pos..rdlen_pos + 2].copy_from_slice(&l.to_be_bytes());
        }
        match rng.below(10) {
            0 => v[rdlen_pos + 1] = v[rdlen_pos + 1].wrapping_add(1),
            1 => v[rdlen_pos + 1] = v[rdlen_pos + 1].wrapping_sub(1),
            2 => v[rdlen_pos] = 0xff,
            _ => {}
        }
    }
    while next < nodes {
        emit_node(&mut v, next, &mut offsets, &mut layout);
        next += 1;
    }
    // now decide how every node ends
    let total = v.len();
    for (i, end) in layout {
        let e: [u8; 2] = match rng.below(12) {
            0 | 1 => [0, 0],                                   // terminator (+ a stray zero)
            2 => ptr(offsets[i]),                              // pointer to itself
            3 => ptr(end),                                     // pointer to the pointer itself
            4 => ptr(total - 1),                               // last byte
            5 => ptr(total + rng.urange(0, 2)),                // just out of range
            6 => [0xc0, rng.u8()],                             // anywhere in the first 256 bytes
            7 => [rng.u8() | 0xc0, rng.u8()],                  // anywhere at all
            _ => ptr(offsets[rng.usize_below(nodes)]),         // another node, either direction
        };
        v[end..end + 2].copy_from_slice(&e);
    }
    if rng.chance(1, 6) {
        let cut = rng.urange(0, v.len());
        v.truncate(cut.max(12));
    }
    v.truncate(2048);
    v
}

// ================================================================ option lists

#[derive(Clone)]
pub struct Opt {
    pub bytes: Vec<u8>,
    /// index of the length octet inside `bytes`, if the option has one
    pub len_at: Option<usize>,
}

fn o(bytes: &[u8]) -> Opt {
    Opt { bytes: bytes.to_vec(), len_at: if bytes.len() >= 2 { Some(1) } else { None } }
}

pub fn tcp_options() -> Vec<Opt> {
    vec![
        o(&[2, 4, 0x05, 0xb4]),
        o(&[1]),
        o(&[3, 3, 7]),
        o(&[4, 2]),
        o(&[8, 10, 1, 2, 3, 4, 5, 6, 7, 8]),
        o(&[5, 10, 0, 0, 0, 1, 0, 0, 0, 2]),
        o(&[254, 4, 0xaa, 0xbb]),
        o(&[0]),
    ]
}

pub fn ipv6_options() -> Vec<Opt> {
    vec![
        o(&[1, 2, 0, 0]),
        o(&[5, 2, 0, 0]),
        o(&[0]),
        o(&[0x3e, 4, 1, 2, 3, 4]),
        o(&[0xc2, 4, 0, 1, 0, 0]),
        o(&[0x63, 4, 0, 0x1e, 0, 1]),
        o(&[1, 0]),
    ]
}

pub fn ndisc_options() -> Vec<Opt> {
    let mut redirected = vec![4u8, 7, 0, 0, 0, 0, 0, 0];
    redirected.extend_from_slice(&corpus::ipv6(V6A, V6B, IpProtocol::Udp, &[0u8; 8]));
    let mut prefix = vec![3u8, 4, 64, 0xc0, 0, 1, 0x51, 0x80, 0, 0, 0x38, 0x40, 0, 0, 0, 0];
    prefix.extend_from_slice(&corpus::V6G.octets());
    vec![
        o(&[1, 1, 2, 0, 0, 0, 0, 1]),
        o(&[5, 1, 0, 0, 0, 0, 5, 0xdc]),
        o(&prefix),
        o(&[2, 2, 2, 0x11, 0x22, 0x33, 0x44, 0x55, 0x66, 0x77, 0, 0, 0, 0, 0, 0]),
        o(&redirected),
        o(&[0x20, 2, 9, 9, 9, 9, 9, 9, 9, 9, 9, 9, 9, 9, 9, 9]),
    ]
}

pub fn dhcp_options() -> Vec<Opt> {
    vec![
        o(&[53, 1, 5]),
        o(&[0]),
        o(&[54, 4, 192, 168, 1, 1]),
        o(&[51, 4, 0, 0, 14, 16]),
        o(&[1, 4, 255, 255, 255, 0]),
        o(&[3, 4, 192, 168, 1, 1]),
        o(&[6, 8, 8, 8, 8, 8, 1, 1, 1, 1]),
        o(&[61, 7, 1, 2, 0, 0, 0, 0, 1]),
        o(&[55, 3, 1, 3, 6]),
        o(&[57, 2, 5, 0xdc]),
        o(&[58, 4, 0, 0, 7, 8]),
        o(&[255]),
    ]
}

#[derive(Clone, Copy, PartialEq, Debug)]
pub enum Proto {
    Tcp,
    Ipv6,
    Ndisc,
    Dhcp,
}

pub const PROTOS: [Proto; 4] = [Proto::Tcp, Proto::Ipv6, Proto::Ndisc, Proto::Dhcp];

pub fn options_of(p: Proto) -> Vec<Opt> {
    match p {
        Proto::Tcp => tcp_options(),
        Proto::Ipv6 => ipv6_options(),
        Proto::Ndisc => ndisc_options(),
        Proto::Dhcp => dhcp_options(),
    }
}

/// The hostile values for the length octet of an option whose well-formed value is `exact`,
/// when `remaining` is what a length reaching exactly to the end of the list would be.
pub fn bad_lengths(exact: u8, remaining: usize) -> Vec<u8> {
    let mut v = vec![0u8, 1, 2, exact.wrapping_sub(1), exact.wrapping_add(1), 0x7f, 0x80, 0xfe, 0xff];
    if remaining <= 255 {
        v.push(remaining as u8);
        v.push((remaining as u8).wrapping_add(1));
        v.push((remaining as u8).wrapping_sub(1));
    }
    v.retain(|&x| x != exact);
    v.sort_unstable();
    v.dedup();
    v
}

fn concat(list: &[Opt]) -> Vec<u8> {
    list.iter().flat_map(|x| x.bytes.iter().copied()).collect()
}

/// All the ways the option list is presented to the views: on its own, and inside each container
/// that carries such a list (with valid checksums, so that strict parsing reaches the options).
pub fn wrap(p: Proto, list: &[u8]) -> Vec<Vec<u8>> {
    let a4: IpAddress = V4A.into();
    let b4: IpAddress = V4B.into();
    let mut out = vec![list.to_vec()];
    match p {
        Proto::Tcp => {
            let l = &list[..list.len().min(40)];
            let seg = corpus::tcp_with_options(a4, b4, l, b"data");
            out.push(corpus::ipv4(IpProtocol::Tcp, &seg));
            out.push(seg);
        }
        Proto::Ipv6 => {
            let mut body = list.to_vec();
            while (body.len() + 2) % 8 != 0 {
                body.push(0);
            }
            if body.len() + 2 <= 2048 {
                let ext = corpus::ipv6_ext(IpProtocol::Udp, &body);
                let mut chain = ext.clone();
                chain.extend_from_slice(&corpus::udp(V6A.into(), V6B.into(), 1, 2, b"x"));
                out.push(corpus::ipv6(V6A, V6B, IpProtocol::HopByHop, &chain));
                out.push(ext);
            }
        }
        Proto::Ndisc => {
            // (message type, fixed header length)
            for (ty, hl) in [(133u8, 8usize), (134, 16), (135, 24), (136, 24), (137, 40)] {
                let mut m = vec![0u8; hl];
                m[0] = ty;
                m.extend_from_slice(list);
                Icmpv6Packet::new_unchecked(&mut m[..]).fill_checksum(&V6A, &V6B);
                out.push(m);
            }
        }
        Proto::Dhcp => {
            let base = corpus::corpus().iter().find(|p| p.name == "dhcp-ack-all-options").expect("corpus entry");
            let mut m = base.bytes[..240].to_vec();
            m.extend_from_slice(list);
            out.push(corpus::udp(a4, b4, 67, 68, &m));
            out.push(m);
        }
    }
    out.retain(|x| x.len() <= 2048);
    out
}

fn option_systematic_build() -> Vec<Vec<u8>> {
    let mut out = Vec::new();
    for p in PROTOS {
        let opts = options_of(p);
        // rotate so that every option also appears first and last
        for rot in 0..opts.len() {
            let mut list: Vec<Opt> = opts.clone();
            list.rotate_left(rot);
            if p == Proto::Tcp {
                // keep the list inside the 40 bytes a TCP header can carry
                while concat(&list).len() > 40 {
                    list.pop();
                }
            }
            let flat = concat(&list);
            if rot == 0 {
                out.extend(wrap(p, &flat));
            }
            // the rotated list with the length octet of each option in turn made hostile
            let mut at = 0usize;
            for opt in list.iter() {
                let here = at;
                at += opt.bytes.len();
                let Some(lp) = opt.len_at else { continue };
                let exact = opt.bytes[lp];
                let unit = if p == Proto::Ndisc { 8 } else { 1 };
                let hdr = if p == Proto::Ndisc || p == Proto::Tcp { 0 } else { 2 };
                let remaining = (flat.len() - here).saturating_sub(hdr) / unit;
                for bad in bad_lengths(exact, remaining) {
                    let mut m = flat.clone();
                    m[here + lp] = bad;
                    out.extend(wrap(p, &m));
                }
            }
        }
    }
    out
}

pub fn option_systematic() -> &'static [Vec<u8>] {
    static C: OnceLock<Vec<Vec<u8>>> = OnceLock::new();
    C.get_or_init(option_systematic_build)
}

/// Random order / subset / repetition of the options with one or two hostile length octets.
pub fn option_random(rng: &mut Rng) -> Vec<Vec<u8>> {
    let p = *rng.pick(&PROTOS);
    let pool = options_of(p);
    let n = rng.urange(1, 7);
    let mut flat = Vec::new();
    let mut len_positions = Vec::new();
    for _ in 0..n {
        let opt = rng.pick(&pool);
        if let Some(lp) = opt.len_at {
            len_positions.push((flat.len() + lp, opt.bytes[lp]));
        }
        flat.extend_from_slice(&opt.bytes);
    }
    if p == Proto::Tcp {
        flat.truncate(40);
        len_positions.retain(|(pos, _)| *pos < flat.len());
    }
    for _ in 0..rng.urange(1, 2) {
        if len_positions.is_empty() {
            break;
        }
        let (pos, exact) = *rng.pick(&len_positions);
        let remaining = flat.len() - pos;
        let bads = bad_lengths(exact, remaining);
        flat[pos] = if rng.chance(1, 4) { rng.u8() } else { *rng.pick(&bads) };
    }
    if rng.chance(1, 5) {
        let cut = rng.urange(0, flat.len());
        flat.truncate(cut);
    }
    wrap(p, &flat)
}
