//! Generators for values of the `smoltcp::wire` representation types.
//!
//! Every generator stays inside the *domain* of its type, i.e. the set of
//! values for which the protocol (and the documented behaviour of the parser)
//! permits a loss-free emit/parse round trip.  Each restriction is commented
//! where it is applied and repeated in `mon::c06::ASSUMPTIONS`.
//!
//! Borrowed parts of a representation (`&'a [u8]` payloads, option lists, ...)
//! borrow from a [`Store`] that is generated first, so that a representation is
//! a pure function of the PRNG stream.
use crate::util::rng::Rng;
use smoltcp::time::Duration;
use smoltcp::wire::*;

// ------------------------------------------------------------------ primitives

/// Boundary-biased u8: 0, 1, max-1, max, powers of two (+-1), uniform.
pub fn u8b(rng: &mut Rng) -> u8 {
    match rng.below(10) {
        0 => 0,
        1 => 1,
        2 => 0xfe,
        3 => 0xff,
        4 => 1u8 << rng.below(8),
        5 => (1u8 << rng.below(8)).wrapping_sub(1),
        6 => (1u8 << rng.below(8)).wrapping_add(1),
        _ => rng.u8(),
    }
}

/// Boundary-biased u16.
pub fn u16b(rng: &mut Rng) -> u16 {
    match rng.below(10) {
        0 => 0,
        1 => 1,
        2 => 0xfffe,
        3 => 0xffff,
        4 => 1u16 << rng.below(16),
        5 => (1u16 << rng.below(16)).wrapping_sub(1),
        6 => (1u16 << rng.below(16)).wrapping_add(1),
        _ => rng.u16(),
    }
}

/// Boundary-biased u32.
pub fn u32b(rng: &mut Rng) -> u32 {
    match rng.below(10) {
        0 => 0,
        1 => 1,
        2 => 0xffff_fffe,
        3 => 0xffff_ffff,
        4 => 1u32 << rng.below(32),
        5 => (1u32 << rng.below(32)).wrapping_sub(1),
        6 => (1u32 << rng.below(32)).wrapping_add(1),
        _ => rng.u32(),
    }
}

/// A non-zero boundary-biased u16 (ports that the parser requires to be present).
pub fn port_nz(rng: &mut Rng) -> u16 {
    let p = u16b(rng);
    if p == 0 { 1 + rng.below(0xffff) as u16 } else { p }
}

/// A payload length in 0..=max, biased to 0 / 1 / odd / powers of two +-1 / max.
pub fn plen(rng: &mut Rng, max: usize) -> usize {
    const EDGES: [usize; 20] = [2, 3, 7, 8, 9, 15, 16, 17, 31, 32, 33, 63, 64, 65, 127, 128, 255, 256, 511, 1023];
    let v = match rng.below(12) {
        0 => 0,
        1 => 1,
        2 => max,
        3 => max.saturating_sub(1),
        4 => 2 * rng.urange(0, 16) + 1,
        5 => *rng.pick(&EDGES),
        6 | 7 => rng.urange(0, 64),
        _ => rng.urange(0, max),
    };
    v.min(max)
}

/// Raw value for an `enum_with_unknown!` enum whose named values are
/// 0..=named_max (dense enough): named values, the first unnamed ones and the
/// boundaries of the underlying type.  `T::from(raw)` canonicalises, so
/// `Unknown(x)` is only ever produced for an `x` without a name.
pub fn enum8(rng: &mut Rng, named_max: u8) -> u8 {
    match rng.below(8) {
        0 => u8b(rng),
        1 => named_max.saturating_add(1),
        _ => rng.below(named_max as u64 + 1) as u8,
    }
}

pub fn ip_protocol(rng: &mut Rng) -> IpProtocol {
    const NAMED: [u8; 12] = [0x00, 0x01, 0x02, 0x06, 0x11, 0x2b, 0x2c, 0x32, 0x33, 0x3a, 0x3b, 0x3c];
    let raw = if rng.chance(3, 4) { *rng.pick(&NAMED) } else { u8b(rng) };
    IpProtocol::from(raw)
}

pub fn ethertype(rng: &mut Rng) -> EthernetProtocol {
    let raw = match rng.below(6) {
        0 => 0x0800,
        1 => 0x0806,
        2 => 0x86dd,
        3 => 0x8100,
        _ => u16b(rng),
    };
    EthernetProtocol::from(raw)
}

// ------------------------------------------------------------------ addresses

pub fn eth(rng: &mut Rng) -> (EthernetAddress, &'static str) {
    match rng.below(6) {
        0 => (EthernetAddress([0; 6]), "zero"),
        1 => (EthernetAddress::BROADCAST, "bcast"),
        2 => {
            let mut b = [0u8; 6];
            rng.fill(&mut b);
            b[0] |= 0x01;
            (EthernetAddress(b), "mcast")
        }
        3 => {
            let mut b = [0u8; 6];
            rng.fill(&mut b);
            b[0] = (b[0] & 0xfc) | 0x02;
            (EthernetAddress(b), "local")
        }
        _ => {
            let mut b = [0u8; 6];
            rng.fill(&mut b);
            b[0] &= 0xfc;
            (EthernetAddress(b), "global")
        }
    }
}

pub fn ipv4(rng: &mut Rng) -> (Ipv4Address, &'static str) {
    match rng.below(12) {
        0 => (Ipv4Address::new(0, 0, 0, 0), "unspec"),
        1 => (Ipv4Address::new(127, 0, 0, 1), "loopback"),
        2 => (Ipv4Address::new(255, 255, 255, 255), "bcast"),
        3 => (Ipv4Address::new(224, 0, 0, rng.u8()), "mcast-local"),
        4 => (Ipv4Address::new(239, rng.u8(), rng.u8(), rng.u8()), "mcast-admin"),
        5 => (Ipv4Address::new(224 + rng.below(16) as u8, rng.u8(), rng.u8(), rng.u8()), "mcast"),
        6 => (Ipv4Address::new(169, 254, rng.u8(), rng.u8()), "link-local"),
        7 => (Ipv4Address::new(10, rng.u8(), rng.u8(), rng.u8()), "private"),
        8 => (Ipv4Address::new(192, 168, rng.u8(), 255), "subnet-bcast"),
        9 => (Ipv4Address::new(240 + rng.below(15) as u8, rng.u8(), rng.u8(), rng.u8()), "reserved"),
        _ => {
            let a = 1 + rng.below(223) as u8;
            (Ipv4Address::new(a, rng.u8(), rng.u8(), rng.u8()), "global")
        }
    }
}

pub fn ipv4_mcast_or_unspec(rng: &mut Rng) -> (Ipv4Address, &'static str) {
    match rng.below(5) {
        0 => (Ipv4Address::new(0, 0, 0, 0), "unspec"),
        1 => (Ipv4Address::new(224, 0, 0, 1), "all-systems"),
        2 => (Ipv4Address::new(224, 0, 0, rng.u8()), "mcast-local"),
        3 => (Ipv4Address::new(239, 255, 255, 255), "mcast-max"),
        _ => (Ipv4Address::new(224 + rng.below(16) as u8, rng.u8(), rng.u8(), rng.u8()), "mcast"),
    }
}

fn v6(b: [u8; 16]) -> Ipv6Address {
    Ipv6Address::from_octets(b)
}

/// IPv6 multicast of every scope and of every 6LoWPAN compression shape.
pub fn ipv6_mcast(rng: &mut Rng) -> (Ipv6Address, &'static str) {
    let mut b = [0u8; 16];
    b[0] = 0xff;
    match rng.below(7) {
        0 => {
            b[1] = 0x02;
            b[15] = 1;
            (v6(b), "mcast-all-nodes")
        }
        1 => {
            // ff02::00XX
            b[1] = 0x02;
            b[15] = rng.u8();
            (v6(b), "mcast8")
        }
        2 => {
            // ffXX::00XX:XXXX
            b[1] = *rng.pick(&[0x01u8, 0x02, 0x05, 0x08, 0x0e, 0x12, 0xff]);
            rng.fill(&mut b[13..16]);
            (v6(b), "mcast32")
        }
        3 => {
            // ffXX::00XX:XXXX:XXXX
            b[1] = *rng.pick(&[0x01u8, 0x02, 0x05, 0x08, 0x0e, 0x3e]);
            rng.fill(&mut b[11..16]);
            (v6(b), "mcast48")
        }
        4 => {
            // solicited node ff02::1:ffXX:XXXX
            b[1] = 0x02;
            b[11] = 0x01;
            b[12] = 0xff;
            rng.fill(&mut b[13..16]);
            (v6(b), "mcast-solicited")
        }
        5 => {
            b[1] = 0x02;
            b[15] = 0x16;
            (v6(b), "mcast-mldv2-routers")
        }
        _ => {
            b[1] = *rng.pick(&[0x01u8, 0x02, 0x04, 0x05, 0x08, 0x0e]);
            rng.fill(&mut b[2..16]);
            b[2 + rng.usize_below(9)] |= 0x80; // not compressible
            (v6(b), "mcast-full")
        }
    }
}

pub fn ipv6(rng: &mut Rng) -> (Ipv6Address, &'static str) {
    let mut b = [0u8; 16];
    match rng.below(14) {
        0 => (v6(b), "unspec"),
        1 => {
            b[15] = 1;
            (v6(b), "loopback")
        }
        2 | 3 | 4 => ipv6_mcast(rng),
        5 => {
            // fe80::ff:fe00:XXXX (IID derived from an 802.15.4 short address)
            b[0] = 0xfe;
            b[1] = 0x80;
            b[11] = 0xff;
            b[12] = 0xfe;
            rng.fill(&mut b[14..16]);
            (v6(b), "ll-short-iid")
        }
        6 => {
            b[0] = 0xfe;
            b[1] = 0x80;
            rng.fill(&mut b[8..16]);
            (v6(b), "ll-iid")
        }
        7 => {
            // inside fe80::/10 but with non-zero bits 10..64
            b[0] = 0xfe;
            b[1] = 0x80 | (rng.u8() & 0x3f);
            rng.fill(&mut b[2..16]);
            b[2] |= 1;
            (v6(b), "ll-wide")
        }
        8 => {
            b[0] = 0xfd;
            rng.fill(&mut b[1..16]);
            (v6(b), "ula")
        }
        9 => {
            b[0] = 0x20;
            b[1] = 0x01;
            b[2] = 0x0d;
            b[3] = 0xb8;
            rng.fill(&mut b[4..16]);
            (v6(b), "global")
        }
        10 => {
            b[10] = 0xff;
            b[11] = 0xff;
            rng.fill(&mut b[12..16]);
            (v6(b), "v4-mapped")
        }
        11 => (v6([0xff; 16]), "all-ones"),
        _ => {
            rng.fill(&mut b);
            if b[0] == 0xff {
                b[0] = 0x3f;
            }
            (v6(b), "random")
        }
    }
}

pub fn ll154(rng: &mut Rng) -> Ieee802154Address {
    match rng.below(5) {
        0 => Ieee802154Address::BROADCAST,
        1 | 2 => {
            let mut b = [0u8; 2];
            rng.fill(&mut b);
            Ieee802154Address::Short(b)
        }
        _ => {
            let mut b = [0u8; 8];
            rng.fill(&mut b);
            Ieee802154Address::Extended(b)
        }
    }
}

/// The link-local IPv6 address that 6LoWPAN derives from a link-layer address.
pub fn ll_derived(ll: Ieee802154Address) -> Option<Ipv6Address> {
    let mut b = [0u8; 16];
    b[0] = 0xfe;
    b[1] = 0x80;
    match ll {
        Ieee802154Address::Short(s) => {
            b[11] = 0xff;
            b[12] = 0xfe;
            b[14] = s[0];
            b[15] = s[1];
            Some(v6(b))
        }
        Ieee802154Address::Extended(e) => {
            b[8..16].copy_from_slice(&e);
            b[8] ^= 0x02;
            Some(v6(b))
        }
        Ieee802154Address::Absent => None,
    }
}

// ------------------------------------------------------------------ store

/// A block of random bytes from which payloads are borrowed.
pub struct Pool {
    bytes: Vec<u8>,
}

impl Pool {
    pub fn new(rng: &mut Rng, n: usize) -> Pool {
        Pool { bytes: rng.bytes(n) }
    }
    pub fn take(&self, rng: &mut Rng, len: usize) -> &[u8] {
        let len = len.min(self.bytes.len());
        let start = rng.urange(0, self.bytes.len() - len);
        &self.bytes[start..start + len]
    }
    pub fn capacity(&self) -> usize {
        self.bytes.len()
    }
}

/// Constant option bodies for DHCP "additional options" (they must be 'static
/// because `DhcpRepr` borrows a slice of `DhcpOption<'a>`).
static OPT_BYTES: [u8; 255] = {
    let mut a = [0u8; 255];
    let mut i = 0;
    while i < 255 {
        a[i] = (i as u8).wrapping_mul(37).wrapping_add(11);
        i += 1;
    }
    a
};

/// Everything a representation may borrow from, plus the context a receiver
/// would use to parse it (addresses for pseudo headers, link-layer addresses
/// and contexts for 6LoWPAN).
pub struct Store {
    pub pool: Pool,
    pub v4_src: Ipv4Address,
    pub v4_dst: Ipv4Address,
    pub v6_src: Ipv6Address,
    pub v6_dst: Ipv6Address,
    pub use_v6: bool,
    pub ll_src: Option<Ieee802154Address>,
    pub ll_dst: Option<Ieee802154Address>,
    pub contexts: [SixlowpanAddressContext; 2],
    pub dns_name: Vec<u8>,
    pub mld_records: Vec<MldAddressRecordRepr<'static>>,
    pub dhcp_opts: Vec<DhcpOption<'static>>,
}

impl Store {
    pub fn new(rng: &mut Rng) -> Store {
        // one value in 48 gets a pool that allows payload lengths up to the
        // limit of the 16-bit length fields
        let pool_len = if rng.chance(1, 48) { 65_536 } else { 2_048 };
        let pool = Pool::new(rng, pool_len);
        let ll = |rng: &mut Rng| match rng.below(6) {
            0 => None,
            1 => Some(Ieee802154Address::Absent),
            _ => Some(ll154(rng)),
        };
        let ll_src = ll(rng);
        let ll_dst = ll(rng);
        let mut c0 = [0u8; 8];
        let mut c1 = [0u8; 8];
        rng.fill(&mut c0);
        rng.fill(&mut c1);
        c0[0] = 0x20;
        c1[0] = 0xfd;
        let nrec = rng.below(5);
        let mld_records = (0..nrec)
            .map(|_| MldAddressRecordRepr {
                record_type: MldRecordType::from(enum8(rng, 7)),
                aux_data_len: u8b(rng),
                num_srcs: u16b(rng),
                // AddressRecord::set_mcast_addr asserts a multicast address
                mcast_addr: ipv6_mcast(rng).0,
                // emit() writes the fixed 20-byte part only
                payload: &[],
            })
            .collect();
        let nopt = if rng.chance(1, 2) { 0 } else { rng.below(4) };
        let dhcp_opts = (0..nopt).map(|_| dhcp_extra_option(rng)).collect();
        Store {
            pool,
            v4_src: ipv4(rng).0,
            v4_dst: ipv4(rng).0,
            v6_src: ipv6(rng).0,
            v6_dst: ipv6(rng).0,
            use_v6: rng.bool(),
            ll_src,
            ll_dst,
            contexts: [SixlowpanAddressContext(c0), SixlowpanAddressContext(c1)],
            dns_name: dns_name(rng),
            mld_records,
            dhcp_opts,
        }
    }
    pub fn ip_src(&self) -> IpAddress {
        if self.use_v6 { IpAddress::Ipv6(self.v6_src) } else { IpAddress::Ipv4(self.v4_src) }
    }
    pub fn ip_dst(&self) -> IpAddress {
        if self.use_v6 { IpAddress::Ipv6(self.v6_dst) } else { IpAddress::Ipv4(self.v4_dst) }
    }
    /// A payload of length 0..=max (max is cut to the pool size).
    pub fn payload(&self, rng: &mut Rng, max: usize) -> &[u8] {
        let max = max.min(self.pool.capacity());
        // the big pool exists to reach the far end of the length range
        let n = if self.pool.capacity() > 4096 && rng.chance(1, 2) {
            max - rng.urange(0, 3).min(max)
        } else {
            plen(rng, max.min(1500))
        };
        self.pool.take(rng, n)
    }
}

/// A DHCP option "not known to smoltcp": any kind the parser does not
/// interpret, excluding PAD (0) and END (255).
fn dhcp_extra_option(rng: &mut Rng) -> DhcpOption<'static> {
    // kinds interpreted by DhcpRepr::parse: 1, 3, 6, 50, 51, 53, 54, 55, 57, 58, 59, 61
    const KNOWN: [u8; 12] = [1, 3, 6, 50, 51, 53, 54, 55, 57, 58, 59, 61];
    let kind = loop {
        let k = match rng.below(4) {
            0 => *rng.pick(&[2u8, 12, 15, 28, 42, 43, 52, 56, 60, 66, 67, 81, 119, 254]),
            _ => 1 + rng.below(254) as u8,
        };
        if !KNOWN.contains(&k) {
            break k;
        }
    };
    let len = match rng.below(6) {
        0 => 0,
        1 => 1,
        2 => 255,
        _ => rng.urange(0, 40),
    };
    let start = rng.urange(0, 255 - len);
    DhcpOption { kind, data: &OPT_BYTES[start..start + len] }
}

/// A well-formed DNS name in wire format: labels of 1..=63 octets, at most 255
/// octets in total, terminated by the root label or by a compression pointer.
pub fn dns_name(rng: &mut Rng) -> Vec<u8> {
    let mut name = Vec::new();
    let labels = match rng.below(8) {
        0 => 0,
        1 => 1,
        _ => rng.urange(1, 6),
    };
    let pointer = rng.chance(1, 6);
    let tail = if pointer { 2 } else { 1 };
    for _ in 0..labels {
        let room = 255usize.saturating_sub(name.len() + tail + 1);
        if room == 0 {
            break;
        }
        let want = match rng.below(6) {
            0 => 63,
            1 => 1,
            2 => 62,
            _ => rng.urange(1, 12),
        };
        let l = want.min(room).min(63);
        name.push(l as u8);
        let binary = rng.chance(1, 5);
        for _ in 0..l {
            name.push(if binary { rng.u8() } else { b'a' + rng.below(26) as u8 });
        }
    }
    if pointer {
        name.push(0xc0 | (rng.u8() & 0x3f));
        name.push(rng.u8());
    } else {
        name.push(0);
    }
    name
}

// ------------------------------------------------------------------ link layer, ARP, IP

pub fn ethernet(rng: &mut Rng) -> EthernetRepr {
    EthernetRepr { src_addr: eth(rng).0, dst_addr: eth(rng).0, ethertype: ethertype(rng) }
}

pub fn arp(rng: &mut Rng) -> ArpRepr {
    let op = match rng.below(5) {
        0 => 1,
        1 => 2,
        2 => 3,
        _ => u16b(rng),
    };
    ArpRepr::EthernetIpv4 {
        operation: ArpOperation::from(op),
        source_hardware_addr: eth(rng).0,
        source_protocol_addr: ipv4(rng).0,
        target_hardware_addr: eth(rng).0,
        target_protocol_addr: ipv4(rng).0,
    }
}

/// Domain: payload_len fits the 16-bit total-length field (<= 65535 - 20).
pub fn ipv4_repr(rng: &mut Rng, payload_len: usize) -> Ipv4Repr {
    Ipv4Repr {
        src_addr: ipv4(rng).0,
        dst_addr: ipv4(rng).0,
        next_header: ip_protocol(rng),
        payload_len,
        hop_limit: u8b(rng),
    }
}

/// Domain: payload_len fits the 16-bit payload-length field.
pub fn ipv6_repr(rng: &mut Rng, payload_len: usize) -> Ipv6Repr {
    Ipv6Repr {
        src_addr: ipv6(rng).0,
        dst_addr: ipv6(rng).0,
        next_header: ip_protocol(rng),
        payload_len,
        hop_limit: u8b(rng),
    }
}

// ------------------------------------------------------------------ IPv6 extension headers

/// Domain: `data.len() == length * 8 + 6` (the header is `length + 1` units of
/// eight octets, two of which are owned by the representation).
pub fn ipv6_ext_header<'a>(s: &'a Store, rng: &mut Rng) -> Ipv6ExtHeaderRepr<'a> {
    let length = match rng.below(6) {
        0 => 0,
        1 => 1,
        2 => 255,
        _ => rng.below(8) as u8,
    };
    Ipv6ExtHeaderRepr {
        next_header: ip_protocol(rng),
        length,
        data: s.pool.take(rng, length as usize * 8 + 6),
    }
}

/// Domain: `Unknown.type_` is a type the parser does not interpret (not Pad1,
/// PadN, RouterAlert), `data.len() == length`.
pub fn ipv6_option<'a>(s: &'a Store, rng: &mut Rng) -> Ipv6OptionRepr<'a> {
    match rng.below(6) {
        0 => Ipv6OptionRepr::Pad1,
        1 => Ipv6OptionRepr::PadN(match rng.below(4) {
            0 => 0,
            1 => 255,
            _ => rng.below(12) as u8,
        }),
        2 | 3 => {
            let raw = match rng.below(5) {
                0 => 0,
                1 => 1,
                2 => 2,
                _ => u16b(rng),
            };
            Ipv6OptionRepr::RouterAlert(Ipv6OptionRouterAlert::from(raw))
        }
        _ => {
            let t = loop {
                let t = match rng.below(4) {
                    0 => 0x63, // RPL: parsed as Unknown when proto-rpl is disabled
                    1 => *rng.pick(&[0x3eu8, 0x7e, 0xbe, 0xfe, 0xc2, 0x04]),
                    _ => rng.u8(),
                };
                if t != 0 && t != 1 && t != 5 {
                    break t;
                }
            };
            let length = match rng.below(5) {
                0 => 0,
                1 => 255,
                _ => rng.below(24) as u8,
            };
            Ipv6OptionRepr::Unknown {
                type_: Ipv6OptionType::from(t),
                length,
                data: s.pool.take(rng, length as usize),
            }
        }
    }
}

pub fn ipv6_hbh<'a>(s: &'a Store, rng: &mut Rng) -> Ipv6HopByHopRepr<'a> {
    // heapless::Vec is not nameable from here: start from a constructor of the
    // type itself
    let mut r = Ipv6HopByHopRepr::mldv2_router_alert();
    r.options.clear();
    let n = rng.urange(0, smoltcp::config::IPV6_HBH_MAX_OPTIONS);
    for _ in 0..n {
        let _ = r.options.push(ipv6_option(s, rng));
    }
    r
}

/// Domain: frag_offset is a 13-bit field.
pub fn ipv6_fragment(rng: &mut Rng) -> Ipv6FragmentRepr {
    let off = match rng.below(5) {
        0 => 0,
        1 => 1,
        2 => 0x1fff,
        3 => 0x1ffe,
        _ => rng.u16() & 0x1fff,
    };
    Ipv6FragmentRepr { frag_offset: off, more_frags: rng.bool(), ident: u32b(rng) }
}

/// Domain: cmpr_i, cmpr_e, pad are 4-bit fields.
pub fn ipv6_routing<'a>(s: &'a Store, rng: &mut Rng) -> Ipv6RoutingRepr<'a> {
    if rng.chance(1, 3) {
        Ipv6RoutingRepr::Type2 { segments_left: u8b(rng), home_address: ipv6(rng).0 }
    } else {
        let n = match rng.below(5) {
            0 => 0,
            1 => 1,
            _ => rng.urange(0, 64),
        };
        let nib = |rng: &mut Rng| match rng.below(4) {
            0 => 0u8,
            1 => 15,
            _ => rng.below(16) as u8,
        };
        Ipv6RoutingRepr::Rpl {
            segments_left: u8b(rng),
            cmpr_i: nib(rng),
            cmpr_e: nib(rng),
            pad: nib(rng),
            addresses: s.pool.take(rng, n),
        }
    }
}

// ------------------------------------------------------------------ ICMPv4 / IGMP

/// RFC 792 quoted datagram: at least 8 octets (the parser rejects less); the
/// quoted header's length describes exactly the quoted data (this is how the
/// parser defines `header.payload_len`).  `loose` generates the candidate
/// sub-domain in which the quoted header keeps the length of the original,
/// longer datagram.
pub fn icmpv4<'a>(s: &'a Store, rng: &mut Rng, loose: bool) -> Icmpv4Repr<'a> {
    let err = |rng: &mut Rng| {
        // 576 (minimum MTU) - 20 (IP) - 8 (ICMP) - 20 (quoted header) = 528
        let max = if rng.chance(1, 6) { 1444 } else { 528 };
        let n = 8 + plen(rng, max - 8);
        let data = s.pool.take(rng, n);
        let quoted = if loose { n + 1 + rng.urange(0, 1400) } else { n };
        (ipv4_repr(rng, quoted), data)
    };
    match rng.below(4) {
        0 => Icmpv4Repr::EchoRequest { ident: u16b(rng), seq_no: u16b(rng), data: s.payload(rng, 1472) },
        1 => Icmpv4Repr::EchoReply { ident: u16b(rng), seq_no: u16b(rng), data: s.payload(rng, 1472) },
        2 => {
            let (header, data) = err(rng);
            Icmpv4Repr::DstUnreachable { reason: Icmpv4DstUnreachable::from(enum8(rng, 15)), header, data }
        }
        _ => {
            let (header, data) = err(rng);
            Icmpv4Repr::TimeExceeded { reason: Icmpv4TimeExceeded::from(enum8(rng, 1)), header, data }
        }
    }
}

/// RFC 3376 4.1.1 Max Resp Code -> time in units of 1/10 s.
pub fn igmp_code_to_decisecs(code: u8) -> u64 {
    if code < 128 {
        code as u64
    } else {
        let mant = (code & 0x0f) as u64;
        let exp = ((code >> 4) & 0x07) as u64;
        (mant | 0x10) << (exp + 3)
    }
}

/// Domain: the group is 0.0.0.0 or multicast (the parser rejects anything
/// else); `max_resp_time` is a value the 8-bit Max Resp Code can express
/// exactly; a version-1 query has time 0 and a version-2 query a non-zero code
/// (the version is *derived* from the code being zero).
pub fn igmp(rng: &mut Rng) -> (IgmpRepr, u8) {
    let group_addr = ipv4_mcast_or_unspec(rng).0;
    match rng.below(5) {
        0 => (
            IgmpRepr::MembershipQuery { max_resp_time: Duration::from_millis(0), group_addr, version: IgmpVersion::Version1 },
            0,
        ),
        1 | 2 => {
            let code = match rng.below(6) {
                0 => 1,
                1 => 127,
                2 => 128,
                3 => 255,
                _ => 1 + rng.below(255) as u8,
            };
            (
                IgmpRepr::MembershipQuery {
                    max_resp_time: Duration::from_millis(igmp_code_to_decisecs(code) * 100),
                    group_addr,
                    version: IgmpVersion::Version2,
                },
                code,
            )
        }
        3 => (
            IgmpRepr::MembershipReport {
                group_addr,
                version: if rng.bool() { IgmpVersion::Version1 } else { IgmpVersion::Version2 },
            },
            0,
        ),
        _ => (IgmpRepr::LeaveGroup { group_addr }, 0),
    }
}

// ------------------------------------------------------------------ ICMPv6 / NDISC / MLD

/// Domain: an NDISC link-layer address option has no length of its own, only
/// the option length in units of 8 octets: 6-octet (Ethernet) and 8-octet
/// (IEEE 802.15.4 extended) addresses are the ones that can be carried.
pub fn raw_lladdr(rng: &mut Rng) -> RawHardwareAddress {
    if rng.bool() {
        RawHardwareAddress::from_bytes(&eth(rng).0.0)
    } else {
        let mut b = [0u8; 8];
        rng.fill(&mut b);
        RawHardwareAddress::from_bytes(&b)
    }
}

/// Domain: lifetimes are whole seconds that fit 32 bits.
pub fn prefix_info(rng: &mut Rng) -> NdiscPrefixInformation {
    let plen = match rng.below(5) {
        0 => 0,
        1 => 64,
        2 => 128,
        _ => u8b(rng),
    };
    NdiscPrefixInformation {
        prefix_len: plen,
        flags: NdiscPrefixInfoFlags::from_bits_truncate((rng.below(4) as u8) << 6),
        valid_lifetime: Duration::from_secs(u32b(rng) as u64),
        preferred_lifetime: Duration::from_secs(u32b(rng) as u64),
        prefix: ipv6(rng).0,
    }
}

/// Domain: `header.payload_len == data.len()` (the option carries the quoted
/// packet only); `loose` generates the candidate sub-domain of a truncated
/// quote.  The option length is one octet in units of eight.
pub fn redirected_header<'a>(s: &'a Store, rng: &mut Rng, loose: bool) -> NdiscRedirectedHeader<'a> {
    let n = match rng.below(5) {
        0 => 0,
        1 => 8,
        _ => plen(rng, 1184),
    };
    let data = s.pool.take(rng, n);
    let quoted = if loose {
        if n > 0 && rng.bool() { n - 1 } else { n + 1 + rng.urange(0, 100) }
    } else {
        n
    };
    NdiscRedirectedHeader { header: ipv6_repr(rng, quoted), data }
}

/// Domain: `Unknown.type_` is not one of the five types the parser
/// interprets, `length >= 1`, `data.len() == 8 * length - 2`.
pub fn ndisc_option<'a>(s: &'a Store, rng: &mut Rng, loose_redirect: bool) -> NdiscOptionRepr<'a> {
    if loose_redirect {
        return NdiscOptionRepr::RedirectedHeader(redirected_header(s, rng, true));
    }
    match rng.below(6) {
        0 => NdiscOptionRepr::SourceLinkLayerAddr(raw_lladdr(rng)),
        1 => NdiscOptionRepr::TargetLinkLayerAddr(raw_lladdr(rng)),
        2 => NdiscOptionRepr::PrefixInformation(prefix_info(rng)),
        3 => NdiscOptionRepr::RedirectedHeader(redirected_header(s, rng, false)),
        4 => NdiscOptionRepr::Mtu(u32b(rng)),
        _ => {
            let type_ = loop {
                let t = match rng.below(3) {
                    0 => *rng.pick(&[0u8, 6, 7, 24, 25, 31, 255]),
                    _ => rng.u8(),
                };
                if !(1..=5).contains(&t) {
                    break t;
                }
            };
            let length = match rng.below(5) {
                0 => 1,
                1 => 255,
                _ => 1 + rng.below(6) as u8,
            };
            NdiscOptionRepr::Unknown { type_, length, data: s.pool.take(rng, length as usize * 8 - 2) }
        }
    }
}

fn opt<T>(rng: &mut Rng, f: impl FnOnce(&mut Rng) -> T) -> Option<T> {
    if rng.bool() { Some(f(rng)) } else { None }
}

/// Domain: router_lifetime is whole seconds in 16 bits, reachable/retrans
/// time whole milliseconds in 32 bits; flags are the defined bits.
pub fn ndisc<'a>(s: &'a Store, rng: &mut Rng) -> NdiscRepr<'a> {
    match rng.below(5) {
        0 => NdiscRepr::RouterSolicit { lladdr: opt(rng, raw_lladdr) },
        1 => NdiscRepr::RouterAdvert {
            hop_limit: u8b(rng),
            flags: NdiscRouterFlags::from_bits_truncate((rng.below(4) as u8) << 6),
            router_lifetime: Duration::from_secs(u16b(rng) as u64),
            reachable_time: Duration::from_millis(u32b(rng) as u64),
            retrans_time: Duration::from_millis(u32b(rng) as u64),
            lladdr: opt(rng, raw_lladdr),
            mtu: opt(rng, u32b),
            prefix_info: opt(rng, prefix_info),
        },
        2 => NdiscRepr::NeighborSolicit { target_addr: ipv6(rng).0, lladdr: opt(rng, raw_lladdr) },
        3 => NdiscRepr::NeighborAdvert {
            flags: NdiscNeighborFlags::from_bits_truncate((rng.below(8) as u8) << 5),
            target_addr: ipv6(rng).0,
            lladdr: opt(rng, raw_lladdr),
        },
        _ => NdiscRepr::Redirect {
            target_addr: ipv6(rng).0,
            dest_addr: ipv6(rng).0,
            lladdr: opt(rng, raw_lladdr),
            redirected_hdr: if rng.bool() { Some(redirected_header(s, rng, false)) } else { None },
        },
    }
}

/// Domain: qrv is a 3-bit field (the setter asserts it).
pub fn mld<'a>(s: &'a Store, rng: &mut Rng) -> MldRepr<'a> {
    match rng.below(3) {
        0 => MldRepr::Query {
            max_resp_code: u16b(rng),
            mcast_addr: if rng.bool() { Ipv6Address::UNSPECIFIED } else { ipv6(rng).0 },
            s_flag: rng.bool(),
            qrv: rng.below(8) as u8,
            qqic: u8b(rng),
            num_srcs: u16b(rng),
            data: {
                let n = 16 * rng.urange(0, 4) + if rng.chance(1, 8) { rng.urange(0, 15) } else { 0 };
                s.pool.take(rng, n)
            },
        },
        1 => MldRepr::Report { nr_mcast_addr_rcrds: u16b(rng), data: s.payload(rng, 1200) },
        _ => MldRepr::ReportRecordReprs(&s.mld_records),
    }
}

/// Domain: the multicast address must be multicast (setter assertion); the
/// representation owns the fixed 20 octets, `payload` (source addresses and
/// auxiliary data) is written by the caller.
pub fn mld_record<'a>(s: &'a Store, rng: &mut Rng) -> MldAddressRecordRepr<'a> {
    MldAddressRecordRepr {
        record_type: MldRecordType::from(enum8(rng, 7)),
        aux_data_len: u8b(rng),
        num_srcs: u16b(rng),
        mcast_addr: ipv6_mcast(rng).0,
        payload: {
            let n = 16 * rng.urange(0, 3);
            s.pool.take(rng, n)
        },
    }
}

/// Domain: quoted data of ICMPv6 errors fits the minimum MTU
/// (1280 - 40 - 8 - 40 = 1192 octets; emit() cuts anything longer by design).
pub fn icmpv6<'a>(s: &'a Store, rng: &mut Rng) -> Icmpv6Repr<'a> {
    let err = |rng: &mut Rng| {
        let n = match rng.below(6) {
            0 => 1192,
            1 => 1191,
            _ => plen(rng, 1192),
        };
        let data = s.pool.take(rng, n);
        // the quoted header keeps the length field of the original datagram
        let quoted = if rng.bool() { n } else { u16b(rng) as usize };
        (ipv6_repr(rng, quoted), data)
    };
    match rng.below(12) {
        0 => {
            let (header, data) = err(rng);
            Icmpv6Repr::DstUnreachable { reason: Icmpv6DstUnreachable::from(enum8(rng, 6)), header, data }
        }
        1 => {
            let (header, data) = err(rng);
            Icmpv6Repr::PktTooBig { mtu: u32b(rng), header, data }
        }
        2 => {
            let (header, data) = err(rng);
            Icmpv6Repr::TimeExceeded { reason: Icmpv6TimeExceeded::from(enum8(rng, 1)), header, data }
        }
        3 => {
            let (header, data) = err(rng);
            Icmpv6Repr::ParamProblem { reason: Icmpv6ParamProblem::from(enum8(rng, 2)), pointer: u32b(rng), header, data }
        }
        4 => Icmpv6Repr::EchoRequest { ident: u16b(rng), seq_no: u16b(rng), data: s.payload(rng, 1232) },
        5 => Icmpv6Repr::EchoReply { ident: u16b(rng), seq_no: u16b(rng), data: s.payload(rng, 1232) },
        6 | 7 | 8 => Icmpv6Repr::Ndisc(ndisc(s, rng)),
        _ => Icmpv6Repr::Mld(mld(s, rng)),
    }
}

// ------------------------------------------------------------------ UDP / TCP

/// Domain: the destination port is not 0 (documented reject in parse).
pub fn udp(rng: &mut Rng) -> UdpRepr {
    UdpRepr { src_port: u16b(rng), dst_port: port_nz(rng) }
}

/// Domain of a single option: a SACK option has 1..=3 blocks in the leading
/// slots; `Unknown` has a kind the parser does not interpret and a body that
/// fits the 40 octets of TCP option space.
pub fn tcp_option<'a>(s: &'a Store, rng: &mut Rng) -> TcpOption<'a> {
    match rng.below(9) {
        0 => TcpOption::EndOfList,
        1 => TcpOption::NoOperation,
        2 => TcpOption::MaxSegmentSize(u16b(rng)),
        3 => TcpOption::WindowScale(u8b(rng)),
        4 => TcpOption::SackPermitted,
        5 => {
            let n = 1 + rng.usize_below(3);
            TcpOption::SackRange(sack_ranges(rng, n))
        }
        6 => TcpOption::TimeStamp { tsval: u32b(rng), tsecr: u32b(rng) },
        _ => {
            let len = match rng.below(4) {
                0 => 0,
                1 => 38,
                _ => rng.urange(0, 38),
            };
            let kind = loop {
                let k = match rng.below(3) {
                    0 => *rng.pick(&[8u8, 6, 7, 9, 28, 30, 34, 253, 254, 255]),
                    _ => rng.u8(),
                };
                // 0, 1: single-octet options; 2..=5: fixed-shape options that
                // the parser rejects with any other length; (8, 10): timestamp
                if k > 5 && !(k == 8 && len == 8) {
                    break k;
                }
            };
            TcpOption::Unknown { kind, data: s.pool.take(rng, len) }
        }
    }
}

fn sack_ranges(rng: &mut Rng, n: usize) -> [Option<(u32, u32)>; 3] {
    let mut r = [None; 3];
    for slot in r.iter_mut().take(n) {
        *slot = Some((u32b(rng), u32b(rng)));
    }
    r
}

/// Domain rules of TcpRepr (all visible in `TcpRepr::parse` / `emit`):
///  * both ports non-zero (parse rejects 0);
///  * window scale <= 14 (parse clamps larger values, RFC 7323);
///  * SACK blocks fill the leading slots, and appear only on segments that
///    carry an ACK and do not carry SACK-permitted (emit writes them only then);
///  * the options fit the 40 octets the 4-bit data offset can describe.
/// `max_seg_size`, `window_scale` and `sack_permitted` are parsed on every
/// segment, not only on SYN, so they are generated on every kind of segment.
pub fn tcp<'a>(s: &'a Store, rng: &mut Rng) -> TcpRepr<'a> {
    let control = match rng.below(8) {
        0 | 1 => TcpControl::None,
        2 => TcpControl::Psh,
        3 | 4 => TcpControl::Syn,
        5 => TcpControl::Fin,
        _ => TcpControl::Rst,
    };
    let syn = control == TcpControl::Syn;
    let ack_number = if rng.chance(2, 3) { Some(TcpSeqNumber(u32b(rng) as i32)) } else { None };
    let p = |rng: &mut Rng, on_syn: u64, other: u64| rng.chance(if syn { on_syn } else { other }, 8);
    let max_seg_size = if p(rng, 6, 2) { Some(u16b(rng)) } else { None };
    let window_scale = if p(rng, 5, 2) {
        Some(match rng.below(4) {
            0 => 0,
            1 => 14,
            _ => rng.below(15) as u8,
        })
    } else {
        None
    };
    let sack_permitted = p(rng, 5, 1);
    let timestamp = if rng.chance(1, 2) { Some(TcpTimestampRepr::new(u32b(rng), u32b(rng))) } else { None };
    let mut nsack = if ack_number.is_some() && !sack_permitted && rng.chance(1, 2) { 1 + rng.usize_below(3) } else { 0 };
    let fixed = max_seg_size.map_or(0, |_| 4) + window_scale.map_or(0, |_| 3) + if sack_permitted { 2 } else { 0 } + timestamp.map_or(0, |_| 10);
    while nsack > 0 && fixed + 2 + 8 * nsack > 40 {
        nsack -= 1;
    }
    TcpRepr {
        src_port: port_nz(rng),
        dst_port: port_nz(rng),
        control,
        seq_number: TcpSeqNumber(u32b(rng) as i32),
        ack_number,
        window_len: u16b(rng),
        window_scale,
        max_seg_size,
        sack_permitted,
        sack_ranges: sack_ranges(rng, nsack),
        timestamp,
        payload: s.payload(rng, 1460),
    }
}

// ------------------------------------------------------------------ DHCP / DNS

/// Domain: `Unknown` message types only for unnamed values; parameter request
/// list of at most 255 octets; additional options of kinds smoltcp does not
/// interpret.  Every other field takes any value.
pub fn dhcp<'a>(s: &'a Store, rng: &mut Rng) -> DhcpRepr<'a> {
    let mt = match rng.below(10) {
        0 => u8b(rng),
        1 => 9,
        _ => 1 + rng.below(8) as u8,
    };
    let a4 = |rng: &mut Rng| ipv4(rng).0;
    // 0..=3 servers; heapless::Vec<_, 3> is not nameable from here, the field
    // type drives the inference of collect()
    let servers: Vec<Ipv4Address> = (0..rng.below(4)).map(|_| a4(rng)).collect();
    let with_dns = rng.chance(2, 3);
    DhcpRepr {
        message_type: DhcpMessageType::from(mt),
        transaction_id: u32b(rng),
        secs: u16b(rng),
        client_hardware_address: eth(rng).0,
        client_ip: a4(rng),
        your_ip: a4(rng),
        server_ip: a4(rng),
        router: opt(rng, a4),
        subnet_mask: opt(rng, a4),
        relay_agent_ip: a4(rng),
        broadcast: rng.bool(),
        requested_ip: opt(rng, a4),
        client_identifier: opt(rng, |r| eth(r).0),
        server_identifier: opt(rng, a4),
        parameter_request_list: if rng.bool() {
            let n = match rng.below(5) {
                0 => 0,
                1 => 255,
                _ => rng.urange(0, 16),
            };
            Some(s.pool.take(rng, n))
        } else {
            None
        },
        dns_servers: if with_dns { Some(servers.into_iter().collect()) } else { None },
        max_size: opt(rng, u16b),
        lease_duration: opt(rng, u32b),
        renew_duration: if rng.chance(1, 4) { Some(u32b(rng)) } else { None },
        rebind_duration: if rng.chance(1, 4) { Some(u32b(rng)) } else { None },
        additional_options: &s.dhcp_opts,
    }
}

pub fn dns_type(rng: &mut Rng) -> DnsQueryType {
    let raw = match rng.below(8) {
        0 => 1,
        1 => 2,
        2 => 5,
        3 => 6,
        4 => 0x1c,
        5 => 255,
        _ => u16b(rng),
    };
    DnsQueryType::from(raw)
}

pub fn dns_question<'a>(s: &'a Store, rng: &mut Rng) -> DnsQuestion<'a> {
    DnsQuestion { name: &s.dns_name, type_: dns_type(rng) }
}

/// Domain: the opcode is a 4-bit field; flags are the defined bits.
pub fn dns<'a>(s: &'a Store, rng: &mut Rng) -> DnsRepr<'a> {
    let op = match rng.below(6) {
        0 => 0,
        1 => 1,
        2 => 15,
        _ => rng.below(16) as u8,
    };
    let flags = match rng.below(4) {
        0 => 0,
        1 => 0xffff,
        2 => 0x0100,
        _ => rng.u16(),
    };
    DnsRepr {
        transaction_id: u16b(rng),
        opcode: DnsOpcode::from(op),
        flags: DnsFlags::from_bits_truncate(flags),
        question: dns_question(s, rng),
    }
}

// ------------------------------------------------------------------ IEEE 802.15.4 / 6LoWPAN

/// Domain ("addressed frame, layout emit() implements"): a frame type with
/// addressing fields and sequence number, destination PAN and both addresses
/// present, source PAN present exactly when PAN-ID compression is off; for
/// frame version 2015 not (extended, extended), whose PAN presence differs.
/// Unknown frame versions / addressing modes are rejected by
/// `Frame::new_checked` by documented design.
pub fn ieee802154(rng: &mut Rng) -> Ieee802154Repr {
    let addr = |rng: &mut Rng| {
        if rng.bool() {
            let mut b = [0u8; 2];
            rng.fill(&mut b);
            if rng.chance(1, 6) { Ieee802154Address::BROADCAST } else { Ieee802154Address::Short(b) }
        } else {
            let mut b = [0u8; 8];
            rng.fill(&mut b);
            Ieee802154Address::Extended(b)
        }
    };
    let mut dst = addr(rng);
    let src = addr(rng);
    let version = match rng.below(3) {
        0 => Ieee802154FrameVersion::Ieee802154_2003,
        1 => Ieee802154FrameVersion::Ieee802154_2006,
        _ => Ieee802154FrameVersion::Ieee802154,
    };
    if version == Ieee802154FrameVersion::Ieee802154
        && matches!(dst, Ieee802154Address::Extended(_))
        && matches!(src, Ieee802154Address::Extended(_))
    {
        dst = Ieee802154Address::Short([rng.u8(), rng.u8()]);
    }
    let frame_type = match rng.below(6) {
        0 => Ieee802154FrameType::Beacon,
        1 => Ieee802154FrameType::MacCommand,
        2 => Ieee802154FrameType::Multipurpose,
        3 if version == Ieee802154FrameVersion::Ieee802154 => Ieee802154FrameType::Acknowledgement,
        _ => Ieee802154FrameType::Data,
    };
    let compression = rng.bool();
    Ieee802154Repr {
        frame_type,
        security_enabled: rng.chance(1, 4),
        frame_pending: rng.bool(),
        ack_request: rng.bool(),
        sequence_number: Some(u8b(rng)),
        pan_id_compression: compression,
        frame_version: version,
        dst_pan_id: Some(Ieee802154Pan(u16b(rng))),
        dst_addr: Some(dst),
        src_pan_id: if compression { None } else { Some(Ieee802154Pan(u16b(rng))) },
        src_addr: Some(src),
    }
}

/// `(ecn, dscp, flow_label)` combinations that LOWPAN_IPHC can express
/// (TF = 11, 10, 01, 00); any other combination makes `buffer_len()` reach
/// `unreachable!()`.
pub fn iphc_tf(rng: &mut Rng) -> (Option<u8>, Option<u8>, Option<u16>) {
    match rng.below(12) {
        0 => (Some(rng.u8() & 0xc0), Some(rng.u8() & 0x3f), None),
        1 => (Some(rng.u8() & 0xc0), None, Some(rng.u16())),
        2 => (Some(rng.u8() & 0xc0), Some(rng.u8() & 0x3f), Some(rng.u16())),
        _ => (None, None, None),
    }
}

/// Domain: `ll_src_addr` / `ll_dst_addr` are the link-layer addresses the
/// receiver passes to parse (they are context, copied into the result).
pub fn iphc(s: &Store, rng: &mut Rng) -> SixlowpanIphcRepr {
    let pick_src = |rng: &mut Rng| match (rng.below(4), s.ll_src.and_then(ll_derived)) {
        (0, Some(a)) => a,
        _ => ipv6(rng).0,
    };
    let pick_dst = |rng: &mut Rng| match (rng.below(4), s.ll_dst.and_then(ll_derived)) {
        (0, Some(a)) => a,
        _ => ipv6(rng).0,
    };
    let hop_limit = match rng.below(6) {
        0 => 1,
        1 => 64,
        2 => 255,
        _ => u8b(rng),
    };
    let (ecn, dscp, flow_label) = iphc_tf(rng);
    SixlowpanIphcRepr {
        src_addr: pick_src(rng),
        ll_src_addr: s.ll_src,
        dst_addr: pick_dst(rng),
        ll_dst_addr: s.ll_dst,
        next_header: if rng.chance(1, 3) { SixlowpanNextHeader::Compressed } else { SixlowpanNextHeader::Uncompressed(ip_protocol(rng)) },
        hop_limit,
        ecn,
        dscp,
        flow_label,
    }
}

pub fn sixlowpan_ext(rng: &mut Rng) -> SixlowpanExtHeaderRepr {
    let id = match rng.below(7) {
        0 => SixlowpanExtHeaderId::HopByHopHeader,
        1 => SixlowpanExtHeaderId::RoutingHeader,
        2 => SixlowpanExtHeaderId::FragmentHeader,
        3 => SixlowpanExtHeaderId::DestinationOptionsHeader,
        4 => SixlowpanExtHeaderId::MobilityHeader,
        5 => SixlowpanExtHeaderId::Header,
        _ => SixlowpanExtHeaderId::Reserved,
    };
    SixlowpanExtHeaderRepr {
        ext_header_id: id,
        next_header: if rng.bool() { SixlowpanNextHeader::Compressed } else { SixlowpanNextHeader::Uncompressed(ip_protocol(rng)) },
        length: match rng.below(4) {
            0 => 0,
            1 => 255,
            _ => rng.below(32) as u8,
        },
    }
}

/// The four port-compression classes of LOWPAN_NHC for UDP.
pub fn udp_nhc(rng: &mut Rng) -> (SixlowpanUdpNhcRepr, &'static str) {
    let p4 = |rng: &mut Rng| 0xf0b0 + rng.below(16) as u16;
    let p8 = |rng: &mut Rng| match rng.below(4) {
        0 => 0xf000,
        1 => 0xf0ff,
        _ => 0xf000 + rng.below(256) as u16,
    };
    let other = |rng: &mut Rng| loop {
        let p = u16b(rng);
        if !(0xf000..=0xf0ff).contains(&p) {
            break p;
        }
    };
    let (src_port, dst_port, class) = match rng.below(5) {
        0 => (p4(rng), p4(rng), "both4"),
        1 => (p8(rng), other(rng), "src8"),
        2 => (other(rng), p8(rng), "dst8"),
        3 => {
            // both in 0xf0xx but not both in the 4-bit range
            let mut sp = p8(rng);
            let dp = p8(rng);
            if (0xf0b0..=0xf0bf).contains(&sp) && (0xf0b0..=0xf0bf).contains(&dp) {
                sp = 0xf0a0 + (sp & 0x0f);
            }
            (sp, dp, "both8")
        }
        _ => (other(rng), other(rng), "inline"),
    };
    (SixlowpanUdpNhcRepr(UdpRepr { src_port, dst_port }), class)
}

/// Domain: the datagram size is an 11-bit field.
pub fn sixlowpan_frag(rng: &mut Rng) -> SixlowpanFragRepr {
    let size = match rng.below(5) {
        0 => 0,
        1 => 1,
        2 => 0x7ff,
        3 => 0x7fe,
        _ => rng.u16() & 0x7ff,
    };
    if rng.bool() {
        SixlowpanFragRepr::FirstFragment { size, tag: u16b(rng) }
    } else {
        SixlowpanFragRepr::Fragment { size, tag: u16b(rng), offset: u8b(rng) }
    }
}
