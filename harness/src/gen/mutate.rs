//! Generator (3) of C03: structured mutation of well-formed packets.
//!
//! `fields()` walks an IP packet with bounds checks only (it never trusts a
//! length it reads) and lists every length / count / offset / type field it can
//! locate; `mutate_ip()` sets one of them to {0, 1, max-1, max, actual+-1}, or
//! truncates / extends / splices; `repair()` recomputes the checksums of a
//! mutated packet (with the independent RFC 1071 code) so that the mutant is
//! not thrown away by the first checksum test.
use crate::gen::frames::{self, Item, View};
use crate::indep::{be16, cksum, put16, Addr};
use crate::sim::zoo::*;
use crate::util::rng::Rng;
use std::sync::OnceLock;

/// A bit field inside a big-endian window of `nbytes` bytes at `off`.
#[derive(Clone, Copy, Debug)]
pub struct Fld {
    pub off: usize,
    pub nbytes: u8,
    pub shift: u8,
    pub bits: u8,
    pub name: &'static str,
}

fn f8(off: usize, name: &'static str) -> Fld {
    Fld { off, nbytes: 1, shift: 0, bits: 8, name }
}
fn f16(off: usize, name: &'static str) -> Fld {
    Fld { off, nbytes: 2, shift: 0, bits: 16, name }
}
fn f32(off: usize, name: &'static str) -> Fld {
    Fld { off, nbytes: 4, shift: 0, bits: 32, name }
}
fn fb(off: usize, shift: u8, bits: u8, name: &'static str) -> Fld {
    Fld { off, nbytes: 1, shift, bits, name }
}

impl Fld {
    pub fn fits(&self, len: usize) -> bool {
        self.off + self.nbytes as usize <= len
    }
    pub fn max(&self) -> u64 {
        if self.bits >= 32 {
            0xffff_ffff
        } else {
            (1u64 << self.bits) - 1
        }
    }
    pub fn get(&self, b: &[u8]) -> u64 {
        let mut w = 0u64;
        for i in 0..self.nbytes as usize {
            w = (w << 8) | b[self.off + i] as u64;
        }
        (w >> self.shift) & self.max()
    }
    pub fn set(&self, b: &mut [u8], v: u64) {
        let mut w = 0u64;
        for i in 0..self.nbytes as usize {
            w = (w << 8) | b[self.off + i] as u64;
        }
        w &= !(self.max() << self.shift);
        w |= (v & self.max()) << self.shift;
        for i in (0..self.nbytes as usize).rev() {
            b[self.off + i] = w as u8;
            w >>= 8;
        }
    }
}

struct Walk<'a> {
    p: &'a [u8],
    out: Vec<Fld>,
    depth: u8,
}

impl<'a> Walk<'a> {
    fn push(&mut self, f: Fld) {
        if f.fits(self.p.len()) {
            self.out.push(f);
        }
    }
    fn byte(&self, o: usize) -> Option<u8> {
        self.p.get(o).copied()
    }

    fn ip(&mut self, o: usize) {
        if self.depth > 2 {
            return;
        }
        self.depth += 1;
        match self.byte(o).map(|b| b >> 4) {
            Some(4) => self.ipv4(o),
            Some(6) => self.ipv6(o),
            _ => {}
        }
        self.depth -= 1;
    }

    fn ipv4(&mut self, o: usize) {
        self.push(fb(o, 4, 4, "ipv4.version"));
        self.push(fb(o, 0, 4, "ipv4.ihl"));
        self.push(f16(o + 2, "ipv4.total_len"));
        self.push(f16(o + 4, "ipv4.ident"));
        self.push(fb(o + 6, 5, 3, "ipv4.flags"));
        self.push(Fld { off: o + 6, nbytes: 2, shift: 0, bits: 13, name: "ipv4.frag_offset" });
        self.push(f8(o + 8, "ipv4.ttl"));
        self.push(f8(o + 9, "ipv4.protocol"));
        self.push(f8(o + 12, "ipv4.src[0]"));
        self.push(f8(o + 16, "ipv4.dst[0]"));
        self.push(f8(o + 19, "ipv4.dst[3]"));
        let Some(b0) = self.byte(o) else { return };
        let hl = ((b0 & 0x0f) as usize * 4).max(20);
        // options
        let mut i = o + 20;
        let mut guard = 0;
        while i < o + hl && i < self.p.len() && guard < 12 {
            guard += 1;
            self.push(f8(i, "ipv4.option.kind"));
            let k = self.p[i];
            if k == 0 || k == 1 {
                i += 1;
                continue;
            }
            self.push(f8(i + 1, "ipv4.option.len"));
            let l = self.byte(i + 1).unwrap_or(2) as usize;
            self.push(f8(i + 2, "ipv4.option.pointer"));
            i += l.max(2);
        }
        let Some(proto) = self.byte(o + 9) else { return };
        let frag = self.p.len() >= o + 8 && be16(self.p, o + 6) & 0x1fff != 0;
        if !frag {
            self.transport(proto, o + hl);
        }
    }

    fn ipv6(&mut self, o: usize) {
        self.push(fb(o, 4, 4, "ipv6.version"));
        self.push(f16(o + 4, "ipv6.payload_len"));
        self.push(f8(o + 6, "ipv6.next_header"));
        self.push(f8(o + 7, "ipv6.hop_limit"));
        self.push(f8(o + 8, "ipv6.src[0]"));
        self.push(f8(o + 24, "ipv6.dst[0]"));
        self.push(f8(o + 39, "ipv6.dst[15]"));
        let Some(mut nh) = self.byte(o + 6) else { return };
        let mut i = o + 40;
        let mut guard = 0;
        while matches!(nh, 0 | 43 | 44 | 60) && guard < 6 {
            guard += 1;
            self.push(f8(i, "ipv6.ext.next_header"));
            self.push(f8(i + 1, "ipv6.ext.len"));
            let Some(next) = self.byte(i) else { return };
            let len = if nh == 44 { 8 } else { 8 * (self.byte(i + 1).unwrap_or(0) as usize + 1) };
            match nh {
                44 => {
                    self.push(Fld { off: i + 2, nbytes: 2, shift: 3, bits: 13, name: "ipv6.frag.offset" });
                    self.push(fb(i + 3, 0, 1, "ipv6.frag.more"));
                    self.push(f32(i + 4, "ipv6.frag.ident"));
                }
                43 => {
                    self.push(f8(i + 2, "ipv6.routing.type"));
                    self.push(f8(i + 3, "ipv6.routing.segments_left"));
                }
                _ => {
                    // option list
                    let mut j = i + 2;
                    let mut g2 = 0;
                    while j < i + len && j < self.p.len() && g2 < 12 {
                        g2 += 1;
                        self.push(f8(j, "ipv6.option.type"));
                        if self.p[j] == 0 {
                            j += 1;
                            continue;
                        }
                        self.push(f8(j + 1, "ipv6.option.len"));
                        j += 2 + self.byte(j + 1).unwrap_or(0) as usize;
                    }
                }
            }
            nh = next;
            i += len;
        }
        self.transport(nh, i);
    }

    fn transport(&mut self, proto: u8, o: usize) {
        match proto {
            17 => {
                self.push(f16(o, "udp.src_port"));
                self.push(f16(o + 2, "udp.dst_port"));
                self.push(f16(o + 4, "udp.len"));
                self.push(f16(o + 6, "udp.checksum"));
                if self.p.len() >= o + 4 {
                    let (sp, dp) = (be16(self.p, o), be16(self.p, o + 2));
                    if sp == 67 || dp == 67 || sp == 68 || dp == 68 {
                        self.dhcp(o + 8);
                    } else if sp == 53 || dp == 53 || sp == 5353 || dp == 5353 {
                        self.dns(o + 8);
                    }
                }
            }
            6 => self.tcp(o),
            1 => {
                self.push(f8(o, "icmp4.type"));
                self.push(f8(o + 1, "icmp4.code"));
                self.push(f16(o + 4, "icmp4.rest_hi"));
                self.push(f16(o + 6, "icmp4.rest_lo"));
                if matches!(self.byte(o), Some(3 | 4 | 5 | 11 | 12)) {
                    self.ip(o + 8);
                }
            }
            2 => {
                self.push(f8(o, "igmp.type"));
                self.push(f8(o + 1, "igmp.max_resp"));
                self.push(f32(o + 4, "igmp.group"));
            }
            58 => self.icmp6(o),
            _ => {}
        }
    }

    fn tcp(&mut self, o: usize) {
        self.push(f16(o, "tcp.src_port"));
        self.push(f16(o + 2, "tcp.dst_port"));
        self.push(f32(o + 4, "tcp.seq"));
        self.push(f32(o + 8, "tcp.ack"));
        self.push(fb(o + 12, 4, 4, "tcp.data_offset"));
        self.push(fb(o + 12, 0, 4, "tcp.reserved"));
        self.push(f8(o + 13, "tcp.flags"));
        self.push(f16(o + 14, "tcp.window"));
        self.push(f16(o + 18, "tcp.urgent"));
        let hl = (self.byte(o + 12).unwrap_or(0x50) >> 4) as usize * 4;
        let mut i = o + 20;
        let mut guard = 0;
        while i < o + hl && i < self.p.len() && guard < 16 {
            guard += 1;
            self.push(f8(i, "tcp.option.kind"));
            let k = self.p[i];
            if k == 0 || k == 1 {
                i += 1;
                continue;
            }
            self.push(f8(i + 1, "tcp.option.len"));
            match k {
                2 => self.push(f16(i + 2, "tcp.option.mss")),
                3 => self.push(f8(i + 2, "tcp.option.wscale")),
                5 => {
                    self.push(f32(i + 2, "tcp.option.sack_left"));
                    self.push(f32(i + 6, "tcp.option.sack_right"));
                }
                8 => {
                    self.push(f32(i + 2, "tcp.option.tsval"));
                    self.push(f32(i + 6, "tcp.option.tsecr"));
                }
                _ => {}
            }
            i += (self.byte(i + 1).unwrap_or(2) as usize).max(2);
        }
    }

    fn icmp6(&mut self, o: usize) {
        self.push(f8(o, "icmp6.type"));
        self.push(f8(o + 1, "icmp6.code"));
        self.push(f32(o + 4, "icmp6.rest"));
        let Some(ty) = self.byte(o) else { return };
        match ty {
            1..=4 => self.ip(o + 8),
            130 => {
                self.push(f16(o + 4, "mld.max_resp_code"));
                self.push(f8(o + 8, "mld.mcast_addr[0]"));
                self.push(f8(o + 23, "mld.mcast_addr[15]"));
                self.push(f8(o + 24, "mld.flags_qrv"));
                self.push(f8(o + 25, "mld.qqic"));
                self.push(f16(o + 26, "mld.num_sources"));
            }
            143 => {
                self.push(f16(o + 6, "mld.num_records"));
                self.push(f8(o + 8, "mld.record.type"));
                self.push(f8(o + 9, "mld.record.aux_len"));
                self.push(f16(o + 10, "mld.record.num_sources"));
            }
            133..=137 => {
                let fixed = match ty {
                    133 => 8,
                    134 => {
                        self.push(f8(o + 4, "ndisc.ra.hop_limit"));
                        self.push(f8(o + 5, "ndisc.ra.flags"));
                        self.push(f16(o + 6, "ndisc.ra.lifetime"));
                        16
                    }
                    137 => 40,
                    _ => {
                        self.push(f8(o + 4, "ndisc.flags"));
                        self.push(f8(o + 8, "ndisc.target[0]"));
                        24
                    }
                };
                let mut i = o + fixed;
                let mut guard = 0;
                while i < self.p.len() && guard < 10 {
                    guard += 1;
                    self.push(f8(i, "ndisc.option.type"));
                    self.push(f8(i + 1, "ndisc.option.len"));
                    let k = self.p[i];
                    match k {
                        3 => {
                            self.push(f8(i + 2, "ndisc.prefix.len"));
                            self.push(f8(i + 3, "ndisc.prefix.flags"));
                            self.push(f32(i + 4, "ndisc.prefix.valid"));
                            self.push(f32(i + 8, "ndisc.prefix.preferred"));
                        }
                        4 => self.ip(i + 8),
                        5 => self.push(f32(i + 4, "ndisc.mtu")),
                        _ => {}
                    }
                    let l = self.byte(i + 1).unwrap_or(1) as usize * 8;
                    i += l.max(8);
                }
            }
            _ => {
                self.push(f16(o + 4, "icmp6.ident"));
            }
        }
    }

    fn dhcp(&mut self, o: usize) {
        self.push(f8(o, "dhcp.op"));
        self.push(f8(o + 1, "dhcp.htype"));
        self.push(f8(o + 2, "dhcp.hlen"));
        self.push(f8(o + 3, "dhcp.hops"));
        self.push(f32(o + 4, "dhcp.xid"));
        self.push(f16(o + 10, "dhcp.flags"));
        self.push(f32(o + 16, "dhcp.yiaddr"));
        self.push(f32(o + 236, "dhcp.magic"));
        let mut i = o + 240;
        let mut guard = 0;
        while i < self.p.len() && guard < 24 {
            guard += 1;
            self.push(f8(i, "dhcp.option.kind"));
            let k = self.p[i];
            if k == 0 {
                i += 1;
                continue;
            }
            if k == 255 {
                break;
            }
            self.push(f8(i + 1, "dhcp.option.len"));
            self.push(f8(i + 2, "dhcp.option.value[0]"));
            let l = self.byte(i + 1).unwrap_or(0) as usize;
            if l >= 4 {
                self.push(f32(i + 2, "dhcp.option.value32"));
            }
            i += 2 + l;
        }
    }

    fn dns_name(&mut self, mut i: usize) -> usize {
        let mut guard = 0;
        while i < self.p.len() && guard < 20 {
            guard += 1;
            self.push(f8(i, "dns.label_len"));
            let l = self.p[i];
            if l == 0 {
                return i + 1;
            }
            if l & 0xc0 == 0xc0 {
                self.push(f8(i + 1, "dns.pointer_lo"));
                return i + 2;
            }
            i += 1 + (l & 0x3f) as usize;
        }
        i
    }

    fn dns(&mut self, o: usize) {
        self.push(f16(o, "dns.id"));
        self.push(f16(o + 2, "dns.flags"));
        self.push(f16(o + 4, "dns.qdcount"));
        self.push(f16(o + 6, "dns.ancount"));
        self.push(f16(o + 8, "dns.nscount"));
        self.push(f16(o + 10, "dns.arcount"));
        if self.p.len() < o + 12 {
            return;
        }
        let qd = be16(self.p, o + 4).min(2);
        let an = be16(self.p, o + 6).min(4);
        let mut i = o + 12;
        for _ in 0..qd {
            i = self.dns_name(i);
            self.push(f16(i, "dns.qtype"));
            self.push(f16(i + 2, "dns.qclass"));
            i += 4;
        }
        for _ in 0..an {
            i = self.dns_name(i);
            self.push(f16(i, "dns.rr.type"));
            self.push(f16(i + 2, "dns.rr.class"));
            self.push(f16(i + 8, "dns.rr.rdlength"));
            let rd = if self.p.len() >= i + 10 { be16(self.p, i + 8) as usize } else { 0 };
            self.push(f8(i + 10, "dns.rr.rdata[0]"));
            i += 10 + rd;
        }
    }
}

/// every length / count / offset / type field of the IP packet that can be located
pub fn fields(ip: &[u8]) -> Vec<Fld> {
    let mut w = Walk { p: ip, out: Vec::new(), depth: 0 };
    w.ip(0);
    w.out
}

fn hostile_value(rng: &mut Rng, f: &Fld, actual: u64) -> u64 {
    let max = f.max();
    match rng.below(8) {
        0 => 0,
        1 => 1,
        2 => max - 1,
        3 => max,
        4 => actual.wrapping_add(1) & max,
        5 => actual.wrapping_sub(1) & max,
        6 => (actual ^ (1 << rng.below(f.bits as u64))) & max,
        _ => rng.next_u64() & max,
    }
}

// ---------------------------------------------------------------- checksum repair

/// Recompute IPv4 header checksum and the checksum of the transport header the packet
/// claims to carry, whenever the claimed layout fits into the buffer.
pub fn repair(ip: &mut [u8]) {
    if ip.is_empty() {
        return;
    }
    match ip[0] >> 4 {
        4 => {
            if ip.len() < 20 {
                return;
            }
            let hl = (ip[0] & 0x0f) as usize * 4;
            if hl < 20 || hl > ip.len() {
                return;
            }
            put16(ip, 10, 0);
            let c = cksum::checksum(&[&ip[..hl]]);
            put16(ip, 10, c);
            let total = (be16(ip, 2) as usize).min(ip.len());
            if total < hl || be16(ip, 6) & 0x3fff != 0 {
                return;
            }
            let mut s = [0u8; 4];
            let mut d = [0u8; 4];
            s.copy_from_slice(&ip[12..16]);
            d.copy_from_slice(&ip[16..20]);
            let proto = ip[9];
            repair_transport(&Addr::V4(s), &Addr::V4(d), proto, &mut ip[hl..total]);
        }
        6 => {
            if ip.len() < 40 {
                return;
            }
            let end = (40 + be16(ip, 4) as usize).min(ip.len());
            let mut s = [0u8; 16];
            let mut d = [0u8; 16];
            s.copy_from_slice(&ip[8..24]);
            d.copy_from_slice(&ip[24..40]);
            // skip extension headers
            let mut nh = ip[6];
            let mut o = 40;
            let mut guard = 0;
            while matches!(nh, 0 | 43 | 60) && o + 2 <= end && guard < 6 {
                guard += 1;
                let next = ip[o];
                let l = 8 * (ip[o + 1] as usize + 1);
                nh = next;
                o += l;
            }
            if o <= end {
                repair_transport(&Addr::V6(s), &Addr::V6(d), nh, &mut ip[o..end]);
            }
        }
        _ => {}
    }
}

fn repair_transport(src: &Addr, dst: &Addr, proto: u8, seg: &mut [u8]) {
    match proto {
        17 if seg.len() >= 8 => {
            // the checksum covers the length the UDP header claims
            let l = (be16(seg, 4) as usize).clamp(8, seg.len());
            cksum::transport_fill(src, dst, 17, &mut seg[..l], 6);
        }
        6 if seg.len() >= 20 => cksum::transport_fill(src, dst, 6, seg, 16),
        1 if seg.len() >= 4 => {
            put16(seg, 2, 0);
            let c = cksum::checksum(&[seg]);
            put16(seg, 2, c);
        }
        2 if seg.len() >= 4 => {
            put16(seg, 2, 0);
            let c = cksum::checksum(&[seg]);
            put16(seg, 2, c);
        }
        58 if seg.len() >= 4 => cksum::transport_fill(src, dst, 58, seg, 2),
        _ => {}
    }
}

// ---------------------------------------------------------------- seeds

/// /repo/fuzz/corpus/*/* : Ethernet frames collected upstream (extra seeds; absent directory = none)
pub fn fuzz_seeds() -> &'static [(String, Vec<u8>)] {
    static C: OnceLock<Vec<(String, Vec<u8>)>> = OnceLock::new();
    C.get_or_init(|| {
        let mut out = Vec::new();
        let Ok(dirs) = std::fs::read_dir("/repo/fuzz/corpus") else { return out };
        let mut dirs: Vec<_> = dirs.flatten().map(|d| d.path()).collect();
        dirs.sort();
        for d in dirs {
            let Ok(files) = std::fs::read_dir(&d) else { continue };
            let mut files: Vec<_> = files.flatten().map(|f| f.path()).collect();
            files.sort();
            for f in files {
                if let Ok(b) = std::fs::read(&f) {
                    if b.len() <= 4096 {
                        out.push((f.file_name().map(|n| n.to_string_lossy().to_string()).unwrap_or_default(), b));
                    }
                }
            }
        }
        out
    })
}

/// Point an Ethernet frame of foreign origin at our interface: destination MAC/IP = ours,
/// source = peer A (so that it passes the address filters), checksums repaired.
pub fn retarget_eth(v: &View, frame: &[u8]) -> Option<Vec<u8>> {
    if frame.len() < 14 {
        return None;
    }
    let et = be16(frame, 12);
    let mut ip = frame[14..].to_vec();
    match et {
        0x0800 if ip.len() >= 20 => {
            let o = frames::our4(v)?;
            ip[12..16].copy_from_slice(&PEER_A.v4.octets());
            ip[16..20].copy_from_slice(&o);
            repair(&mut ip);
            Some(ip)
        }
        0x86dd if ip.len() >= 40 => {
            let o = v.cfg.v6().first().copied()?;
            ip[8..24].copy_from_slice(&v.cfg.peer6_for(&PEER_A, o).octets());
            // keep a solicited-node / multicast destination, replace a unicast one
            if ip[24] != 0xff {
                ip[24..40].copy_from_slice(&o.octets());
            } else if ip[24..37] == [0xff, 2, 0, 0, 0, 0, 0, 0, 0, 0, 0, 1, 0xff] {
                ip[37..40].copy_from_slice(&o.octets()[13..16]);
                // the solicited target follows the ICMPv6 header
                if ip.len() >= 72 && ip[6] == 58 && ip[40] == 135 {
                    ip[48..64].copy_from_slice(&o.octets());
                }
            }
            repair(&mut ip);
            Some(ip)
        }
        _ => None,
    }
}

// ---------------------------------------------------------------- generator (3)

/// What was done to the packet (evidence label)
pub struct Mutant {
    pub item: Item,
    pub how: &'static str,
    pub field: &'static str,
    pub repaired: bool,
}

/// a well-formed base for mutation: generator (2), the hostile option lists / DNS names, or an upstream seed
fn base(v: &View, rng: &mut Rng) -> Item {
    match rng.below(10) {
        0 => {
            // hostile option lists in their containers (addressed A -> B)
            let ws = crate::gen::hostile::option_random(rng);
            let cands: Vec<&Vec<u8>> = ws.iter().filter(|w| !w.is_empty() && (w[0] == 0x45 || w[0] >> 4 == 6) && w.len() >= 20).collect();
            if !cands.is_empty() {
                let ip = (*rng.pick(&cands)).clone();
                if !(v.cfg.med == Med::Lowpan && ip[0] == 0x45) {
                    return frames::item(v, rng, "hostile-options", PEER_A, ip);
                }
            }
            frames::valid(v, rng)
        }
        1 => {
            let seeds = fuzz_seeds();
            if !seeds.is_empty() {
                let (_, f) = &seeds[rng.usize_below(seeds.len())];
                if let Some(ip) = retarget_eth(v, f) {
                    if !(v.cfg.med == Med::Lowpan && ip[0] >> 4 == 4) {
                        return frames::item(v, rng, "upstream-seed", PEER_A, ip);
                    }
                }
                if v.cfg.med == Med::Eth {
                    let mut g = f.clone();
                    if g.len() >= 6 {
                        g[0..6].copy_from_slice(OUR_MAC.as_bytes());
                    }
                    return Item { proto: "upstream-seed", peer: PEER_A, ip: None, frames: vec![g], train: false };
                }
            }
            frames::valid(v, rng)
        }
        _ => frames::valid(v, rng),
    }
}

pub fn mutant(v: &View, rng: &mut Rng) -> Mutant {
    let b = base(v, rng);
    let proto = b.proto;
    // link-level mutation for bare link frames, and sometimes for wrapped IP packets too
    if b.ip.is_none() || rng.chance(1, 5) {
        let mut frames_ = b.frames.clone();
        if frames_.is_empty() {
            frames_.push(vec![]);
        }
        let k = rng.usize_below(frames_.len());
        let how = mutate_link(v, rng, &mut frames_[k], &b);
        return Mutant { item: Item { proto, peer: b.peer, ip: None, frames: frames_, train: b.train }, how, field: "link", repaired: false };
    }
    let mut ip = b.ip.clone().unwrap();
    if v.cfg.med == Med::Lowpan && rng.chance(1, 3) {
        // the IPv6 packet stays well-formed; one length / offset field of the adaptation layer is hostile
        let it = frames::item_hostile_link(v, rng, proto, b.peer, ip);
        if !it.frames.is_empty() {
            return Mutant { item: it, how: "6lowpan-field", field: "6lowpan", repaired: false };
        }
        ip = b.ip.clone().unwrap();
    }
    let (how, field) = mutate_ip(v, rng, &mut ip);
    let repaired = rng.bool();
    if repaired {
        repair(&mut ip);
    }
    let mut it = frames::item(v, rng, proto, b.peer, ip);
    if it.frames.is_empty() {
        // not presentable on this medium any more (IPv6 version nibble destroyed on 6LoWPAN): send the bytes raw
        it.frames = vec![frames::lowpan_raw_frame(v.cfg, &b.peer, it.ip.as_deref().unwrap_or(&[]))];
    }
    Mutant { item: it, how, field, repaired }
}

pub fn mutate_ip(v: &View, rng: &mut Rng, ip: &mut Vec<u8>) -> (&'static str, &'static str) {
    match rng.below(12) {
        0 | 1 => {
            // truncation at any byte
            let cut = rng.urange(0, ip.len());
            ip.truncate(cut);
            ("truncate", "-")
        }
        2 => {
            let n = rng.urange(1, 40);
            let extra = rng.bytes(n);
            ip.extend_from_slice(&extra);
            ("extend", "-")
        }
        3 => {
            // splice: head of this packet, tail of another well-formed one
            let other = frames::valid(v, rng);
            if let Some(o) = other.ip {
                let a = rng.urange(0, ip.len());
                let b = rng.urange(0, o.len());
                ip.truncate(a);
                ip.extend_from_slice(&o[b..]);
            }
            ("splice", "-")
        }
        4 => {
            if !ip.is_empty() {
                let i = rng.usize_below(ip.len());
                ip[i] = rng.u8();
            }
            ("random-byte", "-")
        }
        _ => {
            let fs = fields(ip);
            if fs.is_empty() {
                return ("none", "-");
            }
            let n = if rng.chance(1, 5) { 2 } else { 1 };
            let mut name = "-";
            for _ in 0..n {
                let f = *rng.pick(&fs);
                let actual = f.get(ip);
                let val = hostile_value(rng, &f, actual);
                f.set(ip, val);
                name = f.name;
            }
            ("field", name)
        }
    }
}

fn mutate_link(v: &View, rng: &mut Rng, f: &mut Vec<u8>, base: &Item) -> &'static str {
    match rng.below(8) {
        0 => {
            let cut = rng.urange(0, f.len());
            f.truncate(cut);
            "link-truncate"
        }
        1 => {
            let n = rng.urange(1, 40);
            let extra = rng.bytes(n);
            f.extend_from_slice(&extra);
            "link-extend"
        }
        2 => {
            let other = frames::valid(v, rng);
            if let Some(o) = other.frames.first() {
                let a = rng.urange(0, f.len());
                let b = rng.urange(0, o.len());
                f.truncate(a);
                f.extend_from_slice(&o[b..]);
            }
            "link-splice"
        }
        _ => {
            // every byte of the link / adaptation headers is a type, mode, length or offset field
            let span = match v.cfg.med {
                Med::Eth => 14 + 28,
                Med::Ip => 40,
                Med::Lowpan => 48,
            };
            let _ = base;
            if f.is_empty() {
                return "link-field";
            }
            let i = rng.usize_below(f.len().min(span));
            let x = f[i];
            f[i] = match rng.below(8) {
                0 => 0,
                1 => 1,
                2 => 0xfe,
                3 => 0xff,
                4 => x.wrapping_add(1),
                5 => x.wrapping_sub(1),
                6 => x ^ (1 << rng.below(8)),
                _ => rng.u8(),
            };
            "link-field"
        }
    }
}
