//! A corpus of WELL-FORMED packets of every wire type.
//!
//! Wherever smoltcp has an emitter (`Repr::emit`) the packet is built with it;
//! the few shapes no emitter can produce (DNS responses, IPv4 options, 802.15.4
//! auxiliary security headers, IPHC traffic-class / context forms, ...) are
//! assembled by hand from the RFC layouts.  Every entry names the view type
//! (`layer`) it is a well-formed instance of; monitor C07 checks as a harness
//! self-test that this view accepts it.
use smoltcp::phy::ChecksumCapabilities;
use smoltcp::time::Duration;
use smoltcp::wire::*;
use std::sync::OnceLock;

pub struct Pkt {
    pub name: &'static str,
    /// the view type this is a well-formed instance of
    pub layer: &'static str,
    pub bytes: Vec<u8>,
}

pub const MAC_A: EthernetAddress = EthernetAddress([0x02, 0x00, 0x00, 0x00, 0x00, 0x01]);
pub const MAC_B: EthernetAddress = EthernetAddress([0x02, 0x00, 0x00, 0x00, 0x00, 0x02]);
pub const V4A: Ipv4Address = Ipv4Address::new(192, 168, 1, 1);
pub const V4B: Ipv4Address = Ipv4Address::new(192, 168, 1, 2);
pub const V4M: Ipv4Address = Ipv4Address::new(224, 0, 0, 251);
pub const V6A: Ipv6Address = Ipv6Address::new(0xfe80, 0, 0, 0, 0, 0, 0, 1);
pub const V6B: Ipv6Address = Ipv6Address::new(0xfe80, 0, 0, 0, 0, 0, 0, 2);
pub const V6G: Ipv6Address = Ipv6Address::new(0x2001, 0xdb8, 0, 0, 0, 0, 0, 1);
pub const V6H: Ipv6Address = Ipv6Address::new(0x2001, 0xdb8, 0, 0, 0, 0, 0, 2);
pub const V6M: Ipv6Address = Ipv6Address::new(0xff02, 0, 0, 0, 0, 0, 0, 1);
pub const LL_EXT_A: [u8; 8] = [0x02, 0x11, 0x22, 0x33, 0x44, 0x55, 0x66, 0x77];
pub const LL_EXT_B: [u8; 8] = [0x02, 0x88, 0x99, 0xaa, 0xbb, 0xcc, 0xdd, 0xee];

fn caps() -> ChecksumCapabilities {
    ChecksumCapabilities::default()
}

fn payload(n: usize) -> Vec<u8> {
    (0..n).map(|i| (i as u8).wrapping_mul(7).wrapping_add(0x41)).collect()
}

// ---------------------------------------------------------------- link / network

pub fn eth(ty: EthernetProtocol, inner: &[u8]) -> Vec<u8> {
    let repr = EthernetRepr { src_addr: MAC_A, dst_addr: MAC_B, ethertype: ty };
    let mut buf = vec![0u8; repr.buffer_len() + inner.len()];
    let mut f = EthernetFrame::new_unchecked(&mut buf[..]);
    repr.emit(&mut f);
    f.payload_mut().copy_from_slice(inner);
    buf
}

pub fn arp(op: ArpOperation) -> Vec<u8> {
    let repr = ArpRepr::EthernetIpv4 {
        operation: op,
        source_hardware_addr: MAC_A,
        source_protocol_addr: V4A,
        target_hardware_addr: MAC_B,
        target_protocol_addr: V4B,
    };
    let mut buf = vec![0u8; repr.buffer_len()];
    repr.emit(&mut ArpPacket::new_unchecked(&mut buf[..]));
    buf
}

pub fn ipv4(proto: IpProtocol, inner: &[u8]) -> Vec<u8> {
    let repr = Ipv4Repr { src_addr: V4A, dst_addr: V4B, next_header: proto, payload_len: inner.len(), hop_limit: 64 };
    let mut buf = vec![0u8; repr.buffer_len() + inner.len()];
    let mut p = Ipv4Packet::new_unchecked(&mut buf[..]);
    repr.emit(&mut p, &caps());
    p.payload_mut().copy_from_slice(inner);
    buf
}

/// IPv4 with a 4-byte option area (IHL = 6) and optional fragmentation fields; no emitter does this.
pub fn ipv4_raw(proto: IpProtocol, options: &[u8], more_frags: bool, frag_offset: u16, inner: &[u8]) -> Vec<u8> {
    assert!(options.len() % 4 == 0);
    let hl = 20 + options.len();
    let mut buf = vec![0u8; hl + inner.len()];
    buf[hl..].copy_from_slice(inner);
    buf[20..hl].copy_from_slice(options);
    let mut p = Ipv4Packet::new_unchecked(&mut buf[..]);
    p.set_version(4);
    p.set_header_len(hl as u8);
    p.set_dscp(10);
    p.set_ecn(1);
    p.set_total_len((hl + inner.len()) as u16);
    p.set_ident(0x4242);
    p.clear_flags();
    p.set_more_frags(more_frags);
    p.set_dont_frag(false);
    p.set_frag_offset(frag_offset);
    p.set_hop_limit(3);
    p.set_next_header(proto);
    p.set_src_addr(V4A);
    p.set_dst_addr(V4B);
    p.fill_checksum();
    buf
}

pub fn ipv6(src: Ipv6Address, dst: Ipv6Address, nh: IpProtocol, inner: &[u8]) -> Vec<u8> {
    let repr = Ipv6Repr { src_addr: src, dst_addr: dst, next_header: nh, payload_len: inner.len(), hop_limit: 255 };
    let mut buf = vec![0u8; repr.buffer_len() + inner.len()];
    let mut p = Ipv6Packet::new_unchecked(&mut buf[..]);
    repr.emit(&mut p);
    p.payload_mut().copy_from_slice(inner);
    buf
}

// ---------------------------------------------------------------- transport

pub fn udp(src: IpAddress, dst: IpAddress, sp: u16, dp: u16, inner: &[u8]) -> Vec<u8> {
    let repr = UdpRepr { src_port: sp, dst_port: dp };
    let mut buf = vec![0u8; repr.header_len() + inner.len()];
    let mut p = UdpPacket::new_unchecked(&mut buf[..]);
    repr.emit(&mut p, &src, &dst, inner.len(), |b| b.copy_from_slice(inner), &caps());
    buf
}

pub fn tcp(src: IpAddress, dst: IpAddress, repr: &TcpRepr) -> Vec<u8> {
    let mut buf = vec![0u8; repr.buffer_len()];
    let mut p = TcpPacket::new_unchecked(&mut buf[..]);
    repr.emit(&mut p, &src, &dst, &caps());
    buf
}

fn tcp_base<'a>(control: TcpControl, data: &'a [u8]) -> TcpRepr<'a> {
    TcpRepr {
        src_port: 49152,
        dst_port: 80,
        control,
        seq_number: TcpSeqNumber(0x0123_4567),
        ack_number: None,
        window_len: 4096,
        window_scale: None,
        max_seg_size: None,
        sack_permitted: false,
        sack_ranges: [None, None, None],
        timestamp: None,
        payload: data,
    }
}

/// TCP header with a hand-written option area (kinds no emitter produces); checksum filled by smoltcp.
pub fn tcp_with_options(src: IpAddress, dst: IpAddress, options: &[u8], data: &[u8]) -> Vec<u8> {
    let olen = (options.len() + 3) / 4 * 4;
    let hl = 20 + olen;
    let mut buf = vec![0u8; hl + data.len()];
    buf[20..20 + options.len()].copy_from_slice(options);
    buf[hl..].copy_from_slice(data);
    let mut p = TcpPacket::new_unchecked(&mut buf[..]);
    p.set_src_port(49152);
    p.set_dst_port(80);
    p.set_seq_number(TcpSeqNumber(1));
    p.set_ack_number(TcpSeqNumber(2));
    p.set_header_len(hl as u8);
    p.clear_flags();
    p.set_ack(true);
    p.set_psh(true);
    p.set_window_len(1000);
    p.set_urgent_at(0);
    p.fill_checksum(&src, &dst);
    buf
}

// ---------------------------------------------------------------- ICMP / IGMP

pub fn icmpv4(repr: &Icmpv4Repr) -> Vec<u8> {
    let mut buf = vec![0u8; repr.buffer_len()];
    let mut p = Icmpv4Packet::new_unchecked(&mut buf[..]);
    repr.emit(&mut p, &caps());
    buf
}

pub fn icmpv6(src: Ipv6Address, dst: Ipv6Address, repr: &Icmpv6Repr) -> Vec<u8> {
    let mut buf = vec![0u8; repr.buffer_len()];
    let mut p = Icmpv6Packet::new_unchecked(&mut buf[..]);
    repr.emit(&src, &dst, &mut p, &caps());
    buf
}

pub fn igmp(repr: &IgmpRepr) -> Vec<u8> {
    let mut buf = vec![0u8; repr.buffer_len()];
    let mut p = IgmpPacket::new_unchecked(&mut buf[..]);
    repr.emit(&mut p);
    buf
}

fn raw_mac(m: &EthernetAddress) -> RawHardwareAddress {
    RawHardwareAddress::from_bytes(m.as_bytes())
}

pub fn mld_record(ty: MldRecordType, group: Ipv6Address, sources: &[Ipv6Address]) -> Vec<u8> {
    let mut repr = MldAddressRecordRepr::new(ty, group);
    repr.num_srcs = sources.len() as u16;
    let mut buf = vec![0u8; repr.buffer_len() + 16 * sources.len()];
    repr.emit(&mut MldAddressRecord::new_unchecked(&mut buf[..]));
    for (i, s) in sources.iter().enumerate() {
        buf[20 + 16 * i..36 + 16 * i].copy_from_slice(&s.octets());
    }
    buf
}

// ---------------------------------------------------------------- IPv6 extension headers / options

pub fn ipv6_option(repr: &Ipv6OptionRepr) -> Vec<u8> {
    let mut buf = vec![0u8; repr.buffer_len()];
    repr.emit(&mut Ipv6Option::new_unchecked(&mut buf[..]));
    buf
}

/// [next header, hdr ext len, payload...]; `body` must make the total a multiple of 8.
pub fn ipv6_ext(nh: IpProtocol, body: &[u8]) -> Vec<u8> {
    assert!((body.len() + 2) % 8 == 0);
    let length = ((body.len() + 2) / 8 - 1) as u8;
    let mut buf = vec![0u8; body.len() + 2];
    {
        let mut h = Ipv6ExtHeader::new_unchecked(&mut buf[..]);
        Ipv6ExtHeaderRepr { next_header: nh, length, data: body }.emit(&mut h);
        h.payload_mut().copy_from_slice(body);
    }
    buf
}

pub fn hbh_body(repr: &Ipv6HopByHopRepr) -> Vec<u8> {
    let mut buf = vec![0u8; repr.buffer_len()];
    repr.emit(&mut Ipv6HopByHopHeader::new_unchecked(&mut buf[..]));
    buf
}

pub fn frag_body(repr: &Ipv6FragmentRepr) -> Vec<u8> {
    let mut buf = vec![0u8; repr.buffer_len()];
    repr.emit(&mut Ipv6FragmentHeader::new_unchecked(&mut buf[..]));
    buf
}

pub fn routing_body(repr: &Ipv6RoutingRepr) -> Vec<u8> {
    let mut buf = vec![0u8; repr.buffer_len()];
    repr.emit(&mut Ipv6RoutingHeader::new_unchecked(&mut buf[..]));
    buf
}

pub fn ndisc_option(repr: &NdiscOptionRepr) -> Vec<u8> {
    let mut buf = vec![0u8; repr.buffer_len()];
    repr.emit(&mut NdiscOption::new_unchecked(&mut buf[..]));
    buf
}

// ---------------------------------------------------------------- DHCP / DNS

pub fn dhcp(repr: &DhcpRepr) -> Vec<u8> {
    let mut buf = vec![0u8; repr.buffer_len()];
    let mut p = DhcpPacket::new_unchecked(&mut buf[..]);
    repr.emit(&mut p).expect("dhcp emit");
    buf
}

fn dhcp_base(mt: DhcpMessageType) -> DhcpRepr<'static> {
    DhcpRepr {
        message_type: mt,
        transaction_id: 0x1234_5678,
        secs: 3,
        client_hardware_address: MAC_A,
        client_ip: Ipv4Address::UNSPECIFIED,
        your_ip: Ipv4Address::UNSPECIFIED,
        server_ip: Ipv4Address::UNSPECIFIED,
        router: None,
        subnet_mask: None,
        relay_agent_ip: Ipv4Address::UNSPECIFIED,
        broadcast: false,
        requested_ip: None,
        client_identifier: None,
        server_identifier: None,
        parameter_request_list: None,
        dns_servers: None,
        max_size: None,
        lease_duration: None,
        renew_duration: None,
        rebind_duration: None,
        additional_options: &[],
    }
}

pub const NAME_EXAMPLE: &[u8] = b"\x03www\x07example\x03com\x00";

pub fn dns_query(ty: DnsQueryType) -> Vec<u8> {
    let repr = DnsRepr {
        transaction_id: 0xbeef,
        opcode: DnsOpcode::Query,
        flags: DnsFlags::RECURSION_DESIRED,
        question: DnsQuestion { name: NAME_EXAMPLE, type_: ty },
    };
    let mut buf = vec![0u8; repr.buffer_len()];
    repr.emit(&mut DnsPacket::new_unchecked(&mut buf[..]));
    buf
}

/// One resource record: name bytes, type, class IN, ttl, rdata.
pub fn dns_rr(name: &[u8], ty: u16, rdata: &[u8]) -> Vec<u8> {
    let mut v = name.to_vec();
    v.extend_from_slice(&ty.to_be_bytes());
    v.extend_from_slice(&1u16.to_be_bytes());
    v.extend_from_slice(&300u32.to_be_bytes());
    v.extend_from_slice(&(rdata.len() as u16).to_be_bytes());
    v.extend_from_slice(rdata);
    v
}

/// DNS response (smoltcp has no emitter for responses): question www.example.com,
/// answers CNAME/A/AAAA using compression pointers into the question.
pub fn dns_response() -> Vec<u8> {
    let mut v = Vec::new();
    v.extend_from_slice(&0xbeefu16.to_be_bytes());
    v.extend_from_slice(&0x8180u16.to_be_bytes());
    v.extend_from_slice(&1u16.to_be_bytes()); // qd
    v.extend_from_slice(&3u16.to_be_bytes()); // an
    v.extend_from_slice(&1u16.to_be_bytes()); // ns
    v.extend_from_slice(&0u16.to_be_bytes()); // ar
    // question at offset 12: 3www 7example 3com 0  -> "example.com" starts at 16
    v.extend_from_slice(NAME_EXAMPLE);
    v.extend_from_slice(&1u16.to_be_bytes());
    v.extend_from_slice(&1u16.to_be_bytes());
    // CNAME: www.example.com -> host.example.com (pointer to offset 16 inside the rdata)
    let cname_rr_start = v.len();
    v.extend_from_slice(&dns_rr(&[0xc0, 12], 5, b"\x04host\xc0\x10"));
    // the CNAME target starts 12 bytes into the record (2 name + 10 fixed)
    let target = (cname_rr_start + 12) as u16;
    let ptr = [0xc0 | (target >> 8) as u8, target as u8];
    v.extend_from_slice(&dns_rr(&ptr, 1, &[93, 184, 216, 34]));
    v.extend_from_slice(&dns_rr(&ptr, 28, &V6G.octets()));
    // authority: NS record with an uncompressed owner name
    v.extend_from_slice(&dns_rr(b"\x07example\x03com\x00", 2, b"\x02ns\xc0\x10"));
    v
}

// ---------------------------------------------------------------- IEEE 802.15.4 / 6LoWPAN

pub fn ieee_emit(repr: &Ieee802154Repr, inner: &[u8]) -> Vec<u8> {
    let mut buf = vec![0u8; repr.buffer_len() + inner.len()];
    let mut f = Ieee802154Frame::new_unchecked(&mut buf[..]);
    repr.emit(&mut f);
    if let Some(p) = f.payload_mut() {
        let n = p.len().min(inner.len());
        p[..n].copy_from_slice(&inner[..n]);
    }
    buf
}

/// Frame-control word of IEEE 802.15.4.
pub fn fc154(ftype: u8, security: bool, pan_compr: bool, dst_mode: u8, version: u8, src_mode: u8) -> u16 {
    (ftype as u16 & 7)
        | (security as u16) << 3
        | 1 << 5 // ack request
        | (pan_compr as u16) << 6
        | (dst_mode as u16 & 3) << 10
        | (version as u16 & 3) << 12
        | (src_mode as u16 & 3) << 14
}

/// Hand-assembled frame: frame control, sequence number, addressing fields, aux security header, payload.
pub fn ieee_raw(fc: u16, addressing: &[u8], aux: &[u8], inner: &[u8]) -> Vec<u8> {
    let mut v = fc.to_le_bytes().to_vec();
    v.push(0x2a);
    v.extend_from_slice(addressing);
    v.extend_from_slice(aux);
    v.extend_from_slice(inner);
    v
}

pub fn iphc_emit(repr: &SixlowpanIphcRepr, inner: &[u8]) -> Vec<u8> {
    let hl = repr.buffer_len();
    let mut buf = vec![0u8; hl + inner.len()];
    repr.emit(&mut SixlowpanIphcPacket::new_unchecked(&mut buf[..]));
    buf[hl..].copy_from_slice(inner);
    buf
}

/// Hand-assembled IPHC base header + inline fields (traffic class / context forms the emitter never uses).
#[allow(clippy::too_many_arguments)]
pub fn iphc_raw(tf: u8, nh: u8, hlim: u8, cid: u8, sac: u8, sam: u8, m: u8, dac: u8, dam: u8, inline: &[u8]) -> Vec<u8> {
    let w: u16 = 0b011 << 13
        | (tf as u16 & 3) << 11
        | (nh as u16 & 1) << 10
        | (hlim as u16 & 3) << 8
        | (cid as u16 & 1) << 7
        | (sac as u16 & 1) << 6
        | (sam as u16 & 3) << 4
        | (m as u16 & 1) << 3
        | (dac as u16 & 1) << 2
        | (dam as u16 & 3);
    let mut v = w.to_be_bytes().to_vec();
    v.extend_from_slice(inline);
    v
}

pub fn nhc_ext(repr: &SixlowpanExtHeaderRepr, body: &[u8]) -> Vec<u8> {
    let hl = repr.buffer_len();
    let mut buf = vec![0u8; hl + body.len()];
    repr.emit(&mut SixlowpanExtHeaderPacket::new_unchecked(&mut buf[..]));
    buf[hl..].copy_from_slice(body);
    buf
}

pub fn nhc_udp(sp: u16, dp: u16, inner: &[u8]) -> Vec<u8> {
    let repr = SixlowpanUdpNhcRepr(UdpRepr { src_port: sp, dst_port: dp });
    let mut buf = vec![0u8; repr.header_len() + inner.len()];
    let mut p = SixlowpanUdpNhcPacket::new_unchecked(&mut buf[..]);
    repr.emit(&mut p, &V6A, &V6B, inner.len(), |b| b.copy_from_slice(inner), &caps());
    buf
}

pub fn sixlowpan_frag(repr: &SixlowpanFragRepr, inner: &[u8]) -> Vec<u8> {
    let hl = repr.buffer_len();
    let mut buf = vec![0u8; hl + inner.len()];
    repr.emit(&mut SixlowpanFragPacket::new_unchecked(&mut buf[..]));
    buf[hl..].copy_from_slice(inner);
    buf
}

// ---------------------------------------------------------------- the corpus

fn build() -> Vec<Pkt> {
    let mut c: Vec<Pkt> = Vec::new();
    let mut add = |name: &'static str, layer: &'static str, bytes: Vec<u8>| c.push(Pkt { name, layer, bytes });
    let a4: IpAddress = V4A.into();
    let b4: IpAddress = V4B.into();
    let a6: IpAddress = V6A.into();
    let b6: IpAddress = V6B.into();
    let data = payload(24);

    // --- ARP
    let arp_req = arp(ArpOperation::Request);
    add("arp-request", "ArpPacket", arp_req.clone());
    add("arp-reply", "ArpPacket", arp(ArpOperation::Reply));
    add("eth/arp-request", "EthernetFrame", eth(EthernetProtocol::Arp, &arp_req));

    // --- UDP
    let udp4 = udp(a4, b4, 5353, 53, &data);
    let udp6 = udp(a6, b6, 5353, 53, &data);
    add("udp4", "UdpPacket", udp4.clone());
    add("udp6", "UdpPacket", udp6.clone());
    add("udp4-empty", "UdpPacket", udp(a4, b4, 1, 2, &[]));
    add("ipv4/udp", "Ipv4Packet", ipv4(IpProtocol::Udp, &udp4));
    add("eth/ipv4/udp", "EthernetFrame", eth(EthernetProtocol::Ipv4, &ipv4(IpProtocol::Udp, &udp4)));
    add("ipv6/udp", "Ipv6Packet", ipv6(V6A, V6B, IpProtocol::Udp, &udp6));
    add("eth/ipv6/udp", "EthernetFrame", eth(EthernetProtocol::Ipv6, &ipv6(V6A, V6B, IpProtocol::Udp, &udp6)));

    // --- TCP
    let mut syn = tcp_base(TcpControl::Syn, &[]);
    syn.max_seg_size = Some(1460);
    syn.window_scale = Some(7);
    syn.sack_permitted = true;
    syn.timestamp = Some(TcpTimestampRepr::new(0x1111_2222, 0));
    let tcp_syn = tcp(a4, b4, &syn);
    add("tcp-syn-options", "TcpPacket", tcp_syn.clone());
    let mut ack = tcp_base(TcpControl::Psh, &data);
    ack.ack_number = Some(TcpSeqNumber(77));
    ack.sack_ranges = [Some((100, 200)), Some((300, 400)), Some((500, 600))];
    ack.timestamp = Some(TcpTimestampRepr::new(5, 6));
    add("tcp-ack-sack3", "TcpPacket", tcp(a4, b4, &ack));
    ack.sack_ranges = [Some((100, 200)), None, None];
    ack.timestamp = None;
    let tcp_ack6 = tcp(a6, b6, &ack);
    add("tcp6-ack-sack1", "TcpPacket", tcp_ack6.clone());
    add("tcp-fin", "TcpPacket", tcp(a4, b4, &tcp_base(TcpControl::Fin, &[])));
    add("tcp-rst", "TcpPacket", tcp(a4, b4, &tcp_base(TcpControl::Rst, &[])));
    // unknown option kind 254 (len 4), NOPs, end-of-list
    add("tcp-unknown-option", "TcpPacket", tcp_with_options(a4, b4, &[1, 1, 254, 4, 0xaa, 0xbb, 0, 0], &data));
    add("ipv4/tcp-syn", "Ipv4Packet", ipv4(IpProtocol::Tcp, &tcp_syn));
    add("eth/ipv4/tcp-syn", "EthernetFrame", eth(EthernetProtocol::Ipv4, &ipv4(IpProtocol::Tcp, &tcp_syn)));
    add("eth/ipv6/tcp-ack", "EthernetFrame", eth(EthernetProtocol::Ipv6, &ipv6(V6A, V6B, IpProtocol::Tcp, &tcp_ack6)));

    // --- IPv4 specials
    add("ipv4-options/udp", "Ipv4Packet", ipv4_raw(IpProtocol::Udp, &[1, 1, 1, 0], false, 0, &udp4));
    add("ipv4-first-fragment", "Ipv4Packet", ipv4_raw(IpProtocol::Udp, &[], true, 0, &udp4[..16]));
    add("ipv4-last-fragment", "Ipv4Packet", ipv4_raw(IpProtocol::Udp, &[], false, 16, &udp4[16..]));

    // --- ICMPv4
    let echo4 = icmpv4(&Icmpv4Repr::EchoRequest { ident: 0x1234, seq_no: 7, data: &data });
    add("icmpv4-echo-request", "Icmpv4Packet", echo4.clone());
    add("icmpv4-echo-reply", "Icmpv4Packet", icmpv4(&Icmpv4Repr::EchoReply { ident: 0x1234, seq_no: 7, data: &data }));
    let inner_hdr = Ipv4Repr { src_addr: V4B, dst_addr: V4A, next_header: IpProtocol::Udp, payload_len: 8, hop_limit: 1 };
    let unreach4 = icmpv4(&Icmpv4Repr::DstUnreachable { reason: Icmpv4DstUnreachable::PortUnreachable, header: inner_hdr, data: &udp4[..8] });
    add("icmpv4-dst-unreachable", "Icmpv4Packet", unreach4.clone());
    add("icmpv4-time-exceeded", "Icmpv4Packet", icmpv4(&Icmpv4Repr::TimeExceeded { reason: Icmpv4TimeExceeded::TtlExpired, header: inner_hdr, data: &udp4[..8] }));
    add("eth/ipv4/icmp-echo", "EthernetFrame", eth(EthernetProtocol::Ipv4, &ipv4(IpProtocol::Icmp, &echo4)));
    add("eth/ipv4/icmp-unreachable", "EthernetFrame", eth(EthernetProtocol::Ipv4, &ipv4(IpProtocol::Icmp, &unreach4)));

    // --- IGMP
    let igmp_q = igmp(&IgmpRepr::MembershipQuery { max_resp_time: Duration::from_millis(2500), group_addr: V4M, version: IgmpVersion::Version2 });
    add("igmp-query-v2", "IgmpPacket", igmp_q.clone());
    add("igmp-query-v1", "IgmpPacket", igmp(&IgmpRepr::MembershipQuery { max_resp_time: Duration::ZERO, group_addr: Ipv4Address::UNSPECIFIED, version: IgmpVersion::Version1 }));
    add("igmp-report-v2", "IgmpPacket", igmp(&IgmpRepr::MembershipReport { group_addr: V4M, version: IgmpVersion::Version2 }));
    add("igmp-report-v1", "IgmpPacket", igmp(&IgmpRepr::MembershipReport { group_addr: V4M, version: IgmpVersion::Version1 }));
    add("igmp-leave", "IgmpPacket", igmp(&IgmpRepr::LeaveGroup { group_addr: V4M }));
    add("eth/ipv4/igmp", "EthernetFrame", eth(EthernetProtocol::Ipv4, &ipv4(IpProtocol::Igmp, &igmp_q)));

    // --- ICMPv6 plain
    let echo6 = icmpv6(V6A, V6B, &Icmpv6Repr::EchoRequest { ident: 9, seq_no: 10, data: &data });
    add("icmpv6-echo-request", "Icmpv6Packet", echo6.clone());
    add("icmpv6-echo-reply", "Icmpv6Packet", icmpv6(V6A, V6B, &Icmpv6Repr::EchoReply { ident: 9, seq_no: 10, data: &data }));
    let inner6 = Ipv6Repr { src_addr: V6B, dst_addr: V6A, next_header: IpProtocol::Udp, payload_len: udp6.len(), hop_limit: 3 };
    add("icmpv6-dst-unreachable", "Icmpv6Packet", icmpv6(V6A, V6B, &Icmpv6Repr::DstUnreachable { reason: Icmpv6DstUnreachable::PortUnreachable, header: inner6, data: &udp6 }));
    add("icmpv6-pkt-too-big", "Icmpv6Packet", icmpv6(V6A, V6B, &Icmpv6Repr::PktTooBig { mtu: 1280, header: inner6, data: &udp6 }));
    add("icmpv6-time-exceeded", "Icmpv6Packet", icmpv6(V6A, V6B, &Icmpv6Repr::TimeExceeded { reason: Icmpv6TimeExceeded::HopLimitExceeded, header: inner6, data: &udp6 }));
    add("icmpv6-param-problem", "Icmpv6Packet", icmpv6(V6A, V6B, &Icmpv6Repr::ParamProblem { reason: Icmpv6ParamProblem::UnrecognizedNxtHdr, pointer: 40, header: inner6, data: &udp6 }));
    add("eth/ipv6/icmpv6-echo", "EthernetFrame", eth(EthernetProtocol::Ipv6, &ipv6(V6A, V6B, IpProtocol::Icmpv6, &echo6)));

    // --- NDISC (every message, every option)
    let prefix = NdiscPrefixInformation {
        prefix_len: 64,
        flags: NdiscPrefixInfoFlags::ON_LINK | NdiscPrefixInfoFlags::ADDRCONF,
        valid_lifetime: Duration::from_secs(86400),
        preferred_lifetime: Duration::from_secs(14400),
        prefix: Ipv6Address::new(0x2001, 0xdb8, 0, 1, 0, 0, 0, 0),
    };
    add("ndisc-router-solicit", "Icmpv6Packet", icmpv6(V6A, V6M, &Icmpv6Repr::Ndisc(NdiscRepr::RouterSolicit { lladdr: Some(raw_mac(&MAC_A)) })));
    add("ndisc-router-solicit-bare", "Icmpv6Packet", icmpv6(V6A, V6M, &Icmpv6Repr::Ndisc(NdiscRepr::RouterSolicit { lladdr: None })));
    let ra = icmpv6(
        V6A,
        V6M,
        &Icmpv6Repr::Ndisc(NdiscRepr::RouterAdvert {
            hop_limit: 64,
            flags: NdiscRouterFlags::MANAGED,
            router_lifetime: Duration::from_secs(900),
            reachable_time: Duration::from_millis(900),
            retrans_time: Duration::from_millis(901),
            lladdr: Some(raw_mac(&MAC_A)),
            mtu: Some(1500),
            prefix_info: Some(prefix),
        }),
    );
    add("ndisc-router-advert-all-options", "Icmpv6Packet", ra.clone());
    let ns = icmpv6(V6A, V6B, &Icmpv6Repr::Ndisc(NdiscRepr::NeighborSolicit { target_addr: V6B, lladdr: Some(raw_mac(&MAC_A)) }));
    add("ndisc-neighbor-solicit", "Icmpv6Packet", ns.clone());
    add(
        "ndisc-neighbor-advert-ll8",
        "Icmpv6Packet",
        icmpv6(V6B, V6A, &Icmpv6Repr::Ndisc(NdiscRepr::NeighborAdvert { flags: NdiscNeighborFlags::SOLICITED | NdiscNeighborFlags::OVERRIDE, target_addr: V6B, lladdr: Some(RawHardwareAddress::from_bytes(&LL_EXT_A)) })),
    );
    let redirected = NdiscRedirectedHeader { header: Ipv6Repr { src_addr: V6G, dst_addr: V6H, next_header: IpProtocol::Udp, payload_len: 8, hop_limit: 9 }, data: &udp6[..8] };
    add(
        "ndisc-redirect",
        "Icmpv6Packet",
        icmpv6(V6A, V6B, &Icmpv6Repr::Ndisc(NdiscRepr::Redirect { target_addr: V6H, dest_addr: V6G, lladdr: Some(raw_mac(&MAC_B)), redirected_hdr: Some(redirected) })),
    );
    add("eth/ipv6/ndisc-ra", "EthernetFrame", eth(EthernetProtocol::Ipv6, &ipv6(V6A, V6M, IpProtocol::Icmpv6, &ra)));
    add("ipv6/ndisc-ns", "Ipv6Packet", ipv6(V6A, V6B, IpProtocol::Icmpv6, &ns));
    // stand-alone NDISC options
    add("ndiscopt-source-lladdr", "NdiscOption", ndisc_option(&NdiscOptionRepr::SourceLinkLayerAddr(raw_mac(&MAC_A))));
    add("ndiscopt-target-lladdr8", "NdiscOption", ndisc_option(&NdiscOptionRepr::TargetLinkLayerAddr(RawHardwareAddress::from_bytes(&LL_EXT_B))));
    add("ndiscopt-prefix-info", "NdiscOption", ndisc_option(&NdiscOptionRepr::PrefixInformation(prefix)));
    add("ndiscopt-redirected-header", "NdiscOption", ndisc_option(&NdiscOptionRepr::RedirectedHeader(redirected)));
    add("ndiscopt-mtu", "NdiscOption", ndisc_option(&NdiscOptionRepr::Mtu(1280)));
    add("ndiscopt-unknown", "NdiscOption", ndisc_option(&NdiscOptionRepr::Unknown { type_: 0x20, length: 2, data: &payload(14) }));

    // --- MLD
    let rec1 = mld_record(MldRecordType::ChangeToInclude, V6M, &[]);
    let rec2 = mld_record(MldRecordType::ModeIsExclude, Ipv6Address::new(0xff02, 0, 0, 0, 0, 1, 0xff00, 0x1234), &[V6G, V6H]);
    add("mld-address-record", "MldAddressRecord", rec1.clone());
    add("mld-address-record-2src", "MldAddressRecord", rec2.clone());
    let mut recs = rec1.clone();
    recs.extend_from_slice(&rec2);
    let mld_report = icmpv6(V6A, IPV6_LINK_LOCAL_ALL_MLDV2_ROUTERS, &Icmpv6Repr::Mld(MldRepr::Report { nr_mcast_addr_rcrds: 2, data: &recs }));
    add("mld-report", "Icmpv6Packet", mld_report.clone());
    let mut srcs = V6G.octets().to_vec();
    srcs.extend_from_slice(&V6H.octets());
    add(
        "mld-query",
        "Icmpv6Packet",
        icmpv6(V6A, V6M, &Icmpv6Repr::Mld(MldRepr::Query { max_resp_code: 1000, mcast_addr: V6M, s_flag: true, qrv: 2, qqic: 125, num_srcs: 2, data: &srcs })),
    );

    // --- IPv6 options / extension headers
    add("ipv6opt-pad1", "Ipv6Option", ipv6_option(&Ipv6OptionRepr::Pad1));
    add("ipv6opt-padn", "Ipv6Option", ipv6_option(&Ipv6OptionRepr::PadN(3)));
    add("ipv6opt-router-alert", "Ipv6Option", ipv6_option(&Ipv6OptionRepr::RouterAlert(Ipv6OptionRouterAlert::MulticastListenerDiscovery)));
    add("ipv6opt-unknown", "Ipv6Option", ipv6_option(&Ipv6OptionRepr::Unknown { type_: Ipv6OptionType::Unknown(0x3e), length: 4, data: &[1, 2, 3, 4] }));
    let mut hbh = Ipv6HopByHopRepr::mldv2_router_alert();
    hbh.push_padn_option(0);
    let hbh_b = hbh_body(&hbh);
    add("hbh-router-alert-padn", "Ipv6HopByHopHeader", hbh_b.clone());
    let hbh_ext = ipv6_ext(IpProtocol::Icmpv6, &hbh_b);
    add("ext/hbh", "Ipv6ExtHeader", hbh_ext.clone());
    // a 16-byte destination-options header: unknown option (len 4) + Pad1 + PadN(5)
    let mut dst_opts = ipv6_option(&Ipv6OptionRepr::Unknown { type_: Ipv6OptionType::Unknown(0x1e), length: 4, data: &[9, 8, 7, 6] });
    dst_opts.extend_from_slice(&ipv6_option(&Ipv6OptionRepr::Pad1));
    dst_opts.extend_from_slice(&ipv6_option(&Ipv6OptionRepr::PadN(5)));
    add("dstopts-body", "Ipv6HopByHopHeader", dst_opts.clone());
    let dst_ext = ipv6_ext(IpProtocol::Udp, &dst_opts);
    add("ext/dstopts-16", "Ipv6ExtHeader", dst_ext.clone());
    let frag_b = frag_body(&Ipv6FragmentRepr { frag_offset: 185, more_frags: true, ident: 0xdead_beef });
    add("fragment-body", "Ipv6FragmentHeader", frag_b.clone());
    let frag_ext = ipv6_ext(IpProtocol::Udp, &frag_b);
    add("ext/fragment", "Ipv6ExtHeader", frag_ext.clone());
    let rt2 = routing_body(&Ipv6RoutingRepr::Type2 { segments_left: 1, home_address: V6G });
    add("routing-type2-body", "Ipv6RoutingHeader", rt2.clone());
    let rt2_ext = ipv6_ext(IpProtocol::Udp, &rt2);
    add("ext/routing-type2", "Ipv6ExtHeader", rt2_ext.clone());
    let rpl_addrs = payload(16);
    let rpl = routing_body(&Ipv6RoutingRepr::Rpl { segments_left: 2, cmpr_i: 8, cmpr_e: 8, pad: 2, addresses: &rpl_addrs });
    add("routing-rpl-body", "Ipv6RoutingHeader", rpl.clone());
    add("ext/routing-rpl", "Ipv6ExtHeader", ipv6_ext(IpProtocol::Icmpv6, &rpl));
    let mut chain = hbh_ext.clone();
    chain.extend_from_slice(&mld_report);
    add("ipv6/hbh/mld-report", "Ipv6Packet", ipv6(V6A, IPV6_LINK_LOCAL_ALL_MLDV2_ROUTERS, IpProtocol::HopByHop, &chain));
    add("eth/ipv6/hbh/mld-report", "EthernetFrame", eth(EthernetProtocol::Ipv6, &ipv6(V6A, IPV6_LINK_LOCAL_ALL_MLDV2_ROUTERS, IpProtocol::HopByHop, &chain)));
    let mut chain = rt2_ext.clone();
    chain.extend_from_slice(&udp6);
    add("ipv6/routing/udp", "Ipv6Packet", ipv6(V6A, V6B, IpProtocol::Ipv6Route, &chain));
    let mut chain = frag_ext.clone();
    chain.extend_from_slice(&udp6[..16]);
    add("ipv6/fragment/udp-part", "Ipv6Packet", ipv6(V6A, V6B, IpProtocol::Ipv6Frag, &chain));
    let mut chain = dst_ext.clone();
    chain.extend_from_slice(&udp6);
    add("ipv6/dstopts/udp", "Ipv6Packet", ipv6(V6A, V6B, IpProtocol::Ipv6Opts, &chain));

    // --- DHCP
    let mut discover = dhcp_base(DhcpMessageType::Discover);
    discover.broadcast = true;
    discover.client_identifier = Some(MAC_A);
    discover.max_size = Some(1432);
    discover.parameter_request_list = Some(&[1, 3, 6]);
    let dhcp_discover = dhcp(&discover);
    add("dhcp-discover", "DhcpPacket", dhcp_discover.clone());
    let mut request = dhcp_base(DhcpMessageType::Request);
    request.requested_ip = Some(V4B);
    request.server_identifier = Some(V4A);
    request.client_identifier = Some(MAC_A);
    request.parameter_request_list = Some(&[1, 3, 6]);
    add("dhcp-request", "DhcpPacket", dhcp(&request));
    let extra = [DhcpOption { kind: 12, data: b"host" }, DhcpOption { kind: 58, data: &[0, 0, 1, 0] }, DhcpOption { kind: 59, data: &[0, 0, 2, 0] }];
    let mut ackp = dhcp_base(DhcpMessageType::Ack);
    ackp.your_ip = V4B;
    ackp.server_ip = V4A;
    ackp.server_identifier = Some(V4A);
    ackp.router = Some(V4A);
    ackp.subnet_mask = Some(Ipv4Address::new(255, 255, 255, 0));
    ackp.lease_duration = Some(3600);
    // the field's heapless vector type is not exported: let inference name it
    ackp.dns_servers = Some(Default::default());
    if let Some(servers) = ackp.dns_servers.as_mut() {
        servers.push(Ipv4Address::new(8, 8, 8, 8)).ok();
        servers.push(Ipv4Address::new(1, 1, 1, 1)).ok();
    }
    ackp.additional_options = &extra;
    let dhcp_ack = dhcp(&ackp);
    add("dhcp-ack-all-options", "DhcpPacket", dhcp_ack.clone());
    let mut offer = dhcp_base(DhcpMessageType::Offer);
    offer.your_ip = V4B;
    offer.server_identifier = Some(V4A);
    offer.lease_duration = Some(600);
    add("dhcp-offer", "DhcpPacket", dhcp(&offer));
    add("dhcp-nak", "DhcpPacket", dhcp(&dhcp_base(DhcpMessageType::Nak)));
    // sname / file filled in, leading pad options (no emitter does this)
    let mut named = dhcp_ack.clone();
    named[34..34 + 6].copy_from_slice(b"server");
    named[108..108 + 8].copy_from_slice(b"boot.img");
    named.splice(240..240, [0u8, 0u8]);
    add("dhcp-ack-sname-file-pad", "DhcpPacket", named);
    let bcast: IpAddress = Ipv4Address::BROADCAST.into();
    let zero: IpAddress = Ipv4Address::UNSPECIFIED.into();
    add("eth/ipv4/udp/dhcp-discover", "EthernetFrame", eth(EthernetProtocol::Ipv4, &ipv4(IpProtocol::Udp, &udp(zero, bcast, 68, 67, &dhcp_discover))));
    add("udp/dhcp-ack", "UdpPacket", udp(a4, b4, 67, 68, &dhcp_ack));

    // --- DNS
    let q = dns_query(DnsQueryType::A);
    add("dns-query-a", "DnsPacket", q.clone());
    add("dns-query-aaaa", "DnsPacket", dns_query(DnsQueryType::Aaaa));
    let resp = dns_response();
    add("dns-response-compressed", "DnsPacket", resp.clone());
    add("udp/dns-query", "UdpPacket", udp(a4, b4, 49152, 53, &q));
    add("eth/ipv4/udp/dns-response", "EthernetFrame", eth(EthernetProtocol::Ipv4, &ipv4(IpProtocol::Udp, &udp(b4, a4, 53, 49152, &resp))));

    // --- 6LoWPAN: NHC, IPHC, fragments
    let coap = payload(12);
    let nhc_udp_11 = nhc_udp(0xf0b1, 0xf0b2, &coap);
    add("nhc-udp-ports4+4", "SixlowpanUdpNhcPacket", nhc_udp_11.clone());
    add("nhc-udp-src8", "SixlowpanUdpNhcPacket", nhc_udp(0xf012, 5683, &coap));
    add("nhc-udp-dst8", "SixlowpanUdpNhcPacket", nhc_udp(5683, 0xf012, &coap));
    add("nhc-udp-inline", "SixlowpanUdpNhcPacket", nhc_udp(5683, 5684, &coap));
    // checksum elided (C = 1), ports 4+4
    let mut elided = vec![0b1111_0111, 0x12];
    elided.extend_from_slice(&coap);
    add("nhc-udp-checksum-elided", "SixlowpanUdpNhcPacket", elided);
    let padn6 = ipv6_option(&Ipv6OptionRepr::PadN(4));
    let nhc_hbh = nhc_ext(&SixlowpanExtHeaderRepr { ext_header_id: SixlowpanExtHeaderId::HopByHopHeader, next_header: SixlowpanNextHeader::Compressed, length: padn6.len() as u8 }, &padn6);
    add("nhc-ext-hbh-nh-compressed", "SixlowpanExtHeaderPacket", nhc_hbh.clone());
    add(
        "nhc-ext-dstopts-nh-inline",
        "SixlowpanExtHeaderPacket",
        nhc_ext(&SixlowpanExtHeaderRepr { ext_header_id: SixlowpanExtHeaderId::DestinationOptionsHeader, next_header: SixlowpanNextHeader::Uncompressed(IpProtocol::Udp), length: padn6.len() as u8 }, &padn6),
    );
    add(
        "nhc-ext-routing",
        "SixlowpanExtHeaderPacket",
        nhc_ext(&SixlowpanExtHeaderRepr { ext_header_id: SixlowpanExtHeaderId::RoutingHeader, next_header: SixlowpanNextHeader::Uncompressed(IpProtocol::Icmpv6), length: rpl.len() as u8 }, &rpl),
    );

    let ll_a = Ieee802154Address::Extended(LL_EXT_A);
    let ll_b = Ieee802154Address::Extended(LL_EXT_B);
    let ll_s = Ieee802154Address::Short([0x12, 0x34]);
    let v6_from_a = ll_a.as_link_local_address().unwrap();
    let v6_short = Ipv6Address::new(0xfe80, 0, 0, 0, 0, 0x00ff, 0xfe00, 0x1234);
    let iphc = |src, ll_src, dst, ll_dst, nh, hop| SixlowpanIphcRepr { src_addr: src, ll_src_addr: ll_src, dst_addr: dst, ll_dst_addr: ll_dst, next_header: nh, hop_limit: hop, ecn: None, dscp: None, flow_label: None };
    let nh_udp = SixlowpanNextHeader::Uncompressed(IpProtocol::Udp);
    let nh_icmp = SixlowpanNextHeader::Uncompressed(IpProtocol::Icmpv6);
    let nh_c = SixlowpanNextHeader::Compressed;
    let mut iphc_nhc = nhc_hbh.clone();
    iphc_nhc.extend_from_slice(&nhc_udp_11);
    let iphc_elided = iphc_emit(&iphc(v6_from_a, Some(ll_a), v6_short, Some(ll_s), nh_c, 64), &nhc_udp_11);
    add("iphc-elided-addresses/nhc-udp", "SixlowpanIphcPacket", iphc_elided.clone());
    add("iphc-unspecified-src-mcast8", "SixlowpanIphcPacket", iphc_emit(&iphc(Ipv6Address::UNSPECIFIED, None, V6M, None, nh_icmp, 255), &ns));
    add("iphc-src16-dst64", "SixlowpanIphcPacket", iphc_emit(&iphc(v6_short, None, V6B, Some(ll_b), nh_udp, 1), &udp6));
    add("iphc-src64-dst16", "SixlowpanIphcPacket", iphc_emit(&iphc(V6A, Some(ll_b), v6_short, None, nh_udp, 64), &udp6));
    add("iphc-full-inline-hop-inline", "SixlowpanIphcPacket", iphc_emit(&iphc(V6G, None, V6H, None, nh_udp, 17), &udp6));
    add("iphc-mcast32", "SixlowpanIphcPacket", iphc_emit(&iphc(V6A, None, Ipv6Address::new(0xff05, 0, 0, 0, 0, 0, 1, 3), None, nh_udp, 64), &udp6));
    add("iphc-mcast48", "SixlowpanIphcPacket", iphc_emit(&iphc(V6A, None, Ipv6Address::new(0xff02, 0, 0, 0, 0, 1, 0xff00, 0x1234), None, nh_icmp, 255), &ns));
    add("iphc-elided/nhc-hbh/nhc-udp", "SixlowpanIphcPacket", iphc_emit(&iphc(v6_from_a, Some(ll_a), v6_short, Some(ll_s), nh_c, 64), &iphc_nhc));
    // hand-assembled forms: traffic class inline, context identifiers, full multicast, reserved combinations
    let mut f = vec![0x40, 0x01, 0x23, 0x45]; // TF=00: ECN+DSCP, 4 pad bits + 20 bit flow label
    f.push(17); // next header inline
    f.push(33); // hop limit inline
    f.extend_from_slice(&V6G.octets());
    f.extend_from_slice(&V6H.octets());
    f.extend_from_slice(&udp6);
    add("iphc-tf00-all-inline", "SixlowpanIphcPacket", iphc_raw(0, 0, 0, 0, 0, 0, 0, 0, 0, &f));
    let mut f = vec![0x41, 0x23, 0x45]; // TF=01: ECN + flow label
    f.extend_from_slice(&nhc_udp_11);
    add("iphc-tf01-elided", "SixlowpanIphcPacket", iphc_raw(1, 1, 2, 0, 0, 3, 0, 0, 3, &f));
    let mut f = vec![0x2e]; // TF=10: ECN + DSCP
    f.extend_from_slice(&nhc_udp_11);
    add("iphc-tf10-elided", "SixlowpanIphcPacket", iphc_raw(2, 1, 3, 0, 0, 3, 0, 0, 3, &f));
    let mut f = vec![0x12]; // CID byte: src ctx 1, dst ctx 2
    f.extend_from_slice(&LL_EXT_A); // SAC=1 SAM=01: 64 bits
    f.extend_from_slice(&[0xab, 0xcd]); // DAC=1 DAM=10: 16 bits
    f.extend_from_slice(&nhc_udp_11);
    add("iphc-cid-src64-dst16", "SixlowpanIphcPacket", iphc_raw(3, 1, 2, 1, 1, 1, 0, 1, 2, &f));
    let mut f = vec![0x00]; // CID byte, contexts 0/0; SAC=1 SAM=10 (16 bits), DAC=1 DAM=01 (64 bits)
    f.extend_from_slice(&[0x12, 0x34]);
    f.extend_from_slice(&LL_EXT_B);
    f.extend_from_slice(&nhc_udp_11);
    add("iphc-cid-src16-dst64", "SixlowpanIphcPacket", iphc_raw(3, 1, 2, 1, 1, 2, 0, 1, 1, &f));
    let mut f = vec![0x34]; // CID; SAC=1 SAM=11 elided, DAC=1 DAM=11 elided
    f.extend_from_slice(&nhc_udp_11);
    add("iphc-cid-both-elided", "SixlowpanIphcPacket", iphc_raw(3, 1, 2, 1, 1, 3, 0, 1, 3, &f));
    let mut f = Ipv6Address::new(0xff0e, 1, 2, 3, 4, 5, 6, 7).octets().to_vec(); // M=1 DAM=00: full multicast
    f.extend_from_slice(&nhc_udp_11);
    add("iphc-mcast-full", "SixlowpanIphcPacket", iphc_raw(3, 1, 2, 0, 0, 3, 1, 0, 0, &f));
    let mut f = vec![0x01, 0x0e, 0x40, 0x11, 0x22, 0x33, 0x44]; // CID + M=1 DAC=1 DAM=00: 48 bits, unicast-prefix based
    f.extend_from_slice(&nhc_udp_11);
    add("iphc-mcast-ctx48", "SixlowpanIphcPacket", iphc_raw(3, 1, 2, 1, 0, 3, 1, 1, 0, &f));
    add("iphc-src-unspecified-dst-reserved", "SixlowpanIphcPacket", iphc_raw(3, 1, 2, 0, 1, 0, 0, 1, 0, &nhc_udp_11));

    add("6lowpan-first-fragment/iphc", "SixlowpanFragPacket", sixlowpan_frag(&SixlowpanFragRepr::FirstFragment { size: 1280, tag: 0x1234 }, &iphc_elided));
    add("6lowpan-next-fragment", "SixlowpanFragPacket", sixlowpan_frag(&SixlowpanFragRepr::Fragment { size: 1280, tag: 0x1234, offset: 12 }, &payload(40)));

    // --- IEEE 802.15.4 (emitter: 2003/2006 data frames with a destination PAN)
    let fr = |ver, compr, dst, src_pan, src| Ieee802154Repr {
        frame_type: Ieee802154FrameType::Data,
        security_enabled: false,
        frame_pending: false,
        ack_request: true,
        sequence_number: Some(7),
        pan_id_compression: compr,
        frame_version: ver,
        dst_pan_id: Some(Ieee802154Pan(0xabcd)),
        dst_addr: Some(dst),
        src_pan_id: src_pan,
        src_addr: Some(src),
    };
    let full = ieee_emit(&fr(Ieee802154FrameVersion::Ieee802154_2006, true, ll_b, None, ll_a), &iphc_elided);
    add("802154-ext-ext-compr/iphc/nhc-udp", "Ieee802154Frame", full);
    add("802154-short-ext-nocompr", "Ieee802154Frame", ieee_emit(&fr(Ieee802154FrameVersion::Ieee802154_2003, false, ll_s, Some(Ieee802154Pan(0x1111)), ll_a), &coap));
    add("802154-ext-short-compr", "Ieee802154Frame", ieee_emit(&fr(Ieee802154FrameVersion::Ieee802154_2006, true, ll_b, None, ll_s), &coap));
    add("802154-bcast-short-compr", "Ieee802154Frame", ieee_emit(&fr(Ieee802154FrameVersion::Ieee802154_2003, true, Ieee802154Address::BROADCAST, None, ll_s), &coap));
    // hand-assembled: absent modes, 2015 frames, other frame types, auxiliary security header
    let pan = [0xcd, 0xab];
    let pan2 = [0x11, 0x11];
    let sh = [0x34, 0x12];
    let sh2 = [0x78, 0x56];
    let mut ex = LL_EXT_A;
    ex.reverse();
    let mut ex2 = LL_EXT_B;
    ex2.reverse();
    let cat = |parts: &[&[u8]]| parts.iter().flat_map(|p| p.iter().copied()).collect::<Vec<u8>>();
    add("802154-2006-dst-absent-src-ext", "Ieee802154Frame", ieee_raw(fc154(1, false, false, 0, 1, 3), &cat(&[&pan, &ex]), &[], &coap));
    add("802154-2006-dst-short-src-absent", "Ieee802154Frame", ieee_raw(fc154(1, false, false, 2, 1, 0), &cat(&[&pan, &sh]), &[], &coap));
    add("802154-2003-imm-ack", "Ieee802154Frame", ieee_raw(fc154(2, false, false, 0, 0, 0), &pan, &[], &[]));
    add("802154-2003-beacon", "Ieee802154Frame", ieee_raw(fc154(0, false, false, 0, 0, 2), &cat(&[&pan, &sh]), &[], &[0xff, 0xcf, 0, 0]));
    add("802154-2006-mac-command", "Ieee802154Frame", ieee_raw(fc154(3, false, true, 2, 1, 3), &cat(&[&pan, &sh, &ex]), &[], &[0x01, 0x8e]));
    add("802154-2015-none", "Ieee802154Frame", ieee_raw(fc154(1, false, false, 0, 2, 0), &[], &[], &coap));
    add("802154-2015-dstpan-only", "Ieee802154Frame", ieee_raw(fc154(1, false, true, 0, 2, 0), &pan, &[], &coap));
    add("802154-2015-dst-short", "Ieee802154Frame", ieee_raw(fc154(1, false, false, 2, 2, 0), &cat(&[&pan, &sh]), &[], &coap));
    add("802154-2015-dst-ext-compr", "Ieee802154Frame", ieee_raw(fc154(1, false, true, 3, 2, 0), &ex, &[], &coap));
    add("802154-2015-src-ext", "Ieee802154Frame", ieee_raw(fc154(1, false, false, 0, 2, 3), &cat(&[&pan, &ex]), &[], &coap));
    add("802154-2015-src-short-compr", "Ieee802154Frame", ieee_raw(fc154(1, false, true, 0, 2, 2), &cat(&[&pan, &sh]), &[], &coap));
    add("802154-2015-ext-ext", "Ieee802154Frame", ieee_raw(fc154(1, false, false, 3, 2, 3), &cat(&[&pan, &ex2, &ex]), &[], &coap));
    add("802154-2015-ext-ext-compr", "Ieee802154Frame", ieee_raw(fc154(1, false, true, 3, 2, 3), &cat(&[&ex2, &ex]), &[], &coap));
    add("802154-2015-short-short", "Ieee802154Frame", ieee_raw(fc154(1, false, false, 2, 2, 2), &cat(&[&pan, &sh2, &pan2, &sh]), &[], &coap));
    add("802154-2015-short-short-compr", "Ieee802154Frame", ieee_raw(fc154(1, false, true, 2, 2, 2), &cat(&[&pan, &sh2, &sh]), &[], &coap));
    add("802154-2015-short-ext", "Ieee802154Frame", ieee_raw(fc154(1, false, false, 2, 2, 3), &cat(&[&pan, &sh2, &pan2, &ex]), &[], &coap));
    add("802154-2015-ext-short-compr", "Ieee802154Frame", ieee_raw(fc154(1, false, true, 3, 2, 2), &cat(&[&pan, &ex2, &sh]), &[], &coap));
    add("802154-2015-enh-ack", "Ieee802154Frame", ieee_raw(fc154(2, false, true, 2, 2, 2), &cat(&[&pan, &sh2, &sh]), &[], &[]));
    // security: control byte = level | key-id-mode << 3 | frame-counter-suppression << 5
    let mic = |n: usize| vec![0xee; n];
    let body = |n: usize| cat(&[&coap, &mic(n)]);
    add("802154-sec-level5-implicit-key", "Ieee802154Frame", ieee_raw(fc154(1, true, true, 2, 1, 2), &cat(&[&pan, &sh2, &sh]), &[0x05, 1, 0, 0, 0], &body(4)));
    add("802154-sec-level6-key-index", "Ieee802154Frame", ieee_raw(fc154(1, true, true, 2, 1, 2), &cat(&[&pan, &sh2, &sh]), &[0x06 | 1 << 3, 2, 0, 0, 0, 0x07], &body(8)));
    add("802154-sec-level7-key-source4", "Ieee802154Frame", ieee_raw(fc154(1, true, true, 3, 1, 3), &cat(&[&pan, &ex2, &ex]), &[0x07 | 2 << 3, 3, 0, 0, 0, 1, 2, 3, 4, 0x09], &body(16)));
    add("802154-sec-level1-key-source8", "Ieee802154Frame", ieee_raw(fc154(1, true, true, 2, 1, 2), &cat(&[&pan, &sh2, &sh]), &[0x01 | 3 << 3, 4, 0, 0, 0, 1, 2, 3, 4, 5, 6, 7, 8, 0x0a], &body(4)));
    add("802154-sec-level4-no-mic", "Ieee802154Frame", ieee_raw(fc154(1, true, true, 2, 1, 2), &cat(&[&pan, &sh2, &sh]), &[0x04, 5, 0, 0, 0], &coap));
    add("802154-2015-sec-counter-suppressed", "Ieee802154Frame", ieee_raw(fc154(1, true, true, 2, 2, 2), &cat(&[&pan, &sh2, &sh]), &[0x05 | 1 << 3 | 1 << 5, 0x07], &body(4)));

    c
}

pub fn corpus() -> &'static [Pkt] {
    static C: OnceLock<Vec<Pkt>> = OnceLock::new();
    C.get_or_init(build)
}
