//! Frame generators for C03: link wrapping for the three media, well-formed
//! frames of every protocol the stack parses (addressed to the zoo of
//! `sim::zoo`), and replies to the frames the stack itself emitted.
//!
//! The oracle of C03 is "no panic / returns / still answers", so frames may be
//! built with smoltcp's own emitters; most are assembled by hand anyway so that
//! every field can take every value.
use crate::gen::corpus;
use crate::gen::hostile;
use crate::indep::{self, cksum, put16, put32, Addr};
use crate::sim::zoo::*;
use crate::util::rng::Rng;
use smoltcp::phy::ChecksumCapabilities;
use smoltcp::wire::*;

pub struct View<'a> {
    pub cfg: &'a ZooCfg,
    pub learned: &'a Learned,
    /// behaviour of the TCP peers for the whole case: 0 erratic (every kind of segment),
    /// 1 cooperative (acknowledges everything, sends data, window open),
    /// 2 zero-window receiver (acknowledges everything, never opens its window)
    pub persona: u8,
}

/// One generated stimulus: an IP packet (re-wrappable after mutation) or bare link frames.
#[derive(Clone, Debug)]
pub struct Item {
    pub proto: &'static str,
    pub peer: Peer,
    pub ip: Option<Vec<u8>>,
    pub frames: Vec<Vec<u8>>,
    /// the frames are fragments of one datagram
    pub train: bool,
}

// ================================================================ link layer

pub fn eth_wrap(src: &EthernetAddress, dst: &[u8; 6], ethertype: u16, payload: &[u8]) -> Vec<u8> {
    let mut f = Vec::with_capacity(14 + payload.len());
    f.extend_from_slice(dst);
    f.extend_from_slice(src.as_bytes());
    f.extend_from_slice(&ethertype.to_be_bytes());
    f.extend_from_slice(payload);
    f
}

/// destination MAC that a correct sender would use for this IP packet towards us
pub fn eth_dst_for(ip: &[u8]) -> [u8; 6] {
    let mut our = [0u8; 6];
    our.copy_from_slice(OUR_MAC.as_bytes());
    if ip.is_empty() {
        return our;
    }
    match ip[0] >> 4 {
        4 if ip.len() >= 20 => {
            let d = &ip[16..20];
            if d == [255, 255, 255, 255] || d == [192, 168, 1, 255] {
                [0xff; 6]
            } else if d[0] >= 224 && d[0] <= 239 {
                [0x01, 0x00, 0x5e, d[1] & 0x7f, d[2], d[3]]
            } else {
                our
            }
        }
        6 if ip.len() >= 40 => {
            let d = &ip[24..40];
            if d[0] == 0xff {
                [0x33, 0x33, d[12], d[13], d[14], d[15]]
            } else {
                our
            }
        }
        _ => our,
    }
}

#[derive(Clone, Debug)]
pub struct LpOpts {
    pub src_short: bool,
    pub dst_bcast: bool,
    pub version2006: bool,
    pub pan_compress: bool,
    pub dst_pan: u16,
    /// 0: smoltcp's IPHC emitter (stateless compression chosen from the addresses); 1: hand-assembled, everything inline
    pub iphc_raw: bool,
    pub tf: u8,
    pub nhc_udp: bool,
    pub nhc_ext: bool,
    pub force_frag: bool,
    /// 0 in order, 1 reversed, 2 first fragment last, 3 duplicate one
    pub frag_order: u8,
    pub tag: u16,
    pub max_frame: usize,
    pub seq: u8,
    /// hostile overrides (generator 3 only): datagram_size of the fragment headers, shift of the
    /// FRAGN offsets, length octet of an NHC extension header
    pub frag_size: Option<u16>,
    pub frag_size_first_only: bool,
    pub frag_offset_delta: i16,
    pub nhc_len: Option<u8>,
}

impl LpOpts {
    pub fn plain(cfg: &ZooCfg) -> LpOpts {
        LpOpts {
            src_short: false,
            dst_bcast: false,
            version2006: true,
            pan_compress: true,
            dst_pan: cfg.pan.unwrap_or(DEFAULT_PAN),
            iphc_raw: false,
            tf: 3,
            nhc_udp: false,
            nhc_ext: false,
            force_frag: false,
            frag_order: 0,
            tag: 0x0101,
            max_frame: cfg.mtu.min(127),
            seq: 1,
            frag_size: None,
            frag_size_first_only: false,
            frag_offset_delta: 0,
            nhc_len: None,
        }
    }
    pub fn random(cfg: &ZooCfg, rng: &mut Rng) -> LpOpts {
        LpOpts {
            src_short: rng.chance(1, 4),
            dst_bcast: rng.chance(1, 10),
            version2006: rng.bool(),
            pan_compress: rng.chance(3, 4),
            dst_pan: match rng.below(10) {
                0 => 0xffff,
                1 => rng.u16(),
                _ => cfg.pan.unwrap_or(DEFAULT_PAN),
            },
            iphc_raw: rng.chance(1, 4),
            tf: rng.below(4) as u8,
            nhc_udp: rng.bool(),
            nhc_ext: rng.bool(),
            force_frag: rng.chance(1, 5),
            frag_order: *rng.pick(&[0u8, 0, 0, 1, 2, 3]),
            tag: rng.u16(),
            max_frame: if rng.chance(1, 8) { rng.urange(40, 127) } else { cfg.mtu.min(if rng.chance(1, 4) { 2047 } else { 127 }) },
            seq: rng.u8(),
            frag_size: None,
            frag_size_first_only: false,
            frag_offset_delta: 0,
            nhc_len: None,
        }
    }
    /// like `random`, with one of the 6LoWPAN length / offset fields made hostile
    pub fn hostile(cfg: &ZooCfg, rng: &mut Rng) -> LpOpts {
        let mut o = LpOpts::random(cfg, rng);
        match rng.below(4) {
            0 | 1 => {
                o.force_frag = true;
                // relative values are resolved in lowpan_wrap (0x8000 | delta code)
                o.frag_size = Some(*rng.pick(&[0u16, 1, 39, 40, 41, 47, 48, 49, 1280, 1500, 1501, 2046, 2047, 0x8001, 0x8002, 0x8008, 0x8009]));
                o.frag_size_first_only = rng.bool();
            }
            2 => {
                o.force_frag = true;
                o.frag_offset_delta = *rng.pick(&[-1i16, 1, -5, 5, 100, 255, -255]);
            }
            _ => {
                o.nhc_ext = true;
                o.nhc_len = Some(*rng.pick(&[0u8, 1, 2, 6, 7, 8, 0x7f, 0xfe, 0xff]));
            }
        }
        o
    }
}

fn mac154(peer: &Peer, o: &LpOpts, dst_multicast: bool) -> (Vec<u8>, Ieee802154Address, Ieee802154Address) {
    let ll_src = if o.src_short { Ieee802154Address::Short(peer.short) } else { Ieee802154Address::Extended(peer.ext) };
    let ll_dst = if o.dst_bcast || dst_multicast { Ieee802154Address::BROADCAST } else { Ieee802154Address::Extended(OUR_EXT) };
    let repr = Ieee802154Repr {
        frame_type: Ieee802154FrameType::Data,
        security_enabled: false,
        frame_pending: false,
        ack_request: false,
        sequence_number: Some(o.seq),
        pan_id_compression: o.pan_compress,
        frame_version: if o.version2006 { Ieee802154FrameVersion::Ieee802154_2006 } else { Ieee802154FrameVersion::Ieee802154_2003 },
        dst_pan_id: Some(Ieee802154Pan(o.dst_pan)),
        dst_addr: Some(ll_dst),
        src_pan_id: if o.pan_compress { None } else { Some(Ieee802154Pan(o.dst_pan)) },
        src_addr: Some(ll_src),
    };
    let mut buf = vec![0u8; repr.buffer_len()];
    repr.emit(&mut Ieee802154Frame::new_unchecked(&mut buf[..]));
    (buf, ll_src, ll_dst)
}

/// 802.15.4 data frame from `peer` to us around an arbitrary 6LoWPAN payload
pub fn lowpan_raw_frame(cfg: &ZooCfg, peer: &Peer, payload: &[u8]) -> Vec<u8> {
    let (mut mac, _, _) = mac154(peer, &LpOpts::plain(cfg), false);
    mac.extend_from_slice(payload);
    mac
}

/// Compress an IPv6 packet into one 802.15.4 frame or a FRAG1/FRAGN train.
pub fn lowpan_wrap(_cfg: &ZooCfg, peer: &Peer, ip6: &[u8], o: &LpOpts) -> Vec<Vec<u8>> {
    if ip6.len() < 40 || ip6[0] >> 4 != 6 {
        return vec![];
    }
    let nh = ip6[6];
    let hop = ip6[7];
    let mut s = [0u8; 16];
    let mut d = [0u8; 16];
    s.copy_from_slice(&ip6[8..24]);
    d.copy_from_slice(&ip6[24..40]);
    let (src, dst) = (Ipv6Address::from(s), Ipv6Address::from(d));
    let payload = &ip6[40..];
    let (mac, ll_src, ll_dst) = mac154(peer, o, d[0] == 0xff);

    // ---- next-header compression decisions
    let mut rest: &[u8] = payload;
    let mut tail_hdr: Vec<u8> = Vec::new(); // NHC headers
    let mut u_hdr = 40usize;
    let mut compressed_nh = false;
    if o.nhc_ext && matches!(nh, 0 | 43 | 60) && payload.len() >= 8 {
        let ext = 8 * (payload[1] as usize + 1);
        if ext <= payload.len() && ext - 2 <= 255 {
            let id = match nh {
                0 => SixlowpanExtHeaderId::HopByHopHeader,
                43 => SixlowpanExtHeaderId::RoutingHeader,
                _ => SixlowpanExtHeaderId::DestinationOptionsHeader,
            };
            let body = &payload[2..ext];
            let repr = SixlowpanExtHeaderRepr { ext_header_id: id, next_header: SixlowpanNextHeader::Uncompressed(IpProtocol::from(payload[0])), length: body.len() as u8 };
            tail_hdr = corpus::nhc_ext(&repr, body);
            if let Some(l) = o.nhc_len {
                // the length octet follows the NHC octet and the inline next header
                if tail_hdr.len() > 2 {
                    tail_hdr[2] = l;
                }
            }
            rest = &payload[ext..];
            u_hdr += ext;
            compressed_nh = true;
        }
    } else if o.nhc_udp && nh == 17 && payload.len() >= 8 {
        let (sp, dp) = (indep::be16(payload, 0), indep::be16(payload, 2));
        let data = &payload[8..];
        let repr = SixlowpanUdpNhcRepr(UdpRepr { src_port: sp, dst_port: dp });
        let hl = repr.header_len();
        let mut buf = vec![0u8; hl + data.len()];
        repr.emit(&mut SixlowpanUdpNhcPacket::new_unchecked(&mut buf[..]), &src, &dst, data.len(), |b| b.copy_from_slice(data), &ChecksumCapabilities::default());
        tail_hdr = buf[..hl].to_vec();
        rest = data;
        u_hdr += 8;
        compressed_nh = true;
    }

    // ---- IPHC base header
    let mut c_hdr: Vec<u8>;
    if o.iphc_raw {
        let mut inline: Vec<u8> = match o.tf {
            0 => vec![0x40, 0x01, 0x23, 0x45],
            1 => vec![0x41, 0x23, 0x45],
            2 => vec![0x2e],
            _ => vec![],
        };
        if !compressed_nh {
            inline.push(nh);
        }
        inline.push(hop);
        inline.extend_from_slice(&s);
        inline.extend_from_slice(&d);
        let m = (d[0] == 0xff) as u8;
        c_hdr = corpus::iphc_raw(o.tf, compressed_nh as u8, 0, 0, 0, 0, m, 0, 0, &inline);
    } else {
        let repr = SixlowpanIphcRepr {
            src_addr: src,
            ll_src_addr: Some(ll_src),
            dst_addr: dst,
            ll_dst_addr: Some(ll_dst),
            next_header: if compressed_nh { SixlowpanNextHeader::Compressed } else { SixlowpanNextHeader::Uncompressed(IpProtocol::from(nh)) },
            hop_limit: hop,
            ecn: None,
            dscp: None,
            flow_label: None,
        };
        c_hdr = vec![0u8; repr.buffer_len()];
        repr.emit(&mut SixlowpanIphcPacket::new_unchecked(&mut c_hdr[..]));
    }
    c_hdr.extend_from_slice(&tail_hdr);

    let single_len = mac.len() + c_hdr.len() + rest.len();
    let size = u_hdr + rest.len();
    if (!o.force_frag && single_len <= o.max_frame) || size > 2047 {
        let mut f = mac;
        f.extend_from_slice(&c_hdr);
        f.extend_from_slice(rest);
        return vec![f];
    }
    // ---- FRAG1 / FRAGN
    let mut out = Vec::new();
    let avail1 = o.max_frame.saturating_sub(mac.len() + 4 + c_hdr.len());
    let mut k1 = avail1.min(rest.len());
    // the uncompressed length of the first fragment must be a multiple of 8 (unless it is everything)
    if k1 < rest.len() {
        while k1 > 0 && (u_hdr + k1) % 8 != 0 {
            k1 -= 1;
        }
        if (u_hdr + k1) % 8 != 0 {
            k1 = (8 - u_hdr % 8) % 8;
            k1 = k1.min(rest.len());
        }
    }
    // hostile datagram_size: absolute, or relative to the true size (0x8000 | code)
    let size_for = |first: bool| -> u16 {
        match o.frag_size {
            Some(_) if o.frag_size_first_only && !first => size as u16,
            Some(v) if v & 0x8000 != 0 => {
                let s = size as u16;
                let r = match v & 0xff {
                    1 => s.wrapping_sub(1),
                    2 => s.wrapping_add(1),
                    8 => s.wrapping_sub(8),
                    _ => s.wrapping_add(8),
                };
                r & 0x7ff
            }
            Some(v) => v,
            None => size as u16,
        }
    };
    let emit_frag = |repr: SixlowpanFragRepr, body: &[&[u8]]| {
        let mut hdr = vec![0u8; repr.buffer_len()];
        repr.emit(&mut SixlowpanFragPacket::new_unchecked(&mut hdr[..]));
        let mut f = mac.clone();
        f.extend_from_slice(&hdr);
        for b in body {
            f.extend_from_slice(b);
        }
        f
    };
    out.push(emit_frag(SixlowpanFragRepr::FirstFragment { size: size_for(true), tag: o.tag }, &[&c_hdr, &rest[..k1]]));
    let mut consumed = k1;
    let availn = (o.max_frame.saturating_sub(mac.len() + 5) / 8 * 8).max(8);
    while consumed < rest.len() {
        let n = availn.min(rest.len() - consumed);
        let off = (u_hdr + consumed) / 8;
        if off > 255 {
            break;
        }
        let off = (off as i32 + o.frag_offset_delta as i32).clamp(0, 255);
        out.push(emit_frag(SixlowpanFragRepr::Fragment { size: size_for(false), tag: o.tag, offset: off as u8 }, &[&rest[consumed..consumed + n]]));
        consumed += n;
    }
    match o.frag_order {
        1 => out.reverse(),
        2 => {
            let f = out.remove(0);
            out.push(f);
        }
        3 if out.len() >= 2 => {
            let f = out[1].clone();
            out.push(f);
        }
        _ => {}
    }
    out
}

/// Decode a frame emitted by the stack on the 802.15.4 medium into an IPv6 packet
/// (unfragmented frames only).  Uses smoltcp's views; callers guard it with `catch`.
pub fn lowpan_decode(frame: &[u8]) -> Option<Vec<u8>> {
    let fr = Ieee802154Frame::new_checked(frame).ok()?;
    let repr = Ieee802154Repr::parse(&fr).ok()?;
    let pl = fr.payload()?;
    match SixlowpanPacket::dispatch(pl).ok()? {
        SixlowpanPacket::FragmentHeader => None,
        SixlowpanPacket::IphcHeader => {
            let iphc = SixlowpanIphcPacket::new_checked(pl).ok()?;
            let r = SixlowpanIphcRepr::parse(&iphc, repr.src_addr, repr.dst_addr, &[]).ok()?;
            let (src, dst) = (Addr::V6(r.src_addr.octets()), Addr::V6(r.dst_addr.octets()));
            match r.next_header {
                SixlowpanNextHeader::Uncompressed(p) => Some(indep::ip::build(&src, &dst, u8::from(p), r.hop_limit, iphc.payload())),
                SixlowpanNextHeader::Compressed => {
                    let d = iphc.payload();
                    match SixlowpanNhcPacket::dispatch(d).ok()? {
                        SixlowpanNhcPacket::UdpHeader => {
                            let u = SixlowpanUdpNhcPacket::new_checked(d).ok()?;
                            let data = u.payload();
                            let mut seg = vec![0u8; 8 + data.len()];
                            put16(&mut seg, 0, u.src_port());
                            put16(&mut seg, 2, u.dst_port());
                            put16(&mut seg, 4, (8 + data.len()) as u16);
                            seg[8..].copy_from_slice(data);
                            cksum::transport_fill(&src, &dst, 17, &mut seg, 6);
                            Some(indep::ip::build(&src, &dst, 17, r.hop_limit, &seg))
                        }
                        SixlowpanNhcPacket::ExtHeader => None,
                    }
                }
            }
        }
    }
}

/// Plain, deterministic link wrapping (set-up and probe traffic).
pub fn link_wrap_plain(cfg: &ZooCfg, peer: &Peer, ip: &[u8]) -> Vec<Vec<u8>> {
    link_wrap(cfg, peer, ip, &LpOpts::plain(cfg))
}

pub fn link_wrap(cfg: &ZooCfg, peer: &Peer, ip: &[u8], o: &LpOpts) -> Vec<Vec<u8>> {
    match cfg.med {
        Med::Eth => {
            let et = if !ip.is_empty() && ip[0] >> 4 == 6 { 0x86dd } else { 0x0800 };
            vec![eth_wrap(&peer.mac, &eth_dst_for(ip), et, ip)]
        }
        Med::Ip => vec![ip.to_vec()],
        Med::Lowpan => lowpan_wrap(cfg, peer, ip, o),
    }
}

/// ARP request (Ethernet/IPv4) or neighbour solicitation with SLLAO (IPv6, not on Medium::Ip)
/// that makes the stack learn `peer`'s link-layer address.
pub fn neighbor_intro(cfg: &ZooCfg, peer: &Peer, src: &Addr, dst: &Addr) -> Vec<Vec<u8>> {
    match (cfg.med, src, dst) {
        (Med::Ip, _, _) => vec![],
        (Med::Eth, Addr::V4(s), Addr::V4(d)) => vec![arp_frame(&peer.mac, &[0xff; 6], 1, &peer.mac, s, &[0; 6], d)],
        (_, Addr::V6(_), Addr::V6(d)) => {
            let ns = ndisc_ns(cfg, peer, src, dst, d, true);
            link_wrap_plain(cfg, peer, &ns)
        }
        _ => vec![],
    }
}

pub fn arp_frame(eth_src: &EthernetAddress, eth_dst: &[u8; 6], op: u16, sha: &EthernetAddress, spa: &[u8; 4], tha: &[u8; 6], tpa: &[u8; 4]) -> Vec<u8> {
    let mut a = vec![0, 1, 8, 0, 6, 4];
    a.extend_from_slice(&op.to_be_bytes());
    a.extend_from_slice(sha.as_bytes());
    a.extend_from_slice(spa);
    a.extend_from_slice(tha);
    a.extend_from_slice(tpa);
    eth_wrap(eth_src, eth_dst, 0x0806, &a)
}

fn lladdr_option(cfg: &ZooCfg, peer: &Peer, ty: u8) -> Vec<u8> {
    if cfg.med == Med::Lowpan {
        let mut o = vec![ty, 2];
        o.extend_from_slice(&peer.ext);
        o.extend_from_slice(&[0; 6]);
        o
    } else {
        let mut o = vec![ty, 1];
        o.extend_from_slice(peer.mac.as_bytes());
        o
    }
}

/// IPv6 packet: neighbour solicitation for `target` (hop limit 255)
pub fn ndisc_ns(cfg: &ZooCfg, peer: &Peer, src: &Addr, dst: &Addr, target: &[u8; 16], sllao: bool) -> Vec<u8> {
    let mut m = vec![135u8, 0, 0, 0, 0, 0, 0, 0];
    m.extend_from_slice(target);
    if sllao {
        m.extend_from_slice(&lladdr_option(cfg, peer, 1));
    }
    cksum::transport_fill(src, dst, 58, &mut m, 2);
    indep::ip::build(src, dst, 58, 255, &m)
}

// ================================================================ address selection

pub fn our4(v: &View) -> Option<[u8; 4]> {
    if v.cfg.med == Med::Lowpan {
        None
    } else {
        v.cfg.v4().map(|a| a.octets())
    }
}

pub fn our6(v: &View, rng: &mut Rng) -> Option<Ipv6Address> {
    let l = v.cfg.v6();
    if l.is_empty() {
        None
    } else {
        Some(*rng.pick(&l))
    }
}

/// One of the three regular peers, or (1 in 4) a stranger with a fresh identity: many distinct
/// neighbours exercise the bounded neighbour cache.  Strangers never collide with the probe identity
/// (host numbers 100..=199, interface identifiers 1:xxxx).
pub fn pick_peer(rng: &mut Rng) -> Peer {
    if rng.chance(3, 4) {
        return *rng.pick(&PEERS);
    }
    let x = rng.u8();
    let y = rng.u8();
    Peer {
        mac: EthernetAddress([0x02, 0, 0, 0x01, x, y]),
        ext: [0x02, 0x55, 0x55, 0x55, 0x55, 0x01, x, y],
        short: [x | 0x80, y],
        v4: Ipv4Address::new(192, 168, 1, 100 + x % 100),
        ll6: Ipv6Address::new(0xfe80, 0, 0, 0, 0, 0, 1, ((x as u16) << 8) | y as u16),
        g6: Ipv6Address::new(0x2001, 0xdb8, 0, 0, 0, 0, 1, ((x as u16) << 8) | y as u16),
    }
}

/// (src, dst, peer) for unicast traffic to one of our addresses
pub fn pair(v: &View, rng: &mut Rng, want6: bool) -> Option<(Addr, Addr, Peer)> {
    let p = pick_peer(rng);
    if want6 {
        let o = our6(v, rng)?;
        let s = if v.cfg.med == Med::Lowpan && o == our_lowpan_ll6() && rng.bool() { peer_derived_ll6(&p) } else { v.cfg.peer6_for(&p, o) };
        Some((Addr::V6(s.octets()), Addr::V6(o.octets()), p))
    } else {
        let o = our4(v)?;
        Some((Addr::V4(p.v4.octets()), Addr::V4(o), p))
    }
}

pub fn peer_of(a: &Addr) -> Peer {
    for p in PEERS {
        let hit = match a {
            Addr::V4(x) => *x == p.v4.octets(),
            Addr::V6(x) => *x == p.ll6.octets() || *x == p.g6.octets() || *x == peer_derived_ll6(&p).octets(),
        };
        if hit {
            return p;
        }
    }
    PEER_A
}

/// occasionally replace the destination by a broadcast / multicast address we listen to
fn dst_variant(v: &View, rng: &mut Rng, dst: Addr) -> Addr {
    if !rng.chance(1, 6) {
        return dst;
    }
    match dst {
        Addr::V4(_) => Addr::V4(*rng.pick(&[[255, 255, 255, 255], [192, 168, 1, 255], [224, 0, 0, 1], GROUP4.octets()])),
        Addr::V6(o) => {
            let sol = [0xff, 2, 0, 0, 0, 0, 0, 0, 0, 0, 0, 1, 0xff, o[13], o[14], o[15]];
            let all = Ipv6Address::new(0xff02, 0, 0, 0, 0, 0, 0, 1).octets();
            let _ = v;
            Addr::V6(*rng.pick(&[all, sol, GROUP6.octets(), Ipv6Address::LOCALHOST.octets()]))
        }
    }
}

fn src_variant(rng: &mut Rng, src: Addr, dst: &Addr) -> Addr {
    if !rng.chance(1, 12) {
        return src;
    }
    match src {
        Addr::V4(_) => Addr::V4(*rng.pick(&[[0, 0, 0, 0], [255, 255, 255, 255], [224, 0, 0, 5], [127, 0, 0, 1], [192, 168, 1, 255], [10, 9, 8, 7], [192, 168, 1, 2]])),
        Addr::V6(_) => {
            let own = match dst {
                Addr::V6(d) => *d,
                _ => [0; 16],
            };
            Addr::V6(*rng.pick(&[[0u8; 16], Ipv6Address::LOCALHOST.octets(), Ipv6Address::new(0xff02, 0, 0, 0, 0, 0, 0, 1).octets(), own, Ipv6Address::new(0x2001, 0xdb8, 9, 9, 9, 9, 9, 9).octets()]))
        }
    }
}

fn payload_bytes(rng: &mut Rng, n: usize) -> Vec<u8> {
    let tag = rng.next_u64();
    (0..n).map(|i| crate::util::rng::stream_byte(tag, i as u64)).collect()
}

fn data_len(v: &View, rng: &mut Rng) -> usize {
    let cap = match v.cfg.med {
        Med::Lowpan => 300,
        _ => 1472,
    };
    match rng.below(10) {
        0 => 0,
        1 => 1,
        2 => rng.urange(500, cap.max(500)),
        3 => cap,
        _ => rng.urange(0, 64),
    }
}

pub fn item(v: &View, rng: &mut Rng, proto: &'static str, peer: Peer, ip: Vec<u8>) -> Item {
    let o = if v.cfg.med == Med::Lowpan && rng.chance(2, 3) { LpOpts::random(v.cfg, rng) } else { LpOpts::plain(v.cfg) };
    let frames = link_wrap(v.cfg, &peer, &ip, &o);
    let train = frames.len() > 1;
    Item { proto, peer, ip: Some(ip), frames, train }
}

/// generator 3 on 802.15.4: re-wrap with one hostile 6LoWPAN length / offset field
pub fn item_hostile_link(v: &View, rng: &mut Rng, proto: &'static str, peer: Peer, ip: Vec<u8>) -> Item {
    if v.cfg.med != Med::Lowpan {
        return item(v, rng, proto, peer, ip);
    }
    let o = LpOpts::hostile(v.cfg, rng);
    let frames = link_wrap(v.cfg, &peer, &ip, &o);
    let train = frames.len() > 1;
    Item { proto, peer, ip: Some(ip), frames, train }
}

fn link_item(proto: &'static str, peer: Peer, frames: Vec<Vec<u8>>) -> Item {
    Item { proto, peer, ip: None, frames, train: false }
}

// ================================================================ protocol builders (IP packets)

fn udp_seg(src: &Addr, dst: &Addr, sp: u16, dp: u16, data: &[u8]) -> Vec<u8> {
    let mut seg = vec![0u8; 8 + data.len()];
    put16(&mut seg, 0, sp);
    put16(&mut seg, 2, dp);
    put16(&mut seg, 4, (8 + data.len()) as u16);
    seg[8..].copy_from_slice(data);
    cksum::transport_fill(src, dst, 17, &mut seg, 6);
    seg
}

fn hop_for(rng: &mut Rng) -> u8 {
    *rng.pick(&[64u8, 64, 64, 255, 1, 0, 2])
}

pub fn udp_item(v: &View, rng: &mut Rng, want6: bool) -> Option<Item> {
    let (src, dst, peer) = pair(v, rng, want6)?;
    let dst = dst_variant(v, rng, dst);
    let src = src_variant(rng, src, &dst);
    let dp = *rng.pick(&[PORT_UDP, PORT_UDP, PORT_UDP2, 1, 68, 53, 5353, 0, 65535]);
    let sp = *rng.pick(&[40001u16, 7, 53, 5353, 0, 67]);
    let n = data_len(v, rng);
    let seg = udp_seg(&src, &dst, sp, dp, &payload_bytes(rng, n));
    let hop = hop_for(rng);
    Some(item(v, rng, if want6 { "udp6" } else { "udp4" }, peer, indep::ip::build(&src, &dst, 17, hop, &seg)))
}

fn icmp4_msg(ty: u8, code: u8, rest: [u8; 4], body: &[u8]) -> Vec<u8> {
    let mut m = vec![ty, code, 0, 0];
    m.extend_from_slice(&rest);
    m.extend_from_slice(body);
    let c = cksum::checksum(&[&m]);
    put16(&mut m, 2, c);
    m
}

fn icmp6_msg(src: &Addr, dst: &Addr, ty: u8, code: u8, rest: [u8; 4], body: &[u8]) -> Vec<u8> {
    let mut m = vec![ty, code, 0, 0];
    m.extend_from_slice(&rest);
    m.extend_from_slice(body);
    cksum::transport_fill(src, dst, 58, &mut m, 2);
    m
}

pub fn echo_item(v: &View, rng: &mut Rng, want6: bool) -> Option<Item> {
    let (src, dst, peer) = pair(v, rng, want6)?;
    let dst = dst_variant(v, rng, dst);
    let src = src_variant(rng, src, &dst);
    let reply = rng.chance(1, 4);
    let ident = if rng.bool() { ICMP_IDENT } else { rng.u16() };
    let n = data_len(v, rng);
    let data = payload_bytes(rng, n);
    let rest = [(ident >> 8) as u8, ident as u8, 0, rng.u8()];
    let hop = hop_for(rng);
    if want6 {
        let m = icmp6_msg(&src, &dst, if reply { 129 } else { 128 }, 0, rest, &data);
        Some(item(v, rng, if reply { "icmp6-echo-reply" } else { "icmp6-echo" }, peer, indep::ip::build(&src, &dst, 58, hop, &m)))
    } else {
        let m = icmp4_msg(if reply { 0 } else { 8 }, 0, rest, &data);
        Some(item(v, rng, if reply { "icmp4-echo-reply" } else { "icmp4-echo" }, peer, indep::ip::build(&src, &dst, 1, hop, &m)))
    }
}

/// a packet "of ours" to quote in an ICMP error: the newest matching packet the stack really
/// emitted, or a synthetic one from one of our bound ports
fn quoted(v: &View, rng: &mut Rng, want6: bool, our: &Addr, peer_addr: &Addr) -> Vec<u8> {
    let ver = if want6 { 6 } else { 4 };
    let real: Vec<&Vec<u8>> = v.learned.last_ip.iter().filter(|p| !p.is_empty() && p[0] >> 4 == ver).collect();
    if !real.is_empty() && rng.chance(3, 4) {
        return (*rng.pick(&real)).clone();
    }
    match rng.below(3) {
        0 => indep::ip::build(our, peer_addr, 17, 64, &udp_seg(our, peer_addr, PORT_UDP, 40001, &payload_bytes(rng, 12))),
        1 => {
            let s = indep::tcp::Seg { sport: PORT_EST, dport: PORT_EST_PEER, seq: rng.u32(), ack: rng.u32(), flags: indep::tcp::ACK, wnd: 100, ..Default::default() };
            indep::ip::build(our, peer_addr, 6, 64, &indep::tcp::build(our, peer_addr, &s))
        }
        _ => {
            let m = if want6 { icmp6_msg(our, peer_addr, 128, 0, [0x12, 0x34, 0, 1], b"ping") } else { icmp4_msg(8, 0, [0x12, 0x34, 0, 1], b"ping") };
            indep::ip::build(our, peer_addr, if want6 { 58 } else { 1 }, 64, &m)
        }
    }
}

pub fn icmp_err_item(v: &View, rng: &mut Rng, want6: bool) -> Option<Item> {
    let (src, dst, peer) = pair(v, rng, want6)?;
    let q = quoted(v, rng, want6, &dst, &src);
    // quote everything, the classic header + 8 bytes, or an awkward prefix
    let hl = if want6 { 40 } else { 20 };
    let cut = match rng.below(6) {
        0 => (hl + 8).min(q.len()),
        1 => rng.urange(0, q.len()),
        2 => hl.min(q.len()),
        _ => q.len(),
    };
    let body = &q[..cut.min(if v.cfg.med == Med::Lowpan { 200 } else { 1200 })];
    if want6 {
        let (ty, code, rest) = match rng.below(5) {
            0 => (1u8, rng.below(8) as u8, [0u8; 4]),
            1 => (2, 0, (*rng.pick(&[1280u32, 0, 68, 1500, 0xffff_ffff])).to_be_bytes()),
            2 => (3, rng.below(2) as u8, [0; 4]),
            3 => (4, rng.below(3) as u8, (rng.below(60) as u32).to_be_bytes()),
            _ => (rng.range(5, 127) as u8, rng.u8(), [0; 4]),
        };
        let m = icmp6_msg(&src, &dst, ty, code, rest, body);
        Some(item(v, rng, "icmp6-error", peer, indep::ip::build(&src, &dst, 58, 64, &m)))
    } else {
        let (ty, code, rest) = match rng.below(6) {
            0 => (3u8, rng.below(16) as u8, [0u8; 4]),
            1 => (3, 4, [0, 0, (*rng.pick(&[2u8, 0, 5])), 0x40]),
            2 => (11, rng.below(2) as u8, [0; 4]),
            3 => (12, 0, [rng.u8(), 0, 0, 0]),
            4 => (5, rng.below(4) as u8, peer.v4.octets()),
            _ => (*rng.pick(&[4u8, 13, 14, 17, 18, 42]), rng.u8(), [0; 4]),
        };
        let m = icmp4_msg(ty, code, rest, body);
        Some(item(v, rng, "icmp4-error", peer, indep::ip::build(&src, &dst, 1, 64, &m)))
    }
}

pub fn igmp_item(v: &View, rng: &mut Rng) -> Option<Item> {
    let o = our4(v)?;
    let peer = pick_peer(rng);
    let src = Addr::V4(peer.v4.octets());
    let g = GROUP4.octets();
    let (ty, resp, group, dst): (u8, u8, [u8; 4], [u8; 4]) = match rng.below(7) {
        0 => (0x11, *rng.pick(&[100u8, 1, 255, 10]), [0; 4], [224, 0, 0, 1]),
        1 => (0x11, 0, [0; 4], [224, 0, 0, 1]), // IGMPv1 general query
        2 => (0x11, *rng.pick(&[100u8, 1, 4, 255]), g, g),
        3 => (0x11, 10, g, o),
        4 => (0x16, 0, g, g),
        5 => (0x12, 0, g, g),
        _ => (0x17, 0, g, [224, 0, 0, 2]),
    };
    let mut m = vec![ty, resp, 0, 0];
    m.extend_from_slice(&group);
    let c = cksum::checksum(&[&m]);
    put16(&mut m, 2, c);
    let dst = Addr::V4(dst);
    Some(item(v, rng, "igmp", peer, indep::ip::build(&src, &dst, 2, 1, &m)))
}

pub fn arp_item(v: &View, rng: &mut Rng) -> Option<Item> {
    if v.cfg.med != Med::Eth {
        return None;
    }
    let o = our4(v).unwrap_or(OUR_V4.octets());
    let peer = pick_peer(rng);
    let op = *rng.pick(&[1u16, 1, 2, 2, 3, 0]);
    let spa = match rng.below(8) {
        0 => o,
        1 => [0, 0, 0, 0],
        2 => [10, 1, 1, 1],
        _ => {
            // a target the stack asked for, if any
            if !v.learned.arp_targets.is_empty() && rng.bool() {
                *rng.pick(&v.learned.arp_targets)
            } else {
                peer.v4.octets()
            }
        }
    };
    let tpa = if rng.chance(7, 8) { o } else { [192, 168, 1, 9] };
    let mut our = [0u8; 6];
    our.copy_from_slice(OUR_MAC.as_bytes());
    let eth_dst = if op == 1 && rng.bool() { [0xff; 6] } else { our };
    let sha = if rng.chance(1, 10) { EthernetAddress([0xff; 6]) } else { peer.mac };
    let tha = if op == 2 { our } else { [0; 6] };
    Some(link_item("arp", peer, vec![arp_frame(&peer.mac, &eth_dst, op, &sha, &spa, &tha, &tpa)]))
}

// ---------------------------------------------------------------- TCP

fn tcp_opts_random(rng: &mut Rng, syn: bool, ts_echo: Option<u32>) -> indep::tcp::Seg {
    let mut s = indep::tcp::Seg::default();
    if syn || rng.chance(1, 10) {
        if rng.chance(4, 5) {
            s.mss = Some(*rng.pick(&[1460u16, 536, 0, 1, 47, 48, 65535, 100]));
        }
        if rng.bool() {
            s.wscale = Some(*rng.pick(&[0u8, 7, 14, 15, 255]));
        }
        s.sack_perm = rng.bool();
    }
    if rng.bool() {
        s.ts = Some((rng.u32(), ts_echo.unwrap_or(0)));
    }
    s
}

/// segment for a flow the stack told us about
fn tcp_on_flow(rng: &mut Rng, f: &Flow, persona: u8) -> (indep::tcp::Seg, &'static str) {
    use indep::tcp::*;
    let mut s = tcp_opts_random(rng, false, f.ts.map(|t| t.0));
    s.sport = f.remote_port;
    s.dport = f.local_port;
    s.seq = f.rcv_nxt;
    s.ack = f.snd_nxt;
    s.flags = ACK;
    s.wnd = *rng.pick(&[4096u16, 4096, 65535, 0, 1, 100]);
    let syn_sent = f.last_flags & (SYN | ACK) == SYN;
    let kind;
    if syn_sent {
        // our socket is connecting: answer its SYN
        s.seq = 0x0200_0000;
        match rng.below(8) {
            0 => {
                s.flags = RST | ACK;
                kind = "tcp-synsent-rst";
            }
            1 => {
                s.flags = SYN;
                s.ack = 0;
                kind = "tcp-simultaneous-open";
            }
            2 => {
                s.flags = SYN | ACK;
                s.ack = f.snd_nxt.wrapping_add(*rng.pick(&[1u32, 0x8000_0000, 0xffff_ffff]));
                kind = "tcp-synack-bad-ack";
            }
            _ => {
                s.flags = SYN | ACK;
                let o = tcp_opts_random(rng, true, f.ts.map(|t| t.0));
                s.mss = o.mss;
                s.wscale = o.wscale;
                s.sack_perm = o.sack_perm;
                kind = "tcp-synack";
            }
        }
        return (s, kind);
    }
    if persona != 0 && rng.chance(5, 6) {
        s.wnd = if persona == 2 { 0 } else { 4096 };
        s.sack = vec![];
        return match rng.below(6) {
            0 | 1 => {
                let n = *rng.pick(&[1usize, 2, 10, 100]);
                s.payload = payload_bytes(rng, n);
                s.flags |= PSH;
                (s, "tcp-data")
            }
            2 if persona == 1 && rng.chance(1, 4) => {
                s.flags |= FIN;
                (s, "tcp-fin")
            }
            _ => (s, if persona == 2 { "tcp-zero-window" } else { "tcp-ack" }),
        };
    }
    match rng.below(16) {
        0 | 1 | 2 => {
            let n = *rng.pick(&[1usize, 10, 100, 536, 1000]);
            s.payload = payload_bytes(rng, n);
            s.flags |= PSH;
            kind = "tcp-data";
        }
        3 => {
            s.seq = s.seq.wrapping_add(*rng.pick(&[1u32, 100, 536, 5000, 70000]));
            s.payload = payload_bytes(rng, 50);
            kind = "tcp-data-ooo";
        }
        4 => {
            s.seq = s.seq.wrapping_sub(*rng.pick(&[1u32, 10, 1000, 0x8000_0000]));
            s.payload = payload_bytes(rng, 20);
            kind = "tcp-data-old";
        }
        5 => {
            s.flags |= FIN;
            if rng.bool() {
                s.payload = payload_bytes(rng, 5);
            }
            kind = "tcp-fin";
        }
        6 => {
            s.flags = if rng.bool() { RST } else { RST | ACK };
            s.seq = s.seq.wrapping_add(*rng.pick(&[0u32, 0, 1, 1000, 0x7fff_ffff, 0xffff_ffff]));
            kind = "tcp-rst";
        }
        7 => {
            s.flags = SYN;
            s.seq = s.seq.wrapping_add(*rng.pick(&[0u32, 0xffff_ffff, 5000]));
            kind = "tcp-syn-on-open";
        }
        8 => {
            s.ack = s.ack.wrapping_add(*rng.pick(&[1u32, 1000, 0x4000_0000, 0x8000_0000]));
            kind = "tcp-ack-future";
        }
        9 => {
            s.ack = f.snd_first.wrapping_add(*rng.pick(&[0u32, 1, 2]));
            kind = "tcp-ack-old";
        }
        10 => {
            let e = f.snd_nxt;
            s.ack = f.snd_first.wrapping_add(1);
            s.sack = vec![(e.wrapping_sub(10), e), (e.wrapping_sub(100), e.wrapping_sub(50)), (e, e.wrapping_add(10))];
            s.sack.truncate(rng.urange(1, 3));
            kind = "tcp-sack";
        }
        11 => {
            s.flags |= URG;
            s.urg = rng.u16();
            s.payload = payload_bytes(rng, 3);
            kind = "tcp-urg";
        }
        12 => {
            s.flags = *rng.pick(&[0u8, SYN | FIN, SYN | RST, FIN, 0xff, PSH]);
            kind = "tcp-odd-flags";
        }
        13 => {
            s.wnd = 0;
            kind = "tcp-zero-window";
        }
        _ => {
            kind = "tcp-ack";
        }
    }
    (s, kind)
}

pub fn tcp_item(v: &View, rng: &mut Rng, want6: bool) -> Option<Item> {
    use indep::tcp::*;
    // 1/2: a flow the stack knows; otherwise a new SYN or a stray segment
    let ver_ok = |f: &&Flow| f.remote.is_v4() != want6;
    let flows: Vec<&Flow> = v.learned.flows.iter().filter(ver_ok).collect();
    if !flows.is_empty() && rng.chance(3, 5) {
        let f = *rng.pick(&flows);
        let (seg, kind) = tcp_on_flow(rng, f, v.persona);
        let pkt = indep::ip::build(&f.remote, &f.local, 6, 64, &indep::tcp::build(&f.remote, &f.local, &seg));
        return Some(item(v, rng, kind, peer_of(&f.remote), pkt));
    }
    let (src, dst, peer) = pair(v, rng, want6)?;
    let src = src_variant(rng, src, &dst);
    if rng.chance(1, 6) {
        // hand-written option area: unknown kinds, NOPs, end-of-list (ports 49152 -> 80)
        let opts: Vec<u8> = match rng.below(4) {
            0 => vec![1, 1, 254, 4, 0xaa, 0xbb, 0, 0],
            1 => vec![2, 4, 5, 0xb4, 3, 3, 7, 4, 2, 8, 10, 0, 0, 0, 1, 0, 0, 0, 0, 1, 1, 1, 0],
            2 => vec![34, 2, 30, 4, 0, 0, 253, 6, 1, 2, 3, 4],
            _ => {
                let n = rng.urange(0, 40) / 4 * 4;
                rng.bytes(n)
            }
        };
        let seg = corpus::tcp_with_options(src.to_smol(), dst.to_smol(), &opts, b"xyz");
        return Some(item(v, rng, "tcp-raw-options", peer, indep::ip::build(&src, &dst, 6, 64, &seg)));
    }
    let mut s = tcp_opts_random(rng, true, None);
    s.sport = *rng.pick(&[40001u16, 40002, 1, 65535, PORT_EST_PEER]);
    s.dport = *rng.pick(&[PORT_LISTEN, PORT_LISTEN, PORT_LISTEN, PORT_EST, PORT_CONN_LOCAL, 81, 0]);
    // (the last two put the receive window of the new connection across 2^31 and across 2^32)
    let (below_31, below_32) = (0x7fff_ffff - rng.below(1500) as u32, 0xffff_ffff - rng.below(1500) as u32);
    s.seq = *rng.pick(&[0u32, 1, 0x7fff_ffff, 0xffff_ffff, 0x1234_5678, below_31, below_32]);
    s.wnd = *rng.pick(&[4096u16, 0, 65535, 1]);
    let kind;
    match rng.below(8) {
        0 => {
            s.flags = ACK;
            s.ack = rng.u32();
            kind = "tcp-stray-ack";
        }
        1 => {
            s.flags = SYN | FIN;
            kind = "tcp-syn-fin";
        }
        2 => {
            s.flags = SYN;
            s.payload = payload_bytes(rng, 30);
            kind = "tcp-syn-data";
        }
        3 => {
            s.flags = RST;
            kind = "tcp-stray-rst";
        }
        _ => {
            s.flags = SYN;
            kind = "tcp-syn";
        }
    }
    Some(item(v, rng, kind, peer, indep::ip::build(&src, &dst, 6, 64, &indep::tcp::build(&src, &dst, &s))))
}

// ---------------------------------------------------------------- DHCP / DNS

pub fn dhcp_item(v: &View, rng: &mut Rng) -> Option<Item> {
    if v.cfg.med != Med::Eth {
        return None;
    }
    let o = our4(v)?;
    let peer = pick_peer(rng);
    let xid = match (v.learned.dhcp_xid, rng.chance(9, 10)) {
        (Some(x), true) => x,
        _ => rng.u32(),
    };
    // the reply the client is waiting for, mostly
    let expected = match v.learned.dhcp_type {
        1 => 2u8, // DISCOVER -> OFFER
        3 => 5,   // REQUEST -> ACK
        _ => 2,
    };
    let mt = if rng.chance(2, 3) { expected } else { *rng.pick(&[2u8, 5, 6, 1, 3, 8, 0, 99]) };
    let mut m = vec![0u8; 240];
    m[0] = 2; // BOOTREPLY
    m[1] = 1;
    m[2] = 6;
    put32(&mut m, 4, xid);
    let your = match rng.below(6) {
        0 => [0, 0, 0, 0],
        1 => [255, 255, 255, 255],
        2 => [224, 0, 0, 9],
        _ => v.learned.dhcp_requested.unwrap_or([192, 168, 1, 50]),
    };
    m[16..20].copy_from_slice(&your);
    m[20..24].copy_from_slice(&peer.v4.octets());
    m[28..34].copy_from_slice(if rng.chance(9, 10) { OUR_MAC.as_bytes() } else { peer.mac.as_bytes() });
    m[236..240].copy_from_slice(&[0x63, 0x82, 0x53, 0x63]);
    let mut opt = |k: u8, d: &[u8]| {
        m.push(k);
        m.push(d.len() as u8);
        m.extend_from_slice(d);
    };
    opt(53, &[mt]);
    if rng.chance(9, 10) {
        opt(54, &peer.v4.octets());
    }
    if rng.chance(4, 5) {
        let mask: [u8; 4] = *rng.pick(&[[255u8, 255, 255, 0], [255, 255, 255, 255], [0, 0, 0, 0], [255, 0, 255, 0], [128, 0, 0, 0]]);
        opt(1, &mask);
    }
    if rng.chance(2, 3) {
        opt(3, &peer.v4.octets());
    }
    if rng.chance(2, 3) {
        let lease: u32 = *rng.pick(&[1u32, 2, 10, 60, 3600, 0, 0xffff_ffff, 0x7fff_ffff]);
        opt(51, &lease.to_be_bytes());
    }
    if rng.chance(1, 3) {
        let t1: u32 = *rng.pick(&[0u32, 1, 5, 30, 0xffff_ffff]);
        opt(58, &t1.to_be_bytes());
    }
    if rng.chance(1, 3) {
        let t2: u32 = *rng.pick(&[0u32, 2, 8, 50, 0xffff_ffff]);
        opt(59, &t2.to_be_bytes());
    }
    if rng.bool() {
        let n = rng.urange(1, 5);
        let mut d = Vec::new();
        for i in 0..n {
            d.extend_from_slice(&[if i == 1 { 0 } else { 8 }, 8, i as u8, 8]);
        }
        opt(6, &d);
    }
    if rng.chance(1, 4) {
        opt(12, b"a-host-name");
    }
    m.push(255);
    if rng.chance(1, 4) {
        m.resize(m.len() + rng.urange(1, 60), 0);
    }
    let src = Addr::V4(peer.v4.octets());
    let dst = Addr::V4(if rng.bool() { [255, 255, 255, 255] } else if rng.bool() { o } else { your });
    let seg = udp_seg(&src, &dst, 67, 68, &m);
    let ip = indep::ip::build(&src, &dst, 17, 64, &seg);
    // a DHCP server answers to the client's MAC or broadcasts
    let mut our = [0u8; 6];
    our.copy_from_slice(OUR_MAC.as_bytes());
    let eth_dst = if rng.bool() { our } else { [0xff; 6] };
    let frame = eth_wrap(&peer.mac, &eth_dst, 0x0800, &ip);
    Some(Item { proto: "dhcp", peer, ip: Some(ip), frames: vec![frame], train: false })
}

fn dns_answers(rng: &mut Rng, qlen: usize) -> (u16, Vec<u8>) {
    // owner names are pointers to the question name at offset 12
    let mut v = Vec::new();
    let mut n = 0u16;
    let ptr = [0xc0u8, 12];
    let _ = qlen;
    for _ in 0..rng.urange(0, 4) {
        match rng.below(5) {
            0 => v.extend_from_slice(&corpus::dns_rr(&ptr, 1, &[93, 184, 216, rng.u8()])),
            1 => v.extend_from_slice(&corpus::dns_rr(&ptr, 28, &corpus::V6G.octets())),
            2 => v.extend_from_slice(&corpus::dns_rr(&ptr, 5, b"\x04host\xc0\x10")),
            3 => v.extend_from_slice(&corpus::dns_rr(&ptr, 5, &ptr)), // CNAME to itself
            _ => v.extend_from_slice(&corpus::dns_rr(b"\x05other\x00", 16, b"\x03txt")),
        }
        n += 1;
    }
    (n, v)
}

pub fn dns_item(v: &View, rng: &mut Rng) -> Option<Item> {
    // answer a query the stack really sent, if we saw one
    let known: Vec<&(u16, u16, Addr, Vec<u8>)> = v.learned.dns.iter().collect();
    let (port, txid, server, question) = if !known.is_empty() && rng.chance(5, 6) {
        let k = *rng.pick(&known);
        (k.0, k.1, k.2, k.3.clone())
    } else {
        let w6 = our4(v).is_none() || rng.bool();
        let (s, _, _) = pair(v, rng, w6)?;
        let mut q = corpus::NAME_EXAMPLE.to_vec();
        q.extend_from_slice(&[0, 1, 0, 1]);
        (*rng.pick(&[49152u16, 5353, 53]), rng.u16(), s, q)
    };
    let want6 = !server.is_v4();
    let ours: Addr = if want6 { Addr::V6(our6(v, rng)?.octets()) } else { Addr::V4(our4(v)?) };
    let mdns = match server {
        Addr::V4(a) => a == [224, 0, 0, 251],
        Addr::V6(a) => a[0] == 0xff,
    };
    let (src, sport, peer) = if mdns {
        let p = pick_peer(rng);
        let a = if want6 { Addr::V6(v.cfg.peer6_for(&p, match ours { Addr::V6(o) => Ipv6Address::from(o), _ => OUR_LL6 }).octets()) } else { Addr::V4(p.v4.octets()) };
        (a, 5353u16, p)
    } else {
        (server, 53u16, peer_of(&server))
    };
    let dst = if mdns && rng.bool() { server } else { ours };
    let mut body: Vec<u8>;
    match rng.below(6) {
        0 => {
            body = hostile::dns_random(rng);
        }
        1 => {
            let sys = hostile::dns_systematic();
            body = sys[rng.usize_below(sys.len())].clone();
        }
        _ => {
            let (an, answers) = dns_answers(rng, question.len());
            let flags: u16 = *rng.pick(&[0x8180u16, 0x8180, 0x8180, 0x8183, 0x0100, 0x8580, 0xf980]);
            body = Vec::new();
            body.extend_from_slice(&[0, 0]);
            body.extend_from_slice(&flags.to_be_bytes());
            body.extend_from_slice(&(*rng.pick(&[1u16, 1, 1, 0, 2])).to_be_bytes());
            body.extend_from_slice(&an.to_be_bytes());
            body.extend_from_slice(&[0, 0, 0, 0]);
            body.extend_from_slice(&question);
            body.extend_from_slice(&answers);
        }
    }
    if body.len() >= 2 && rng.chance(9, 10) {
        put16(&mut body, 0, txid);
    }
    if v.cfg.med == Med::Lowpan {
        body.truncate(400);
    }
    let seg = udp_seg(&src, &dst, sport, port, &body);
    Some(item(v, rng, if mdns { "mdns" } else { "dns" }, peer, indep::ip::build(&src, &dst, 17, 64, &seg)))
}

// ---------------------------------------------------------------- IPv4 specials

/// split an IPv4 packet (20-byte header) into fragments
pub fn frag4(rng: &mut Rng, ip: &[u8], ident: u16) -> Vec<Vec<u8>> {
    if ip.len() < 28 || ip[0] != 0x45 {
        return vec![ip.to_vec()];
    }
    let mut s = [0u8; 4];
    let mut d = [0u8; 4];
    s.copy_from_slice(&ip[12..16]);
    d.copy_from_slice(&ip[16..20]);
    let payload = &ip[20..];
    let pieces = rng.urange(2, 5);
    let unit = ((payload.len() / pieces) / 8 * 8).max(8);
    let mut out = Vec::new();
    let mut off = 0;
    while off < payload.len() {
        let n = unit.min(payload.len() - off);
        let last = off + n >= payload.len();
        out.push(indep::ip::build_v4(&s, &d, ip[9], ip[8], ident, false, !last, off, &payload[off..off + n]));
        off += n;
    }
    match rng.below(6) {
        0 => out.reverse(),
        1 => rng.shuffle(&mut out),
        2 => {
            let k = rng.usize_below(out.len());
            let f = out[k].clone();
            out.push(f);
        }
        3 if out.len() > 2 => {
            // overlapping middle fragment: one unit earlier, same length
            let k = 1;
            let f = &out[k];
            let o = (indep::be16(f, 6) & 0x1fff) as usize * 8;
            let body = f[20..].to_vec();
            out[k] = indep::ip::build_v4(&s, &d, ip[9], ip[8], ident, false, true, o.saturating_sub(8), &body);
        }
        4 => {
            // the last fragment never arrives
            out.pop();
        }
        _ => {}
    }
    out
}

pub fn frag4_item(v: &View, rng: &mut Rng) -> Option<Item> {
    let base = match rng.below(3) {
        0 => udp_item(v, rng, false)?,
        1 => echo_item(v, rng, false)?,
        _ => tcp_item(v, rng, false)?,
    };
    let ip = base.ip?;
    let ident = rng.u16();
    let frags = frag4(rng, &ip, ident);
    let mut frames = Vec::new();
    for f in &frags {
        frames.extend(link_wrap_plain(v.cfg, &base.peer, f));
    }
    Some(Item { proto: "ipv4-fragments", peer: base.peer, ip: None, frames, train: true })
}

pub fn ip4_special_item(v: &View, rng: &mut Rng) -> Option<Item> {
    let (src, dst, peer) = pair(v, rng, false)?;
    let (Addr::V4(s), Addr::V4(d)) = (src, dst) else { return None };
    match rng.below(3) {
        0 => {
            // options: NOP, record route, timestamp, end
            let opts: Vec<u8> = match rng.below(3) {
                0 => vec![1, 1, 1, 0],
                1 => vec![7, 7, 4, 0, 0, 0, 0, 0],
                _ => vec![68, 8, 5, 0, 0, 0, 0, 0, 148, 4, 0, 0],
            };
            let inner = udp_seg(&src, &dst, 40001, PORT_UDP, b"with ip options");
            let mut p = corpus::ipv4_raw(IpProtocol::Udp, &opts, false, 0, &inner);
            p[12..16].copy_from_slice(&s);
            p[16..20].copy_from_slice(&d);
            put16(&mut p, 10, 0);
            let hl = 20 + opts.len();
            let c = cksum::checksum(&[&p[..hl]]);
            put16(&mut p, 10, c);
            Some(item(v, rng, "ipv4-options", peer, p))
        }
        1 => {
            let proto = *rng.pick(&[253u8, 47, 50, 132, 255, 0, 4, 41]);
            let n = data_len(v, rng);
            let body = payload_bytes(rng, n);
            Some(item(v, rng, "ipv4-unknown-proto", peer, indep::ip::build(&src, &dst, proto, 64, &body)))
        }
        _ => {
            // DF set, odd identification, TTL 0/1
            let inner = udp_seg(&src, &dst, 40001, PORT_UDP, b"df");
            let ttl = *rng.pick(&[0u8, 1, 255]);
            let ident = rng.u16();
            Some(item(v, rng, "ipv4-df-ttl", peer, indep::ip::build_v4(&s, &d, 17, ttl, ident, true, false, 0, &inner)))
        }
    }
}

// ---------------------------------------------------------------- NDISC / MLD / IPv6 extension headers

fn ndisc_options(v: &View, rng: &mut Rng, peer: &Peer, quoted_pkt: &[u8]) -> Vec<u8> {
    let mut o = Vec::new();
    for _ in 0..rng.urange(0, 4) {
        match rng.below(7) {
            0 => o.extend_from_slice(&lladdr_option(v.cfg, peer, 1)),
            1 => o.extend_from_slice(&lladdr_option(v.cfg, peer, 2)),
            2 => {
                let mut p = vec![3u8, 4, *rng.pick(&[64u8, 0, 128, 129, 255]), 0xc0];
                p.extend_from_slice(&(*rng.pick(&[86400u32, 0, 0xffff_ffff])).to_be_bytes());
                p.extend_from_slice(&(*rng.pick(&[14400u32, 0, 0xffff_ffff])).to_be_bytes());
                p.extend_from_slice(&[0; 4]);
                p.extend_from_slice(&Ipv6Address::new(0x2001, 0xdb8, 0, 1, 0, 0, 0, 0).octets());
                o.extend_from_slice(&p);
            }
            3 => {
                let q = &quoted_pkt[..quoted_pkt.len().min(80) / 8 * 8];
                let mut p = vec![4u8, (1 + q.len() / 8) as u8, 0, 0, 0, 0, 0, 0];
                p.extend_from_slice(q);
                o.extend_from_slice(&p);
            }
            4 => {
                let mut p = vec![5u8, 1, 0, 0];
                p.extend_from_slice(&(*rng.pick(&[1500u32, 1280, 0, 1, 0xffff_ffff])).to_be_bytes());
                o.extend_from_slice(&p);
            }
            5 => {
                // source link-layer address of the other width (8 bytes on Ethernet, 6 on 802.15.4)
                if v.cfg.med == Med::Lowpan {
                    o.extend_from_slice(&[1, 1, 2, 0, 0, 0, 0, 9]);
                } else {
                    o.extend_from_slice(&[1, 2, 2, 0x11, 0x22, 0x33, 0x44, 0x55, 0x66, 0x77, 0, 0, 0, 0, 0, 0]);
                }
            }
            _ => {
                let units = rng.urange(1, 3);
                let mut p = vec![*rng.pick(&[0x20u8, 24, 25, 31, 0, 255]), units as u8];
                p.resize(units * 8, 0x99);
                o.extend_from_slice(&p);
            }
        }
    }
    o
}

pub fn ndisc_item(v: &View, rng: &mut Rng) -> Option<Item> {
    let (src, dst, peer) = pair(v, rng, true)?;
    let Addr::V6(our) = dst else { return None };
    let Addr::V6(ps) = src else { return None };
    let sol = Addr::V6([0xff, 2, 0, 0, 0, 0, 0, 0, 0, 0, 0, 1, 0xff, our[13], our[14], our[15]]);
    let all = Addr::V6(Ipv6Address::new(0xff02, 0, 0, 0, 0, 0, 0, 1).octets());
    let q = quoted(v, rng, true, &dst, &src);
    let opts = ndisc_options(v, rng, &peer, &q);
    let (mut m, to, label): (Vec<u8>, Addr, &'static str) = match rng.below(8) {
        0 => (vec![133, 0, 0, 0, 0, 0, 0, 0], if rng.bool() { all } else { dst }, "ndisc-rs"),
        1 => {
            let mut m = vec![134u8, 0, 0, 0, *rng.pick(&[64u8, 0, 255]), *rng.pick(&[0u8, 0x80, 0xc0])];
            m.extend_from_slice(&(*rng.pick(&[1800u16, 0, 65535])).to_be_bytes());
            m.extend_from_slice(&(*rng.pick(&[0u32, 900, 0xffff_ffff])).to_be_bytes());
            m.extend_from_slice(&(*rng.pick(&[0u32, 901, 0xffff_ffff])).to_be_bytes());
            (m, if rng.bool() { all } else { dst }, "ndisc-ra")
        }
        2 | 3 => {
            let mut m = vec![135u8, 0, 0, 0, 0, 0, 0, 0];
            let target = match rng.below(6) {
                0 => [0u8; 16],
                1 => Ipv6Address::new(0xff02, 0, 0, 0, 0, 0, 0, 1).octets(),
                2 => ps,
                _ => our,
            };
            m.extend_from_slice(&target);
            (m, if rng.bool() { sol } else { dst }, "ndisc-ns")
        }
        4 | 5 => {
            let mut m = vec![136u8, 0, 0, 0, *rng.pick(&[0x60u8, 0x40, 0x20, 0xe0, 0]), 0, 0, 0];
            // advertise the peer itself, a target the stack solicited, or our own address
            let target = if !v.learned.ns_targets.is_empty() && rng.bool() {
                *rng.pick(&v.learned.ns_targets)
            } else if rng.chance(1, 6) {
                our
            } else {
                ps
            };
            m.extend_from_slice(&target);
            (m, if rng.chance(1, 4) { all } else { dst }, "ndisc-na")
        }
        _ => {
            let mut m = vec![137u8, 0, 0, 0, 0, 0, 0, 0];
            m.extend_from_slice(&PEER_D.ll6.octets());
            m.extend_from_slice(&corpus::V6G.octets());
            (m, dst, "ndisc-redirect")
        }
    };
    m.extend_from_slice(&opts);
    // NA towards a solicited target comes from that target
    let src = if label == "ndisc-na" && rng.bool() {
        let mut t = [0u8; 16];
        t.copy_from_slice(&m[8..24]);
        if t[0] != 0xff && t != [0u8; 16] {
            Addr::V6(t)
        } else {
            src
        }
    } else if label == "ndisc-ns" && rng.chance(1, 8) {
        Addr::V6([0; 16]) // duplicate address detection
    } else {
        src
    };
    cksum::transport_fill(&src, &to, 58, &mut m, 2);
    let hop = if rng.chance(9, 10) { 255 } else { 64 };
    Some(item(v, rng, label, peer, indep::ip::build(&src, &to, 58, hop, &m)))
}

/// hop-by-hop header with router alert + PadN, next header ICMPv6 (what MLD messages carry)
fn hbh_router_alert(next: u8) -> Vec<u8> {
    vec![next, 0, 5, 2, 0, 0, 1, 0]
}

pub fn mld_item(v: &View, rng: &mut Rng) -> Option<Item> {
    let peer = pick_peer(rng);
    let our = our6(v, rng)?;
    let o = our.octets();
    let src = Addr::V6(if rng.chance(9, 10) { peer.ll6.octets() } else { peer.g6.octets() });
    let all = Ipv6Address::new(0xff02, 0, 0, 0, 0, 0, 0, 1).octets();
    let sol = [0xff, 2, 0, 0, 0, 0, 0, 0, 0, 0, 0, 1, 0xff, o[13], o[14], o[15]];
    let (m, dst, label): (Vec<u8>, [u8; 16], &'static str) = if rng.chance(3, 4) {
        // query: general, or specific for a group the interface listens to
        let (mcast, dst) = match rng.below(7) {
            // an address of the wrong class in the group field: our own unicast address
            6 => (o, o),
            0 | 1 => ([0u8; 16], all),
            2 => (all, all),
            3 => (sol, sol),
            4 => (GROUP6.octets(), GROUP6.octets()),
            _ => ([0u8; 16], o),
        };
        let mut m = vec![130u8, 0, 0, 0];
        m.extend_from_slice(&(*rng.pick(&[0u16, 1, 100, 1000, 0x8000, 0xffff])).to_be_bytes());
        m.extend_from_slice(&[0, 0]);
        m.extend_from_slice(&mcast);
        m.push(*rng.pick(&[2u8, 0x0a, 0]));
        m.push(125);
        let nsrc = rng.urange(0, 2);
        m.extend_from_slice(&(nsrc as u16).to_be_bytes());
        for _ in 0..nsrc {
            m.extend_from_slice(&corpus::V6G.octets());
        }
        (m, dst, "mld-query")
    } else {
        let mut m = vec![143u8, 0, 0, 0, 0, 0, 0, 1, 4, 0, 0, 0];
        m.extend_from_slice(&GROUP6.octets());
        (m, Ipv6Address::new(0xff02, 0, 0, 0, 0, 0, 0, 0x16).octets(), "mld-report")
    };
    let dst = Addr::V6(dst);
    let mut m = m;
    cksum::transport_fill(&src, &dst, 58, &mut m, 2);
    let hop = if rng.chance(9, 10) { 1 } else { 64 };
    let ip = if rng.chance(2, 3) {
        let mut pl = hbh_router_alert(58);
        pl.extend_from_slice(&m);
        indep::ip::build(&src, &dst, 0, hop, &pl)
    } else {
        indep::ip::build(&src, &dst, 58, hop, &m)
    };
    Some(item(v, rng, label, peer, ip))
}

pub fn ip6_ext_item(v: &View, rng: &mut Rng) -> Option<Item> {
    let (src, dst, peer) = pair(v, rng, true)?;
    let dst = dst_variant(v, rng, dst);
    let upper_udp = udp_seg(&src, &dst, 40001, PORT_UDP, b"behind extension headers");
    let upper_icmp = icmp6_msg(&src, &dst, 128, 0, [0x12, 0x34, 0, 9], b"ext");
    let (upper_proto, upper) = if rng.bool() { (17u8, upper_udp) } else { (58u8, upper_icmp) };
    let (first, chain, label): (u8, Vec<u8>, &'static str) = match rng.below(7) {
        0 | 1 => {
            // hop-by-hop options with every action for unknown options
            let opt: Vec<u8> = match rng.below(6) {
                0 => vec![1, 4, 0, 0, 0, 0],
                1 => vec![0x3e, 4, 1, 2, 3, 4],
                2 => vec![0x7e, 4, 1, 2, 3, 4],
                3 => vec![0xbe, 4, 1, 2, 3, 4],
                4 => vec![0xfe, 4, 1, 2, 3, 4],
                _ => vec![5, 2, 0, 0, 1, 2, 0, 0],
            };
            let mut h = vec![upper_proto, 0];
            h.extend_from_slice(&opt);
            while h.len() % 8 != 0 {
                h.push(0);
            }
            h[1] = (h.len() / 8 - 1) as u8;
            (0, h, "ipv6-hbh")
        }
        2 => (60, vec![upper_proto, 0, 1, 4, 0, 0, 0, 0], "ipv6-dstopts"),
        3 => {
            let mut h = vec![upper_proto, 2, 2, 1, 0, 0, 0, 0];
            h.extend_from_slice(&corpus::V6G.octets());
            (43, h, "ipv6-routing")
        }
        4 => {
            let mut h = vec![upper_proto, 0];
            h.extend_from_slice(&(*rng.pick(&[0u16, 1, 8, 0xfff9])).to_be_bytes());
            h.extend_from_slice(&rng.u32().to_be_bytes());
            (44, h, "ipv6-fragment")
        }
        5 => (*rng.pick(&[59u8, 253, 51, 50, 135, 139]), vec![], "ipv6-unknown-next-header"),
        _ => {
            // hop-by-hop followed by destination options
            let mut h = vec![60u8, 0, 1, 4, 0, 0, 0, 0];
            h.extend_from_slice(&[upper_proto, 0, 1, 4, 0, 0, 0, 0]);
            (0, h, "ipv6-hbh-dstopts")
        }
    };
    let mut pl = chain;
    pl.extend_from_slice(&upper);
    Some(item(v, rng, label, peer, indep::ip::build(&src, &dst, first, 64, &pl)))
}

// ---------------------------------------------------------------- corpus entries as frames

/// A corpus packet presented on this medium (the corpus is addressed A -> B and we are B).
pub fn corpus_item(v: &View, rng: &mut Rng) -> Option<Item> {
    let c = corpus::corpus();
    let p = &c[rng.usize_below(c.len())];
    let cfg = v.cfg;
    let a4 = Addr::V4(V4A_O);
    let b4 = Addr::V4(OUR_V4.octets());
    let a6 = Addr::V6(PEER_A.ll6.octets());
    let b6 = Addr::V6(OUR_LL6.octets());
    let as_ip: Option<Vec<u8>> = match p.layer {
        "Ipv4Packet" | "Ipv6Packet" => Some(p.bytes.clone()),
        "UdpPacket" => Some(if p.name.contains('6') { indep::ip::build(&a6, &b6, 17, 64, &p.bytes) } else { indep::ip::build(&a4, &b4, 17, 64, &p.bytes) }),
        "TcpPacket" => Some(if p.name.contains("tcp6") { indep::ip::build(&a6, &b6, 6, 64, &p.bytes) } else { indep::ip::build(&a4, &b4, 6, 64, &p.bytes) }),
        "Icmpv4Packet" => Some(indep::ip::build(&a4, &b4, 1, 64, &p.bytes)),
        "IgmpPacket" => Some(indep::ip::build(&a4, &Addr::V4(GROUP4.octets()), 2, 1, &p.bytes)),
        "Icmpv6Packet" => Some(indep::ip::build(&a6, &b6, 58, 255, &p.bytes)),
        "DhcpPacket" => Some(indep::ip::build(&a4, &b4, 17, 64, &udp_seg(&a4, &b4, 67, 68, &p.bytes))),
        "DnsPacket" => Some(indep::ip::build(&a4, &b4, 17, 64, &udp_seg(&a4, &b4, 53, 49152, &p.bytes))),
        _ => None,
    };
    if let Some(ip) = as_ip {
        let v6 = ip[0] >> 4 == 6;
        if cfg.med == Med::Lowpan && !v6 {
            return None;
        }
        return Some(item(v, rng, "corpus-ip", PEER_A, ip));
    }
    match (cfg.med, p.layer) {
        (Med::Eth, "EthernetFrame") => Some(link_item("corpus-eth", PEER_A, vec![p.bytes.clone()])),
        (Med::Eth, "ArpPacket") => Some(link_item("corpus-arp", PEER_A, vec![corpus::eth(EthernetProtocol::Arp, &p.bytes)])),
        (Med::Lowpan, "Ieee802154Frame") => Some(link_item("corpus-802154", PEER_A, vec![p.bytes.clone()])),
        (Med::Lowpan, "SixlowpanIphcPacket") | (Med::Lowpan, "SixlowpanFragPacket") => Some(link_item("corpus-6lowpan", PEER_A, vec![lowpan_raw_frame(cfg, &PEER_A, &p.bytes)])),
        (Med::Lowpan, "SixlowpanUdpNhcPacket") | (Med::Lowpan, "SixlowpanExtHeaderPacket") => {
            // behind an IPHC header that announces a compressed next header
            let mut pl = corpus::iphc_raw(3, 1, 2, 0, 0, 3, 0, 0, 3, &[]);
            pl.extend_from_slice(&p.bytes);
            Some(link_item("corpus-nhc", PEER_A, vec![lowpan_raw_frame(cfg, &PEER_A, &pl)]))
        }
        _ => None,
    }
}

const V4A_O: [u8; 4] = [192, 168, 1, 1];

/// a burst of ARP requests / neighbour solicitations from distinct strangers (more than the
/// neighbour cache holds)
pub fn neighbor_flood_item(v: &View, rng: &mut Rng) -> Option<Item> {
    if v.cfg.med == Med::Ip {
        return None;
    }
    let n = rng.urange(6, 14);
    let mut frames = Vec::new();
    let mut last = PEER_A;
    for _ in 0..n {
        let p = loop {
            let p = pick_peer(rng);
            if !PEERS.iter().any(|q| q.v4 == p.v4) {
                break p;
            }
        };
        last = p;
        let use6 = our4(v).is_none() || (!v.cfg.v6().is_empty() && rng.bool());
        if use6 {
            let o = our6(v, rng)?;
            let (src, dst) = (Addr::V6(v.cfg.peer6_for(&p, o).octets()), Addr::V6(o.octets()));
            frames.extend(neighbor_intro(v.cfg, &p, &src, &dst));
        } else {
            let o = our4(v)?;
            frames.extend(neighbor_intro(v.cfg, &p, &Addr::V4(p.v4.octets()), &Addr::V4(o)));
        }
    }
    Some(Item { proto: "neighbor-flood", peer: last, ip: None, frames, train: false })
}

// ================================================================ generator (2): valid frames

pub fn valid(v: &View, rng: &mut Rng) -> Item {
    for _ in 0..64 {
        let has4 = our4(v).is_some();
        let has6 = !v.cfg.v6().is_empty();
        let w6 = if has4 && has6 { rng.bool() } else { has6 };
        let it = match rng.below(21) {
            20 if rng.bool() => neighbor_flood_item(v, rng),
            0 => arp_item(v, rng),
            1 => udp_item(v, rng, w6),
            2 => echo_item(v, rng, w6),
            3 => icmp_err_item(v, rng, w6),
            4 => igmp_item(v, rng),
            5 | 6 | 7 | 8 => tcp_item(v, rng, w6),
            9 => dhcp_item(v, rng),
            10 | 11 => dns_item(v, rng),
            12 => frag4_item(v, rng),
            13 => ip4_special_item(v, rng),
            14 | 15 => ndisc_item(v, rng),
            16 => mld_item(v, rng),
            17 => ip6_ext_item(v, rng),
            _ => corpus_item(v, rng),
        };
        if let Some(it) = it {
            if !it.frames.is_empty() {
                return it;
            }
        }
    }
    // cannot happen: the corpus offers something for every medium
    link_item("none", PEER_A, vec![vec![0u8; 1]])
}

// ================================================================ generator (1): arbitrary bytes

pub fn arbitrary(v: &View, rng: &mut Rng) -> Item {
    let n = match rng.below(8) {
        0 => rng.urange(0, 4),
        1 => v.cfg.mtu,
        2 => v.cfg.mtu + rng.urange(1, 64),
        3 => rng.urange(0, 64),
        _ => rng.urange(0, v.cfg.mtu + 64),
    };
    let mut f = rng.bytes(n);
    let mut label = "bytes";
    if rng.bool() {
        // arbitrary bytes behind a link header that passes the address filter
        label = "bytes-behind-link-header";
        match v.cfg.med {
            Med::Eth => {
                if f.len() >= 14 {
                    f[0..6].copy_from_slice(OUR_MAC.as_bytes());
                    let et: u16 = *rng.pick(&[0x0800u16, 0x0800, 0x86dd, 0x86dd, 0x0806]);
                    put16(&mut f, 12, et);
                    if f.len() > 15 && rng.bool() {
                        f[14] = if et == 0x86dd { 0x60 } else { 0x45 };
                    }
                }
            }
            Med::Ip => {
                if !f.is_empty() {
                    f[0] = if rng.bool() { 0x45 } else { 0x60 | (f[0] & 0x0f) };
                }
            }
            Med::Lowpan => {
                let (mac, _, _) = mac154(&pick_peer(rng), &LpOpts::random(v.cfg, rng), false);
                let mut g = mac;
                if !f.is_empty() {
                    f[0] = match rng.below(4) {
                        0 => 0x60 | (f[0] & 0x1f),
                        1 => 0xc0 | (f[0] & 0x07),
                        2 => 0xe0 | (f[0] & 0x07),
                        _ => 0x7f & f[0] | 0x60,
                    };
                }
                g.extend_from_slice(&f);
                g.truncate(v.cfg.mtu + 64);
                f = g;
            }
        }
    }
    link_item(label, PEER_A, vec![f])
}

// ================================================================ generator (4): replies to the stack's own frames

/// A reply (well-formed or hostile) to one frame the stack has just emitted.
pub fn reply_to(v: &View, rng: &mut Rng, tx: &[u8]) -> Option<Item> {
    let cfg = v.cfg;
    let ip: Vec<u8> = match cfg.med {
        Med::Eth => {
            if tx.len() < 14 {
                return None;
            }
            let et = indep::be16(tx, 12);
            if et == 0x0806 && tx.len() >= 42 && indep::be16(tx, 20) == 1 {
                // answer the ARP request
                let mut tpa = [0u8; 4];
                tpa.copy_from_slice(&tx[38..42]);
                let mut spa = [0u8; 4];
                spa.copy_from_slice(&tx[28..32]);
                let peer = peer_of(&Addr::V4(tpa));
                let mut our = [0u8; 6];
                our.copy_from_slice(OUR_MAC.as_bytes());
                return Some(link_item("reply:arp", peer, vec![arp_frame(&peer.mac, &our, 2, &peer.mac, &tpa, &our, &spa)]));
            }
            tx[14..].to_vec()
        }
        Med::Ip => tx.to_vec(),
        Med::Lowpan => crate::util::run::catch(|| lowpan_decode(tx)).ok().flatten()?,
    };
    let info = indep::ip::parse(&ip, false).ok()?;
    let want6 = !info.src.is_v4();
    let end = (info.payload_off + info.payload_len).min(ip.len());
    let pl = &ip[info.payload_off.min(end)..end];
    let peer = peer_of(&info.dst);
    match info.proto {
        58 if pl.len() >= 24 && pl[0] == 135 => {
            // neighbour advertisement for the solicited target
            let mut t = [0u8; 16];
            t.copy_from_slice(&pl[8..24]);
            let p = peer_of(&Addr::V6(t));
            let src = Addr::V6(t);
            let dst = info.src;
            let mut m = vec![136u8, 0, 0, 0, 0x60, 0, 0, 0];
            m.extend_from_slice(&t);
            m.extend_from_slice(&lladdr_option(cfg, &p, 2));
            cksum::transport_fill(&src, &dst, 58, &mut m, 2);
            Some(item(v, rng, "reply:ndisc-na", p, indep::ip::build(&src, &dst, 58, 255, &m)))
        }
        6 => {
            let seg = indep::tcp::parse(&info.src, &info.dst, pl).ok()?;
            let f = v.learned.flows.iter().find(|f| f.local_port == seg.sport && f.remote_port == seg.dport && f.remote == info.dst)?;
            if rng.chance(1, 5) {
                let q = &ip[..ip.len().min(if want6 { 120 } else { 28 + rng.urange(0, 40) })];
                return Some(icmp_quote(v, rng, &info.dst, &info.src, q, peer));
            }
            let (s, kind) = tcp_on_flow(rng, f, v.persona);
            let pkt = indep::ip::build(&f.remote, &f.local, 6, 64, &indep::tcp::build(&f.remote, &f.local, &s));
            let mut it = item(v, rng, kind, peer, pkt);
            it.proto = match kind {
                "tcp-synack" => "reply:tcp-synack",
                "tcp-ack" => "reply:tcp-ack",
                "tcp-data" => "reply:tcp-data",
                "tcp-fin" => "reply:tcp-fin",
                "tcp-rst" => "reply:tcp-rst",
                "tcp-sack" => "reply:tcp-sack",
                "tcp-zero-window" => "reply:tcp-zero-window",
                _ => "reply:tcp-other",
            };
            Some(it)
        }
        17 if pl.len() >= 8 => {
            let (sp, dp) = (indep::be16(pl, 0), indep::be16(pl, 2));
            if sp == 68 && dp == 67 {
                let mut it = dhcp_item(v, rng)?;
                it.proto = "reply:dhcp";
                Some(it)
            } else if dp == 53 || dp == 5353 {
                let mut it = dns_item(v, rng)?;
                it.proto = "reply:dns";
                Some(it)
            } else {
                let q = &ip[..ip.len().min(if want6 { 200 } else { 28 + rng.urange(0, 64) })];
                Some(icmp_quote(v, rng, &info.dst, &info.src, q, peer))
            }
        }
        2 => {
            let mut it = igmp_item(v, rng)?;
            it.proto = "reply:igmp-query";
            Some(it)
        }
        58 if !pl.is_empty() && pl[0] == 143 => {
            let mut it = mld_item(v, rng)?;
            it.proto = "reply:mld-query";
            Some(it)
        }
        _ => {
            let q = &ip[..ip.len().min(if want6 { 200 } else { 28 + rng.urange(0, 64) })];
            Some(icmp_quote(v, rng, &info.dst, &info.src, q, peer))
        }
    }
}

/// ICMP error from `from` (the destination of the stack's packet, or a router) quoting the stack's own packet
fn icmp_quote(v: &View, rng: &mut Rng, from: &Addr, to: &Addr, quote: &[u8], peer: Peer) -> Item {
    // a multicast/broadcast destination cannot be the source of the error: a router on the path reports
    let from = if from.is_multicast() || from.is_limited_broadcast() {
        match from {
            Addr::V4(_) => Addr::V4(peer.v4.octets()),
            Addr::V6(_) => Addr::V6(peer.ll6.octets()),
        }
    } else {
        *from
    };
    match from {
        Addr::V4(_) => {
            let (ty, code, rest) = match rng.below(4) {
                0 => (3u8, 3u8, [0u8; 4]),
                1 => (3, 4, [0, 0, 2, 0x40]),
                2 => (11, 0, [0; 4]),
                _ => (3, rng.below(16) as u8, [0; 4]),
            };
            let m = icmp4_msg(ty, code, rest, quote);
            item(v, rng, "reply:icmp4-error", peer, indep::ip::build(&from, to, 1, 64, &m))
        }
        Addr::V6(_) => {
            let (ty, code, rest) = match rng.below(4) {
                0 => (1u8, 4u8, [0u8; 4]),
                1 => (2, 0, 1280u32.to_be_bytes()),
                2 => (3, 0, [0; 4]),
                _ => (4, 1, 40u32.to_be_bytes()),
            };
            let m = icmp6_msg(&from, to, ty, code, rest, quote);
            item(v, rng, "reply:icmp6-error", peer, indep::ip::build(&from, to, 58, 64, &m))
        }
    }
}
