//! Seeded generators shared between monitors.
pub mod corpus;
pub mod frames;
pub mod mutate;
pub mod hostile;
pub mod wire;
