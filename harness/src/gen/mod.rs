//! Seeded generators shared between monitors.
pub mod corpus;
pub mod hostile;
pub mod wire;
