//! TCP segment parsing / building (RFC 9293, RFC 7323, RFC 2018).
use super::*;

pub const FIN: u8 = 0x01;
pub const SYN: u8 = 0x02;
pub const RST: u8 = 0x04;
pub const PSH: u8 = 0x08;
pub const ACK: u8 = 0x10;
pub const URG: u8 = 0x20;

#[derive(Clone, Debug, PartialEq, Default)]
pub struct Seg {
    pub sport: u16,
    pub dport: u16,
    pub seq: u32,
    pub ack: u32,
    pub flags: u8,
    pub wnd: u16,
    pub urg: u16,
    pub mss: Option<u16>,
    pub wscale: Option<u8>,
    pub sack_perm: bool,
    pub sack: Vec<(u32, u32)>,
    pub ts: Option<(u32, u32)>,
    pub payload: Vec<u8>,
    /// number of option bytes (header length - 20)
    pub opt_len: usize,
    pub checksum_ok: bool,
    /// structural defects of the option list (not fatal for the parser)
    pub opt_defects: Vec<String>,
}

impl Seg {
    pub fn is(&self, f: u8) -> bool {
        self.flags & f != 0
    }
    /// sequence space consumed
    pub fn seg_len(&self) -> u32 {
        self.payload.len() as u32 + self.is(SYN) as u32 + self.is(FIN) as u32
    }
    pub fn flag_str(&self) -> String {
        let mut s = String::new();
        for (f, c) in [(SYN, 'S'), (FIN, 'F'), (RST, 'R'), (PSH, 'P'), (ACK, 'A'), (URG, 'U')] {
            if self.is(f) {
                s.push(c);
            }
        }
        s
    }
}

pub fn parse(src: &Addr, dst: &Addr, b: &[u8]) -> R<Seg> {
    if b.len() < 20 {
        return Err(format!("TCP segment of {} bytes", b.len()));
    }
    let hl = ((b[12] >> 4) as usize) * 4;
    if hl < 20 || hl > b.len() {
        return Err(format!("TCP data offset {} with {} bytes", hl, b.len()));
    }
    let mut s = Seg {
        sport: be16(b, 0),
        dport: be16(b, 2),
        seq: be32(b, 4),
        ack: be32(b, 8),
        flags: b[13] & 0x3f,
        wnd: be16(b, 14),
        urg: be16(b, 18),
        payload: b[hl..].to_vec(),
        opt_len: hl - 20,
        checksum_ok: cksum::transport_verifies(src, dst, ip::PROTO_TCP, b),
        ..Default::default()
    };
    let mut o = &b[20..hl];
    let mut ended = false;
    while !o.is_empty() {
        if ended {
            if o[0] != 0 {
                s.opt_defects.push("non-zero byte after End-of-Options".into());
            }
            o = &o[1..];
            continue;
        }
        match o[0] {
            0 => {
                ended = true;
                o = &o[1..];
            }
            1 => o = &o[1..],
            k => {
                if o.len() < 2 {
                    s.opt_defects.push(format!("option {} without length", k));
                    break;
                }
                let l = o[1] as usize;
                if l < 2 || l > o.len() {
                    s.opt_defects.push(format!("option {} with length {} in {} remaining bytes", k, l, o.len()));
                    break;
                }
                let d = &o[2..l];
                match k {
                    2 => {
                        if d.len() == 2 {
                            s.mss = Some(be16(d, 0));
                        } else {
                            s.opt_defects.push("MSS option length".into());
                        }
                    }
                    3 => {
                        if d.len() == 1 {
                            s.wscale = Some(d[0]);
                        } else {
                            s.opt_defects.push("window scale option length".into());
                        }
                    }
                    4 => {
                        if d.is_empty() {
                            s.sack_perm = true;
                        } else {
                            s.opt_defects.push("SACK-permitted option length".into());
                        }
                    }
                    5 => {
                        if d.len() % 8 == 0 && !d.is_empty() {
                            for c in d.chunks(8) {
                                s.sack.push((be32(c, 0), be32(c, 4)));
                            }
                        } else {
                            s.opt_defects.push("SACK option length".into());
                        }
                    }
                    8 => {
                        if d.len() == 8 {
                            s.ts = Some((be32(d, 0), be32(d, 4)));
                        } else {
                            s.opt_defects.push("timestamp option length".into());
                        }
                    }
                    _ => {}
                }
                o = &o[l..];
            }
        }
    }
    Ok(s)
}

/// Build a TCP segment (checksum filled). Options are emitted in a fixed order and
/// padded with NOPs to a multiple of four.
pub fn build(src: &Addr, dst: &Addr, s: &Seg) -> Vec<u8> {
    let mut opts: Vec<u8> = Vec::new();
    if let Some(m) = s.mss {
        opts.extend_from_slice(&[2, 4, (m >> 8) as u8, m as u8]);
    }
    if let Some(w) = s.wscale {
        opts.extend_from_slice(&[3, 3, w]);
    }
    if s.sack_perm {
        opts.extend_from_slice(&[4, 2]);
    }
    if let Some((v, e)) = s.ts {
        opts.extend_from_slice(&[8, 10]);
        opts.extend_from_slice(&v.to_be_bytes());
        opts.extend_from_slice(&e.to_be_bytes());
    }
    if !s.sack.is_empty() {
        opts.push(5);
        opts.push((2 + 8 * s.sack.len()) as u8);
        for (a, b) in &s.sack {
            opts.extend_from_slice(&a.to_be_bytes());
            opts.extend_from_slice(&b.to_be_bytes());
        }
    }
    while opts.len() % 4 != 0 {
        opts.push(1);
    }
    let hl = 20 + opts.len();
    let mut b = vec![0u8; hl + s.payload.len()];
    put16(&mut b, 0, s.sport);
    put16(&mut b, 2, s.dport);
    put32(&mut b, 4, s.seq);
    put32(&mut b, 8, s.ack);
    b[12] = ((hl / 4) as u8) << 4;
    b[13] = s.flags;
    put16(&mut b, 14, s.wnd);
    put16(&mut b, 18, s.urg);
    b[20..hl].copy_from_slice(&opts);
    b[hl..].copy_from_slice(&s.payload);
    cksum::transport_fill(src, dst, ip::PROTO_TCP, &mut b, 16);
    b
}

/// modular comparison helpers on 32-bit sequence numbers
#[inline]
pub fn seq_lt(a: u32, b: u32) -> bool {
    (a.wrapping_sub(b) as i32) < 0
}
#[inline]
pub fn seq_le(a: u32, b: u32) -> bool {
    (a.wrapping_sub(b) as i32) <= 0
}
#[inline]
pub fn seq_diff(a: u32, b: u32) -> i64 {
    (a.wrapping_sub(b) as i32) as i64
}
