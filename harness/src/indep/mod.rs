//! `indep` – an independent, deliberately plain codec written from the RFCs.
//! Oracles use it to judge frames so that smoltcp::wire never judges itself.
//! Parsers return `Err(String)` describing the first structural defect.

pub mod cksum;
pub mod icmp6;
pub mod ieee802154;
pub mod ip;
pub mod lowpan;
pub mod mini;
pub mod tcp;
pub mod udp6;
pub mod x1;
pub mod x2;
pub mod x3;

pub type R<T> = Result<T, String>;

#[inline]
pub fn be16(b: &[u8], o: usize) -> u16 {
    ((b[o] as u16) << 8) | b[o + 1] as u16
}
#[inline]
pub fn be32(b: &[u8], o: usize) -> u32 {
    ((b[o] as u32) << 24) | ((b[o + 1] as u32) << 16) | ((b[o + 2] as u32) << 8) | b[o + 3] as u32
}
#[inline]
pub fn put16(b: &mut [u8], o: usize, v: u16) {
    b[o] = (v >> 8) as u8;
    b[o + 1] = v as u8;
}
#[inline]
pub fn put32(b: &mut [u8], o: usize, v: u32) {
    b[o] = (v >> 24) as u8;
    b[o + 1] = (v >> 16) as u8;
    b[o + 2] = (v >> 8) as u8;
    b[o + 3] = v as u8;
}

/// An IP address as raw bytes (4 or 16).
#[derive(Clone, Copy, PartialEq, Eq, PartialOrd, Ord, Hash, Debug)]
pub enum Addr {
    V4([u8; 4]),
    V6([u8; 16]),
}

impl Addr {
    pub fn bytes(&self) -> &[u8] {
        match self {
            Addr::V4(a) => a,
            Addr::V6(a) => a,
        }
    }
    pub fn is_v4(&self) -> bool {
        matches!(self, Addr::V4(_))
    }
    pub fn is_unspecified(&self) -> bool {
        self.bytes().iter().all(|b| *b == 0)
    }
    pub fn is_multicast(&self) -> bool {
        match self {
            Addr::V4(a) => a[0] >= 224 && a[0] <= 239,
            Addr::V6(a) => a[0] == 0xff,
        }
    }
    pub fn is_limited_broadcast(&self) -> bool {
        matches!(self, Addr::V4([255, 255, 255, 255]))
    }
    pub fn is_loopback(&self) -> bool {
        match self {
            Addr::V4(a) => a[0] == 127,
            Addr::V6(a) => a[..15].iter().all(|b| *b == 0) && a[15] == 1,
        }
    }
    pub fn to_smol(&self) -> smoltcp::wire::IpAddress {
        match self {
            Addr::V4(a) => smoltcp::wire::IpAddress::Ipv4(smoltcp::wire::Ipv4Address::new(a[0], a[1], a[2], a[3])),
            Addr::V6(a) => smoltcp::wire::IpAddress::Ipv6(smoltcp::wire::Ipv6Address::from(*a)),
        }
    }
    pub fn from_smol(a: smoltcp::wire::IpAddress) -> Addr {
        match a {
            smoltcp::wire::IpAddress::Ipv4(x) => Addr::V4(x.octets()),
            smoltcp::wire::IpAddress::Ipv6(x) => Addr::V6(x.octets()),
        }
    }
}

impl std::fmt::Display for Addr {
    fn fmt(&self, f: &mut std::fmt::Formatter) -> std::fmt::Result {
        match self {
            Addr::V4(a) => write!(f, "{}.{}.{}.{}", a[0], a[1], a[2], a[3]),
            Addr::V6(a) => {
                for i in 0..8 {
                    if i > 0 {
                        write!(f, ":")?;
                    }
                    write!(f, "{:x}", be16(a, i * 2))?;
                }
                Ok(())
            }
        }
    }
}
