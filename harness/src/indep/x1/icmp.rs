//! ICMPv4 (RFC 792, RFC 1122 §3.2.2, RFC 1812 §4.3.2.3) and the generic part of ICMPv6 (RFC 4443).
//! NDISC and MLD message bodies are judged in `ndisc.rs` / `mld.rs`.
use super::validate::Sink;
use super::*;

pub const V4_ECHO_REPLY: u8 = 0;
pub const V4_DST_UNREACHABLE: u8 = 3;
pub const V4_ECHO_REQUEST: u8 = 8;
pub const V4_TIME_EXCEEDED: u8 = 11;
pub const V4_PARAM_PROBLEM: u8 = 12;

pub const V6_DST_UNREACHABLE: u8 = 1;
pub const V6_PKT_TOO_BIG: u8 = 2;
pub const V6_TIME_EXCEEDED: u8 = 3;
pub const V6_PARAM_PROBLEM: u8 = 4;
pub const V6_ECHO_REQUEST: u8 = 128;
pub const V6_ECHO_REPLY: u8 = 129;

pub fn build_v4_echo(request: bool, ident: u16, seq: u16, data: &[u8]) -> Vec<u8> {
    let mut b = vec![0u8; 8 + data.len()];
    b[0] = if request { V4_ECHO_REQUEST } else { V4_ECHO_REPLY };
    put16(&mut b, 4, ident);
    put16(&mut b, 6, seq);
    b[8..].copy_from_slice(data);
    let c = cksum::checksum(&[&b]);
    put16(&mut b, 2, c);
    b
}

pub fn build_v6_echo(src: &Addr, dst: &Addr, request: bool, ident: u16, seq: u16, data: &[u8]) -> Vec<u8> {
    let mut b = vec![0u8; 8 + data.len()];
    b[0] = if request { V6_ECHO_REQUEST } else { V6_ECHO_REPLY };
    put16(&mut b, 4, ident);
    put16(&mut b, 6, seq);
    b[8..].copy_from_slice(data);
    cksum::transport_fill(src, dst, ip::PROTO_ICMPV6, &mut b, 2);
    b
}

/// Generic ICMPv6 message with the given 4-byte "rest of header" and body.
pub fn build_v6(src: &Addr, dst: &Addr, ty: u8, code: u8, body: &[u8]) -> Vec<u8> {
    let mut b = vec![0u8; 4 + body.len()];
    b[0] = ty;
    b[1] = code;
    b[4..].copy_from_slice(body);
    cksum::transport_fill(src, dst, ip::PROTO_ICMPV6, &mut b, 2);
    b
}

pub fn v4_verifies(b: &[u8]) -> bool {
    b.len() >= 4 && cksum::verifies(&[b])
}

pub fn v6_verifies(src: &Addr, dst: &Addr, b: &[u8]) -> bool {
    b.len() >= 4 && cksum::transport_verifies(src, dst, ip::PROTO_ICMPV6, b)
}

/// What an ICMP message is, for the evidence counters.
#[derive(Clone, Debug, PartialEq, Default)]
pub struct IcmpKind {
    pub name: String,
    pub is_error: bool,
}

/// ICMPv4 message `b` = complete IP payload; `outer` = the carrying IP header.
pub fn validate_v4(outer: &ip::IpInfo, b: &[u8], check: bool, s: &mut Sink) -> IcmpKind {
    let mut k = IcmpKind::default();
    if b.len() < 8 {
        s.bad("icmpv4:length:truncated", format!("ICMPv4 message of {} bytes (8 needed)", b.len()));
        k.name = "truncated".into();
        return k;
    }
    if check && !cksum::verifies(&[b]) {
        let mut c = b.to_vec();
        put16(&mut c, 2, 0);
        let want = cksum::checksum(&[&c]);
        s.bad("icmpv4:checksum:wrong", format!("ICMPv4 checksum field {:#06x}, RFC 1071 value is {:#06x}", be16(b, 2), want));
    }
    let (ty, code) = (b[0], b[1]);
    match ty {
        V4_ECHO_REPLY | V4_ECHO_REQUEST => {
            k.name = if ty == V4_ECHO_REQUEST { "echo-request".into() } else { "echo-reply".into() };
            if code != 0 {
                s.bad("icmpv4:echo:code-nonzero", format!("echo message with code {}", code));
            }
        }
        V4_DST_UNREACHABLE | V4_TIME_EXCEEDED | V4_PARAM_PROBLEM => {
            k.is_error = true;
            k.name = match ty {
                V4_DST_UNREACHABLE => format!("dst-unreachable/{}", code),
                V4_TIME_EXCEEDED => format!("time-exceeded/{}", code),
                _ => format!("param-problem/{}", code),
            };
            let max_code = match ty {
                V4_DST_UNREACHABLE => 15,
                V4_TIME_EXCEEDED => 1,
                _ => 2,
            };
            if code > max_code {
                s.bad("icmpv4:error:code-unassigned", format!("type {} code {}", ty, code));
            }
            // RFC 792: bytes 4..8 unused (zero), except the pointer (type 12) and next-hop MTU (type 3 code 4, RFC 1191)
            let unused_ok = match (ty, code) {
                (V4_PARAM_PROBLEM, _) => b[5..8].iter().all(|x| *x == 0),
                (V4_DST_UNREACHABLE, 4) => b[4..6].iter().all(|x| *x == 0),
                _ => b[4..8].iter().all(|x| *x == 0),
            };
            if !unused_ok {
                s.bad("icmpv4:error:unused-field-nonzero", format!("type {} code {} with 'unused' octets {:02x?}", ty, code, &b[4..8]));
            }
            validate_v4_embedded(outer, &b[8..], s);
            // (RFC 1812 §4.3.2.3 "SHOULD NOT exceed 576 bytes" is a recommendation, not judged)
        }
        _ => {
            k.name = format!("type-{}", ty);
        }
    }
    k
}

fn validate_v4_embedded(outer: &ip::IpInfo, e: &[u8], s: &mut Sink) {
    if e.len() < 20 {
        s.bad("icmpv4:error:embedded-header-truncated", format!("only {} bytes of the offending datagram are quoted", e.len()));
        return;
    }
    if e[0] >> 4 != 4 {
        s.bad("icmpv4:error:embedded-not-ipv4", format!("quoted datagram starts with {:#04x}", e[0]));
        return;
    }
    let ihl = ((e[0] & 0x0f) as usize) * 4;
    if ihl < 20 || ihl > e.len() {
        s.bad("icmpv4:error:embedded-header-truncated", format!("quoted header has IHL {} bytes, {} bytes quoted", ihl, e.len()));
        return;
    }
    let total = be16(e, 2) as usize;
    if total < ihl {
        s.bad("icmpv4:error:embedded-length-inconsistent", format!("quoted header: total length {} < IHL {}", total, ihl));
        return;
    }
    let orig_payload = total - ihl;
    let quoted_payload = e.len() - ihl;
    if quoted_payload > orig_payload {
        s.bad(
            "icmpv4:error:embedded-longer-than-original",
            format!("{} payload bytes quoted but the quoted header says the datagram had {}", quoted_payload, orig_payload),
        );
    }
    if quoted_payload < orig_payload.min(8) {
        s.bad(
            "icmpv4:error:embedded-payload-too-short",
            format!("{} payload bytes quoted, RFC 792 requires the first 8 (original had {})", quoted_payload, orig_payload),
        );
    }
    // the error goes back to the source of the offending datagram
    if let Addr::V4(d) = outer.dst {
        if e[12..16] != d {
            s.bad(
                "icmpv4:error:not-sent-to-offender",
                format!("error sent to {} but the quoted datagram came from {}.{}.{}.{}", outer.dst, e[12], e[13], e[14], e[15]),
            );
        }
    }
}

/// Generic ICMPv6 checks; returns (type, kind).  NDISC/MLD bodies are validated by the caller.
pub fn validate_v6(outer: &ip::IpInfo, b: &[u8], check: bool, s: &mut Sink) -> (u8, IcmpKind) {
    let mut k = IcmpKind::default();
    if b.len() < 4 {
        s.bad("icmpv6:length:truncated", format!("ICMPv6 message of {} bytes", b.len()));
        k.name = "truncated".into();
        return (255, k);
    }
    if check && !cksum::transport_verifies(&outer.src, &outer.dst, ip::PROTO_ICMPV6, b) {
        let mut c = b.to_vec();
        cksum::transport_fill(&outer.src, &outer.dst, ip::PROTO_ICMPV6, &mut c, 2);
        s.bad(
            "icmpv6:checksum:wrong",
            format!("ICMPv6 checksum field {:#06x}, value over the pseudo header {} -> {} is {:#06x}", be16(b, 2), outer.src, outer.dst, be16(&c, 2)),
        );
    }
    let (ty, code) = (b[0], b[1]);
    match ty {
        V6_ECHO_REQUEST | V6_ECHO_REPLY => {
            k.name = if ty == V6_ECHO_REQUEST { "echo-request".into() } else { "echo-reply".into() };
            if b.len() < 8 {
                s.bad("icmpv6:echo:truncated", format!("echo message of {} bytes", b.len()));
            }
            if code != 0 {
                s.bad("icmpv6:echo:code-nonzero", format!("echo message with code {}", code));
            }
        }
        V6_DST_UNREACHABLE | V6_PKT_TOO_BIG | V6_TIME_EXCEEDED | V6_PARAM_PROBLEM => {
            k.is_error = true;
            k.name = match ty {
                V6_DST_UNREACHABLE => format!("dst-unreachable/{}", code),
                V6_PKT_TOO_BIG => "packet-too-big".to_string(),
                V6_TIME_EXCEEDED => format!("time-exceeded/{}", code),
                _ => format!("param-problem/{}", code),
            };
            if b.len() < 8 {
                s.bad("icmpv6:error:truncated", format!("error message of {} bytes", b.len()));
                return (ty, k);
            }
            let max_code = match ty {
                V6_DST_UNREACHABLE => 8,
                V6_PKT_TOO_BIG => 0,
                V6_TIME_EXCEEDED => 1,
                _ => 10,
            };
            if code > max_code {
                s.bad("icmpv6:error:code-unassigned", format!("type {} code {}", ty, code));
            }
            if (ty == V6_DST_UNREACHABLE || ty == V6_TIME_EXCEEDED) && b[4..8].iter().any(|x| *x != 0) {
                s.bad("icmpv6:error:unused-field-nonzero", format!("type {} with 'unused' octets {:02x?}", ty, &b[4..8]));
            }
            // RFC 4443 §2.4(c): as much of the invoking packet as possible without exceeding the minimum IPv6 MTU
            if outer.total_len > 1280 {
                s.bad("icmpv6:error:longer-than-1280", format!("ICMPv6 error packet of {} bytes", outer.total_len));
            }
            let e = &b[8..];
            if e.len() < 40 {
                s.bad("icmpv6:error:embedded-header-truncated", format!("only {} bytes of the invoking packet are quoted", e.len()));
            } else if e[0] >> 4 != 6 {
                s.bad("icmpv6:error:embedded-not-ipv6", format!("quoted packet starts with {:#04x}", e[0]));
            } else {
                let plen = be16(e, 4) as usize;
                if e.len() - 40 > plen {
                    s.bad(
                        "icmpv6:error:embedded-longer-than-original",
                        format!("{} payload bytes quoted but the quoted header says the packet had {}", e.len() - 40, plen),
                    );
                }
                if let Addr::V6(d) = outer.dst {
                    if e[8..24] != d {
                        let mut o = [0u8; 16];
                        o.copy_from_slice(&e[8..24]);
                        s.bad(
                            "icmpv6:error:not-sent-to-offender",
                            format!("error sent to {} but the quoted packet came from {}", outer.dst, Addr::V6(o)),
                        );
                    }
                }
                if ty == V6_PARAM_PROBLEM {
                    let ptr = be32(b, 4) as usize;
                    if ptr >= 40 + plen {
                        s.bad("icmpv6:param-problem:pointer-outside-packet", format!("pointer {} but the invoking packet had {} bytes", ptr, 40 + plen));
                    }
                }
            }
        }
        133..=137 => k.name = format!("ndisc-{}", ty),
        130 | 131 | 132 | 143 => k.name = format!("mld-{}", ty),
        _ => k.name = format!("type-{}", ty),
    }
    (ty, k)
}
