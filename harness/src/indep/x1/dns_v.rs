//! DNS messages (RFC 1035, RFC 6762 for mDNS): counts must match content, names must be well-formed.
use super::validate::Sink;
use super::*;

#[derive(Clone, Debug, Default, PartialEq)]
pub struct Dns {
    pub id: u16,
    pub flags: u16,
    pub qd: u16,
    pub an: u16,
    pub ns: u16,
    pub ar: u16,
    pub qname: Vec<u8>,
    pub qtype: u16,
}

/// Walk a name starting at `off`; returns the offset just after it (in the original stream) and the
/// expanded length.  Compression pointers must point strictly backwards (RFC 1035 §4.1.4).
pub fn walk_name(m: &[u8], off: usize) -> R<(usize, usize)> {
    let mut i = off;
    let mut after: Option<usize> = None;
    let mut total = 0usize;
    let mut jumps = 0;
    loop {
        if i >= m.len() {
            return Err(format!("name runs past the end of the message at offset {}", i));
        }
        let l = m[i] as usize;
        match l & 0xc0 {
            0x00 => {
                if l == 0 {
                    total += 1;
                    if total > 255 {
                        return Err(format!("name of {} octets (255 allowed)", total));
                    }
                    return Ok((after.unwrap_or(i + 1), total));
                }
                if i + 1 + l > m.len() {
                    return Err(format!("label of {} octets at offset {} runs past the end of the message", l, i));
                }
                total += 1 + l;
                i += 1 + l;
            }
            0xc0 => {
                if i + 1 >= m.len() {
                    return Err("compression pointer truncated".into());
                }
                let p = ((l & 0x3f) << 8) | m[i + 1] as usize;
                if after.is_none() {
                    after = Some(i + 2);
                }
                if p >= i {
                    return Err(format!("compression pointer at offset {} points forward to {}", i, p));
                }
                jumps += 1;
                if jumps > 64 {
                    return Err("compression pointer loop".into());
                }
                i = p;
            }
            _ => return Err(format!("label type {:#04x} at offset {}", l & 0xc0, i)),
        }
    }
}

/// Build a response to `query` (one question) with the given answer records (type, rdata), using a
/// compression pointer to the question name.
pub fn build_response(query: &[u8], rcode: u8, answers: &[(u16, Vec<u8>)]) -> R<Vec<u8>> {
    if query.len() < 12 {
        return Err("query too short".into());
    }
    let (qend, _) = walk_name(query, 12)?;
    if qend + 4 > query.len() {
        return Err("question truncated".into());
    }
    let mut r = query[..qend + 4].to_vec();
    put16(&mut r, 2, 0x8180 | rcode as u16);
    put16(&mut r, 4, 1);
    put16(&mut r, 6, answers.len() as u16);
    put16(&mut r, 8, 0);
    put16(&mut r, 10, 0);
    for (ty, rdata) in answers {
        r.extend_from_slice(&[0xc0, 12]);
        r.extend_from_slice(&ty.to_be_bytes());
        r.extend_from_slice(&[0, 1]);
        r.extend_from_slice(&60u32.to_be_bytes());
        r.extend_from_slice(&(rdata.len() as u16).to_be_bytes());
        r.extend_from_slice(rdata);
    }
    Ok(r)
}

/// `m` = UDP payload of a datagram sent to port 53 / 5353.
pub fn validate(m: &[u8], mdns: bool, s: &mut Sink) -> Option<Dns> {
    if m.len() < 12 {
        s.bad("dns:length:truncated", format!("DNS message of {} bytes (12-byte header needed)", m.len()));
        return None;
    }
    let mut d = Dns { id: be16(m, 0), flags: be16(m, 2), qd: be16(m, 4), an: be16(m, 6), ns: be16(m, 8), ar: be16(m, 10), ..Default::default() };
    // RFC 1035 §4.1.1: Z must be zero
    if d.flags & 0x0040 != 0 {
        s.bad("dns:flags:z-nonzero", format!("flags {:#06x}: reserved Z bit set", d.flags));
    }
    let is_response = d.flags & 0x8000 != 0;
    if !is_response {
        // a query carries RCODE 0 and neither AA nor RA
        if d.flags & 0x000f != 0 {
            s.bad("dns:query:rcode-nonzero", format!("flags {:#06x}: RCODE {} in a query", d.flags, d.flags & 0xf));
        }
        let opcode = (d.flags >> 11) & 0xf;
        if opcode > 2 && opcode != 4 && opcode != 5 {
            s.bad("dns:query:opcode-unassigned", format!("flags {:#06x}: opcode {}", d.flags, opcode));
        }
        if d.qd == 0 {
            s.bad("dns:query:no-question", "query with QDCOUNT 0".to_string());
        }
    }
    if mdns && d.flags & 0x7800 != 0 {
        s.bad("dns:mdns:opcode-nonzero", format!("flags {:#06x} in a multicast DNS message", d.flags));
    }
    let mut off = 12;
    for q in 0..d.qd {
        match walk_name(m, off) {
            Ok((next, _)) => {
                if next + 4 > m.len() {
                    s.bad("dns:question:count-exceeds-content", format!("question {} of {}: type/class run past the end ({} bytes)", q + 1, d.qd, m.len()));
                    return Some(d);
                }
                if q == 0 {
                    d.qname = m[off..next].to_vec();
                    d.qtype = be16(m, next);
                }
                off = next + 4;
            }
            Err(e) => {
                let sig = if off >= m.len() { "dns:question:count-exceeds-content" } else { "dns:name:malformed" };
                s.bad(sig, format!("question {} of {}: {}", q + 1, d.qd, e));
                return Some(d);
            }
        }
    }
    let rr_total = d.an as usize + d.ns as usize + d.ar as usize;
    for r in 0..rr_total {
        match walk_name(m, off) {
            Ok((next, _)) => {
                if next + 10 > m.len() {
                    s.bad("dns:record:count-exceeds-content", format!("record {} of {}: fixed part runs past the end", r + 1, rr_total));
                    return Some(d);
                }
                let rdlen = be16(m, next + 8) as usize;
                if next + 10 + rdlen > m.len() {
                    s.bad("dns:record:rdlength-overruns-message", format!("record {} of {}: RDLENGTH {} with {} bytes left", r + 1, rr_total, rdlen, m.len() - next - 10));
                    return Some(d);
                }
                off = next + 10 + rdlen;
            }
            Err(e) => {
                let sig = if off >= m.len() { "dns:record:count-exceeds-content" } else { "dns:name:malformed" };
                s.bad(sig, format!("record {} of {}: {}", r + 1, rr_total, e));
                return Some(d);
            }
        }
    }
    if off != m.len() {
        s.bad("dns:length:trailing-bytes", format!("{} bytes after the {} questions and {} records announced in the header", m.len() - off, d.qd, rr_total));
    }
    Some(d)
}
