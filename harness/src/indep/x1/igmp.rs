//! IGMPv1/v2 (RFC 1112, RFC 2236).
use super::validate::Sink;
use super::*;

pub const QUERY: u8 = 0x11;
pub const V1_REPORT: u8 = 0x12;
pub const V2_REPORT: u8 = 0x16;
pub const LEAVE: u8 = 0x17;

pub fn build(ty: u8, max_resp: u8, group: &[u8; 4]) -> Vec<u8> {
    let mut b = vec![0u8; 8];
    b[0] = ty;
    b[1] = max_resp;
    b[4..8].copy_from_slice(group);
    let c = cksum::checksum(&[&b]);
    put16(&mut b, 2, c);
    b
}

pub fn verifies(b: &[u8]) -> bool {
    b.len() >= 8 && cksum::verifies(&[b])
}

/// IPv4 header options contain Router Alert (RFC 2113: 0x94 0x04 0x00 0x00)?
pub fn has_router_alert(p: &[u8], info: &ip::IpInfo) -> bool {
    let mut o = &p[20..info.header_len];
    while !o.is_empty() {
        match o[0] {
            0 => break,
            1 => o = &o[1..],
            k => {
                if o.len() < 2 || (o[1] as usize) < 2 || o[1] as usize > o.len() {
                    return false;
                }
                if k == 0x94 && o[1] == 4 {
                    return true;
                }
                o = &o[o[1] as usize..];
            }
        }
    }
    false
}

/// `b` = IP payload of protocol 2.  Returns the message type name.
pub fn validate(outer: &ip::IpInfo, b: &[u8], s: &mut Sink) -> String {
    if b.len() < 8 {
        s.bad("igmp:length:truncated", format!("IGMP message of {} bytes", b.len()));
        return "truncated".into();
    }
    // the IGMP checksum is mandatory and not subject to any offload setting
    if !cksum::verifies(&[b]) {
        let mut c = b.to_vec();
        put16(&mut c, 2, 0);
        s.bad("igmp:checksum:wrong", format!("IGMP checksum field {:#06x}, RFC 1071 value is {:#06x}", be16(b, 2), cksum::checksum(&[&c])));
    }
    let ty = b[0];
    let mut g = [0u8; 4];
    g.copy_from_slice(&b[4..8]);
    let group = Addr::V4(g);
    let name = match ty {
        QUERY => "query",
        V1_REPORT => "v1-report",
        V2_REPORT => "v2-report",
        LEAVE => "leave",
        0x22 => "v3-report",
        _ => "unknown",
    };
    if name == "unknown" {
        s.bad("igmp:type:unknown", format!("IGMP type {:#04x}", ty));
        return name.into();
    }
    if ty == 0x22 {
        return name.into();
    }
    if b.len() != 8 && ty != QUERY {
        s.bad("igmp:length:trailing-bytes", format!("IGMP {} of {} bytes (8 expected)", name, b.len()));
    }
    // RFC 2236 §2: every message is sent with TTL 1
    if outer.hop_limit != 1 {
        s.bad("igmp:ttl:not-1", format!("IGMP {} sent with TTL {}", name, outer.hop_limit));
    }
    match ty {
        V1_REPORT | V2_REPORT => {
            if !group.is_multicast() {
                s.bad("igmp:report:group-not-multicast", format!("report for {}", group));
            }
            // RFC 2236 §9 table: reports are sent to the group being reported
            if outer.dst != group {
                s.bad("igmp:report:destination", format!("report for {} sent to {}", group, outer.dst));
            }
            // RFC 2236 §2.2: max response time is meaningful in queries only, zero otherwise
            if b[1] != 0 {
                s.bad("igmp:report:max-resp-time-nonzero", format!("max response time octet {:#04x} in a report", b[1]));
            }
        }
        LEAVE => {
            if !group.is_multicast() {
                s.bad("igmp:leave:group-not-multicast", format!("leave for {}", group));
            }
            if outer.dst != Addr::V4([224, 0, 0, 2]) {
                s.bad("igmp:leave:destination", format!("leave sent to {} (224.0.0.2 required)", outer.dst));
            }
            if b[1] != 0 {
                s.bad("igmp:leave:max-resp-time-nonzero", format!("max response time octet {:#04x} in a leave message", b[1]));
            }
        }
        _ => {}
    }
    name.into()
}
