//! UDP (RFC 768, RFC 8200 §8.1).
use super::validate::Sink;
use super::*;

pub const HEADER_LEN: usize = 8;

#[derive(Clone, Debug, PartialEq)]
pub struct Udp<'a> {
    pub sport: u16,
    pub dport: u16,
    pub len_field: usize,
    pub cksum: u16,
    pub payload: &'a [u8],
}

pub fn parse(b: &[u8]) -> R<Udp<'_>> {
    if b.len() < HEADER_LEN {
        return Err(format!("UDP datagram of {} bytes", b.len()));
    }
    let l = be16(b, 4) as usize;
    if l < HEADER_LEN || l > b.len() {
        return Err(format!("UDP length field {} with {} bytes", l, b.len()));
    }
    Ok(Udp { sport: be16(b, 0), dport: be16(b, 2), len_field: l, cksum: be16(b, 6), payload: &b[8..l] })
}

/// Build a UDP datagram with a correct checksum (0 is sent as 0xffff).
pub fn build(src: &Addr, dst: &Addr, sport: u16, dport: u16, payload: &[u8]) -> Vec<u8> {
    let mut b = vec![0u8; 8 + payload.len()];
    put16(&mut b, 0, sport);
    put16(&mut b, 2, dport);
    put16(&mut b, 4, (8 + payload.len()) as u16);
    b[8..].copy_from_slice(payload);
    cksum::transport_fill(src, dst, ip::PROTO_UDP, &mut b, 6);
    b
}

/// Does this datagram verify?  `Some(false)` = checksum present and wrong; `None` = checksum absent (zero field).
pub fn verifies(src: &Addr, dst: &Addr, b: &[u8]) -> Option<bool> {
    if b.len() < 8 {
        return Some(false);
    }
    if be16(b, 6) == 0 {
        return None;
    }
    Some(cksum::transport_verifies(src, dst, ip::PROTO_UDP, b))
}

/// Checks of an emitted UDP datagram that fills the whole IP payload `b`.
/// `check`: transmit checksumming is the stack's job; `zero_v4_ok`: RFC 768 "no checksum" accepted over IPv4.
pub fn validate<'a>(src: &Addr, dst: &Addr, b: &'a [u8], check: bool, zero_v4_ok: bool, s: &mut Sink) -> Option<Udp<'a>> {
    let fam = if src.is_v4() { "udp4" } else { "udp6" };
    if b.len() < HEADER_LEN {
        s.bad(&format!("{}:length:truncated", fam), format!("UDP datagram of {} bytes", b.len()));
        return None;
    }
    let l = be16(b, 4) as usize;
    if l != b.len() {
        s.bad(
            &format!("{}:length-field:mismatch", fam),
            format!("UDP length field {} but the IP payload carries {} bytes", l, b.len()),
        );
        if l < HEADER_LEN || l > b.len() {
            return None;
        }
    }
    let ck = be16(b, 6);
    if check {
        if ck == 0 {
            if !src.is_v4() {
                s.bad("udp6:checksum:zero", "UDP over IPv6 emitted with checksum field 0 (RFC 8200 §8.1 forbids it)".to_string());
            } else if !zero_v4_ok {
                s.bad("udp4:checksum:zero", "UDP over IPv4 emitted with checksum field 0 although transmit checksumming is enabled".to_string());
            }
        } else if !cksum::transport_verifies(src, dst, ip::PROTO_UDP, &b[..l.min(b.len())]) {
            let mut c = b[..l.min(b.len())].to_vec();
            cksum::transport_fill(src, dst, ip::PROTO_UDP, &mut c, 6);
            s.bad(
                &format!("{}:checksum:wrong", fam),
                format!("UDP checksum field {:#06x}, RFC 768 value over the pseudo header {} -> {} is {:#06x}", ck, src, dst, be16(&c, 6)),
            );
        }
    }
    Some(Udp { sport: be16(b, 0), dport: be16(b, 2), len_field: l, cksum: ck, payload: &b[8..l.min(b.len())] })
}
