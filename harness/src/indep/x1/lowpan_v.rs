//! IEEE 802.15.4 MAC data frames (IEEE 802.15.4-2003/2006 §7.2) and 6LoWPAN
//! (RFC 4944 dispatch + fragmentation, RFC 6282 IPHC / NHC), written from the specifications.
//! `decompress` rebuilds the complete IPv6 packet so that the ordinary IPv6 validator can judge it.
use super::validate::Sink;
use super::*;

pub const MAX_FRAME: usize = 125; // aMaxPHYPacketSize (127) minus the 2-byte FCS

#[derive(Clone, Copy, Debug, PartialEq, Eq, Hash, PartialOrd, Ord)]
pub enum LlAddr {
    Absent,
    Short([u8; 2]),
    Ext([u8; 8]),
}

impl LlAddr {
    pub fn is_broadcast(&self) -> bool {
        matches!(self, LlAddr::Short([0xff, 0xff]))
    }
    /// Interface identifier derived from the link-layer address (RFC 4944 §6, RFC 6282 §3.2.2)
    pub fn iid(&self) -> Option<[u8; 8]> {
        match self {
            LlAddr::Absent => None,
            LlAddr::Short(s) => Some([0, 0, 0, 0xff, 0xfe, 0, s[0], s[1]]),
            LlAddr::Ext(e) => {
                let mut i = *e;
                i[0] ^= 0x02;
                Some(i)
            }
        }
    }
}

#[derive(Clone, Debug, PartialEq)]
pub struct Mac<'a> {
    pub fcf: u16,
    pub frame_type: u8,
    pub security: bool,
    pub pan_compression: bool,
    pub version: u8,
    pub seq: u8,
    pub dst_pan: Option<u16>,
    pub dst: LlAddr,
    pub src_pan: Option<u16>,
    pub src: LlAddr,
    pub header_len: usize,
    pub payload: &'a [u8],
}

/// Parse the MAC header of a frame (without FCS).  Addresses are little-endian on the air; they are
/// returned in the usual big-endian (EUI-64) order.
pub fn parse_mac(f: &[u8]) -> R<Mac<'_>> {
    if f.len() < 3 {
        return Err(format!("IEEE 802.15.4 frame of {} bytes", f.len()));
    }
    let fcf = f[0] as u16 | ((f[1] as u16) << 8);
    let frame_type = (fcf & 7) as u8;
    let security = fcf & 0x0008 != 0;
    let pan_compression = fcf & 0x0040 != 0;
    let dst_mode = (fcf >> 10) & 3;
    let version = ((fcf >> 12) & 3) as u8;
    let src_mode = (fcf >> 14) & 3;
    if dst_mode == 1 || src_mode == 1 {
        return Err(format!("frame control {:#06x}: reserved addressing mode 1", fcf));
    }
    let mut o = 3;
    let take = |o: &mut usize, n: usize| -> R<&[u8]> {
        if *o + n > f.len() {
            return Err(format!("addressing fields need {} bytes at offset {}, frame has {}", n, *o, f.len()));
        }
        let r = &f[*o..*o + n];
        *o += n;
        Ok(r)
    };
    let mut dst_pan = None;
    let mut dst = LlAddr::Absent;
    if dst_mode != 0 {
        let p = take(&mut o, 2)?;
        dst_pan = Some(p[0] as u16 | ((p[1] as u16) << 8));
        if dst_mode == 2 {
            let a = take(&mut o, 2)?;
            dst = LlAddr::Short([a[1], a[0]]);
        } else {
            let a = take(&mut o, 8)?;
            let mut e = [0u8; 8];
            for i in 0..8 {
                e[i] = a[7 - i];
            }
            dst = LlAddr::Ext(e);
        }
    }
    let mut src_pan = None;
    let mut src = LlAddr::Absent;
    if src_mode != 0 {
        if !pan_compression {
            let p = take(&mut o, 2)?;
            src_pan = Some(p[0] as u16 | ((p[1] as u16) << 8));
        }
        if src_mode == 2 {
            let a = take(&mut o, 2)?;
            src = LlAddr::Short([a[1], a[0]]);
        } else {
            let a = take(&mut o, 8)?;
            let mut e = [0u8; 8];
            for i in 0..8 {
                e[i] = a[7 - i];
            }
            src = LlAddr::Ext(e);
        }
    }
    if security {
        // auxiliary security header: security control (1) + frame counter (4) + key identifier (0/1/5/9)
        let sc = take(&mut o, 1)?[0];
        take(&mut o, 4)?;
        let kl = match (sc >> 3) & 3 {
            0 => 0,
            1 => 1,
            2 => 5,
            _ => 9,
        };
        take(&mut o, kl)?;
    }
    Ok(Mac { fcf, frame_type, security, pan_compression, version, seq: f[2], dst_pan, dst, src_pan, src, header_len: o, payload: &f[o..] })
}

/// Data frame header with PAN-ID compression, 2003 frame version (what a 6LoWPAN node sends).
pub fn build_mac(seq: u8, pan: u16, dst: &LlAddr, src: &LlAddr, payload: &[u8]) -> Vec<u8> {
    let mode = |a: &LlAddr| match a {
        LlAddr::Absent => 0u16,
        LlAddr::Short(_) => 2,
        LlAddr::Ext(_) => 3,
    };
    let fcf: u16 = 1 | 0x0040 | (mode(dst) << 10) | (mode(src) << 14);
    let mut f = vec![fcf as u8, (fcf >> 8) as u8, seq, pan as u8, (pan >> 8) as u8];
    let push = |f: &mut Vec<u8>, a: &LlAddr| match a {
        LlAddr::Absent => {}
        LlAddr::Short(s) => f.extend_from_slice(&[s[1], s[0]]),
        LlAddr::Ext(e) => {
            for i in (0..8).rev() {
                f.push(e[i]);
            }
        }
    };
    push(&mut f, dst);
    push(&mut f, src);
    f.extend_from_slice(payload);
    f
}

/// Frame-control / addressing checks of an emitted data frame.
pub fn validate_mac<'a>(f: &'a [u8], s: &mut Sink) -> Option<Mac<'a>> {
    if f.len() > MAX_FRAME {
        s.bad("ieee802154:length:exceeds-125", format!("frame of {} bytes (125 + 2-byte FCS is the PHY maximum)", f.len()));
    }
    let m = match parse_mac(f) {
        Ok(m) => m,
        Err(e) => {
            s.bad("ieee802154:header:malformed", e);
            return None;
        }
    };
    if m.frame_type != 1 {
        s.bad("ieee802154:frame-type:not-data", format!("frame control {:#06x}: frame type {}", m.fcf, m.frame_type));
    }
    if m.version > 1 {
        // 2 = 802.15.4-2015 (different PAN-ID compression rules), 3 reserved
        s.bad("ieee802154:frame-version:unexpected", format!("frame control {:#06x}: frame version {}", m.fcf, m.version));
    }
    if m.fcf & 0x0380 != 0 {
        s.bad("ieee802154:frame-control:reserved-bits", format!("frame control {:#06x}: reserved bits 7-9 set", m.fcf));
    }
    if m.pan_compression && (m.dst == LlAddr::Absent || m.src == LlAddr::Absent) {
        s.bad(
            "ieee802154:pan-id-compression:without-both-addresses",
            format!("frame control {:#06x}: PAN ID compression needs both source and destination addressing fields", m.fcf),
        );
    }
    if m.src == LlAddr::Absent {
        s.bad("ieee802154:source:absent", format!("frame control {:#06x}: a 6LoWPAN data frame carries a source address (RFC 4944 §5)", m.fcf));
    }
    if m.dst == LlAddr::Absent {
        s.bad("ieee802154:destination:absent", format!("frame control {:#06x}: a 6LoWPAN data frame carries a destination address (RFC 4944 §5)", m.fcf));
    }
    if m.src.is_broadcast() {
        s.bad("ieee802154:source:broadcast", "source address 0xffff".to_string());
    }
    if m.security {
        s.bad("ieee802154:security:unexpected", format!("frame control {:#06x}: security enabled", m.fcf));
    }
    Some(m)
}

// ------------------------------------------------------------------ 6LoWPAN

#[derive(Clone, Debug, PartialEq)]
pub enum Lowpan {
    /// complete datagram
    Whole(Vec<u8>),
    /// first fragment: datagram size, tag, decompressed bytes carried by this fragment
    Frag1 { size: usize, tag: u16, data: Vec<u8> },
    /// subsequent fragment: size, tag, offset in bytes, raw bytes
    FragN { size: usize, tag: u16, offset: usize, data: Vec<u8> },
}

/// Context table entry: 64-bit prefix.
pub type Contexts = Vec<[u8; 8]>;

fn need(b: &[u8], o: usize, n: usize, what: &str) -> R<()> {
    if o + n > b.len() {
        Err(format!("{} needs {} bytes at offset {}, only {} present", what, n, o, b.len()))
    } else {
        Ok(())
    }
}

/// Decompress LOWPAN_IPHC (+ NHC) into an IPv6 packet.  `total` = datagram size when this is the
/// first fragment of a fragmented datagram (the UDP length and the IPv6 payload length are then
/// derived from it).  Returns the IPv6 bytes that this buffer yields (complete packet when `total` is None).
pub fn decompress(b: &[u8], ll_src: &LlAddr, ll_dst: &LlAddr, ctx: &Contexts, total: Option<usize>) -> R<Vec<u8>> {
    need(b, 0, 2, "IPHC base header")?;
    if b[0] & 0xe0 != 0x60 {
        return Err(format!("dispatch {:#04x} is not LOWPAN_IPHC", b[0]));
    }
    let tf = (b[0] >> 3) & 3;
    let nh_compressed = b[0] & 0x04 != 0;
    let hlim = b[0] & 3;
    let cid = b[1] & 0x80 != 0;
    let sac = b[1] & 0x40 != 0;
    let sam = (b[1] >> 4) & 3;
    let m = b[1] & 0x08 != 0;
    let dac = b[1] & 0x04 != 0;
    let dam = b[1] & 3;
    let mut o = 2;
    let (mut sci, mut dci) = (0usize, 0usize);
    if cid {
        need(b, o, 1, "context identifier extension")?;
        sci = (b[o] >> 4) as usize;
        dci = (b[o] & 0xf) as usize;
        o += 1;
    }
    let mut h = vec![0u8; 40];
    h[0] = 0x60;
    // traffic class / flow label (RFC 6282 §3.1.1)
    match tf {
        0 => {
            need(b, o, 4, "traffic class + flow label")?;
            let ecn_dscp = b[o];
            let tc = (ecn_dscp << 2) | (ecn_dscp >> 6); // ECN(2) DSCP(6) on the wire -> DSCP ECN in the header
            if b[o + 1] & 0xf0 != 0 {
                return Err("reserved bits of the inline flow label are set".into());
            }
            h[0] |= tc >> 4;
            h[1] = (tc << 4) | (b[o + 1] & 0x0f);
            h[2] = b[o + 2];
            h[3] = b[o + 3];
            o += 4;
        }
        1 => {
            need(b, o, 3, "ECN + flow label")?;
            if b[o] & 0x30 != 0 {
                return Err("reserved bits of the inline ECN/flow label are set".into());
            }
            let ecn = b[o] >> 6;
            h[1] = (ecn << 4) | (b[o] & 0x0f);
            h[2] = b[o + 1];
            h[3] = b[o + 2];
            o += 3;
        }
        2 => {
            need(b, o, 1, "traffic class")?;
            let ecn_dscp = b[o];
            let tc = (ecn_dscp << 2) | (ecn_dscp >> 6);
            h[0] |= tc >> 4;
            h[1] = tc << 4;
            o += 1;
        }
        _ => {}
    }
    let mut next_header: Option<u8> = None;
    if !nh_compressed {
        need(b, o, 1, "next header")?;
        next_header = Some(b[o]);
        o += 1;
    }
    match hlim {
        0 => {
            need(b, o, 1, "hop limit")?;
            h[7] = b[o];
            o += 1;
        }
        1 => h[7] = 1,
        2 => h[7] = 64,
        _ => h[7] = 255,
    }
    // ---- source address
    let mut src = [0u8; 16];
    if !sac {
        match sam {
            0 => {
                need(b, o, 16, "source address")?;
                src.copy_from_slice(&b[o..o + 16]);
                o += 16;
            }
            1 => {
                need(b, o, 8, "source IID")?;
                src[0] = 0xfe;
                src[1] = 0x80;
                src[8..].copy_from_slice(&b[o..o + 8]);
                o += 8;
            }
            2 => {
                need(b, o, 2, "source short IID")?;
                src[0] = 0xfe;
                src[1] = 0x80;
                src[11] = 0xff;
                src[12] = 0xfe;
                src[14] = b[o];
                src[15] = b[o + 1];
                o += 2;
            }
            _ => {
                src[0] = 0xfe;
                src[1] = 0x80;
                let iid = ll_src.iid().ok_or("source address elided but the frame has no link-layer source")?;
                src[8..].copy_from_slice(&iid);
            }
        }
    } else if sam == 0 {
        // the unspecified address
    } else {
        let c = ctx.get(sci).ok_or(format!("source context {} is not configured", sci))?;
        match sam {
            1 => {
                need(b, o, 8, "source IID")?;
                src[8..].copy_from_slice(&b[o..o + 8]);
                o += 8;
            }
            2 => {
                need(b, o, 2, "source short IID")?;
                src[11] = 0xff;
                src[12] = 0xfe;
                src[14] = b[o];
                src[15] = b[o + 1];
                o += 2;
            }
            _ => {
                let iid = ll_src.iid().ok_or("source address elided but the frame has no link-layer source")?;
                src[8..].copy_from_slice(&iid);
            }
        }
        src[..8].copy_from_slice(c);
    }
    // ---- destination address
    let mut dst = [0u8; 16];
    if !m {
        if !dac {
            match dam {
                0 => {
                    need(b, o, 16, "destination address")?;
                    dst.copy_from_slice(&b[o..o + 16]);
                    o += 16;
                }
                1 => {
                    need(b, o, 8, "destination IID")?;
                    dst[0] = 0xfe;
                    dst[1] = 0x80;
                    dst[8..].copy_from_slice(&b[o..o + 8]);
                    o += 8;
                }
                2 => {
                    need(b, o, 2, "destination short IID")?;
                    dst[0] = 0xfe;
                    dst[1] = 0x80;
                    dst[11] = 0xff;
                    dst[12] = 0xfe;
                    dst[14] = b[o];
                    dst[15] = b[o + 1];
                    o += 2;
                }
                _ => {
                    dst[0] = 0xfe;
                    dst[1] = 0x80;
                    let iid = ll_dst.iid().ok_or("destination address elided but the frame has no link-layer destination")?;
                    dst[8..].copy_from_slice(&iid);
                }
            }
        } else {
            if dam == 0 {
                return Err("M=0 DAC=1 DAM=00 is reserved".into());
            }
            let c = ctx.get(dci).ok_or(format!("destination context {} is not configured", dci))?;
            match dam {
                1 => {
                    need(b, o, 8, "destination IID")?;
                    dst[8..].copy_from_slice(&b[o..o + 8]);
                    o += 8;
                }
                2 => {
                    need(b, o, 2, "destination short IID")?;
                    dst[11] = 0xff;
                    dst[12] = 0xfe;
                    dst[14] = b[o];
                    dst[15] = b[o + 1];
                    o += 2;
                }
                _ => {
                    let iid = ll_dst.iid().ok_or("destination address elided but the frame has no link-layer destination")?;
                    dst[8..].copy_from_slice(&iid);
                }
            }
            dst[..8].copy_from_slice(c);
        }
    } else if !dac {
        match dam {
            0 => {
                need(b, o, 16, "multicast destination")?;
                dst.copy_from_slice(&b[o..o + 16]);
                if dst[0] != 0xff {
                    return Err(format!("M=1 with an inline destination that is not multicast ({})", Addr::V6(dst)));
                }
                o += 16;
            }
            1 => {
                need(b, o, 6, "multicast destination (48 bits)")?;
                dst[0] = 0xff;
                dst[1] = b[o];
                dst[11..16].copy_from_slice(&b[o + 1..o + 6]);
                o += 6;
            }
            2 => {
                need(b, o, 4, "multicast destination (32 bits)")?;
                dst[0] = 0xff;
                dst[1] = b[o];
                dst[13..16].copy_from_slice(&b[o + 1..o + 4]);
                o += 4;
            }
            _ => {
                need(b, o, 1, "multicast destination (8 bits)")?;
                dst[0] = 0xff;
                dst[1] = 0x02;
                dst[15] = b[o];
                o += 1;
            }
        }
    } else {
        if dam != 0 {
            return Err("M=1 DAC=1 with DAM != 00 is reserved".into());
        }
        let c = ctx.get(dci).ok_or(format!("destination context {} is not configured", dci))?;
        need(b, o, 6, "context-based multicast destination")?;
        dst[0] = 0xff;
        dst[1] = b[o];
        dst[2] = b[o + 1];
        dst[3] = 64;
        dst[4..12].copy_from_slice(c);
        dst[12..16].copy_from_slice(&b[o + 2..o + 6]);
        o += 6;
    }
    h[8..24].copy_from_slice(&src);
    h[24..40].copy_from_slice(&dst);

    // ---- next headers
    let mut out = h;
    let mut rest = &b[o..];
    // location (in `out`) of the "next header" octet that the next header in the chain must fill in
    let mut nh_slot: usize = 6;
    let mut compressed = nh_compressed;
    if let Some(nh) = next_header {
        out[6] = nh;
    }
    loop {
        if !compressed {
            out.extend_from_slice(rest);
            break;
        }
        need(rest, 0, 1, "NHC octet")?;
        let id = rest[0];
        if id & 0xf8 == 0xf0 {
            // UDP NHC: 11110CPP
            out[nh_slot] = ip::PROTO_UDP;
            let c = id & 0x04 != 0;
            let p = id & 3;
            let mut q = 1;
            let (sport, dport);
            match p {
                0 => {
                    need(rest, q, 4, "UDP ports")?;
                    sport = be16(rest, q);
                    dport = be16(rest, q + 2);
                    q += 4;
                }
                1 => {
                    need(rest, q, 3, "UDP ports")?;
                    sport = be16(rest, q);
                    dport = 0xf000 | rest[q + 2] as u16;
                    q += 3;
                }
                2 => {
                    need(rest, q, 3, "UDP ports")?;
                    sport = 0xf000 | rest[q] as u16;
                    dport = be16(rest, q + 1);
                    q += 3;
                }
                _ => {
                    need(rest, q, 1, "UDP ports")?;
                    sport = 0xf0b0 | (rest[q] >> 4) as u16;
                    dport = 0xf0b0 | (rest[q] & 0xf) as u16;
                    q += 1;
                }
            }
            let ck;
            if c {
                return Err("UDP checksum elided (C=1) without upper-layer authorisation".into());
            } else {
                need(rest, q, 2, "UDP checksum")?;
                ck = be16(rest, q);
                q += 2;
            }
            let data = &rest[q..];
            let udp_len = match total {
                Some(t) => {
                    if t < out.len() + 8 {
                        return Err(format!("datagram size {} is smaller than the headers ({} bytes)", t, out.len() + 8));
                    }
                    t - out.len()
                }
                None => 8 + data.len(),
            };
            let mut u = vec![0u8; 8];
            put16(&mut u, 0, sport);
            put16(&mut u, 2, dport);
            put16(&mut u, 4, udp_len as u16);
            put16(&mut u, 6, ck);
            out.extend_from_slice(&u);
            out.extend_from_slice(data);
            break;
        } else if id & 0xf0 == 0xe0 {
            // extension header NHC: 1110EIDN
            let eid = (id >> 1) & 7;
            let nh_next_compressed = id & 1 != 0;
            let proto = match eid {
                0 => 0u8,
                1 => 43,
                2 => 44,
                3 => 60,
                4 => 135,
                7 => return Err("IPv6-in-IPv6 NHC is not expected".into()),
                _ => return Err(format!("reserved extension header id {}", eid)),
            };
            out[nh_slot] = proto;
            let mut q = 1;
            let mut inner_nh = 0u8;
            if !nh_next_compressed {
                need(rest, q, 1, "extension header next-header")?;
                inner_nh = rest[q];
                q += 1;
            }
            need(rest, q, 1, "extension header length")?;
            let l = rest[q] as usize;
            q += 1;
            need(rest, q, l, "extension header body")?;
            // rebuilt header: next header, hdr ext len, body, padded to a multiple of 8 with Pad1/PadN (RFC 6282 §4.2)
            let unpadded = 2 + l;
            let padded = (unpadded + 7) / 8 * 8;
            let start = out.len();
            out.push(inner_nh);
            out.push((padded / 8 - 1) as u8);
            out.extend_from_slice(&rest[q..q + l]);
            let pad = padded - unpadded;
            if pad == 1 {
                out.push(0);
            } else if pad > 1 {
                out.push(1);
                out.push((pad - 2) as u8);
                for _ in 0..pad - 2 {
                    out.push(0);
                }
            }
            nh_slot = start;
            compressed = nh_next_compressed;
            rest = &rest[q + l..];
        } else {
            return Err(format!("unknown NHC identifier {:#04x}", id));
        }
    }
    let plen = match total {
        Some(t) => {
            if t < 40 {
                return Err(format!("datagram size {} below the IPv6 header size", t));
            }
            t - 40
        }
        None => out.len() - 40,
    };
    if plen > 0xffff {
        return Err("payload too long".into());
    }
    put16(&mut out, 4, plen as u16);
    Ok(out)
}

/// Parse the 6LoWPAN payload of one MAC frame.
pub fn parse_lowpan(m: &Mac<'_>, ctx: &Contexts) -> R<Lowpan> {
    let p = m.payload;
    if p.is_empty() {
        return Err("empty 6LoWPAN payload".into());
    }
    let d = p[0];
    if d & 0xe0 == 0x60 {
        return Ok(Lowpan::Whole(decompress(p, &m.src, &m.dst, ctx, None)?));
    }
    if d == 0x41 {
        return Ok(Lowpan::Whole(p[1..].to_vec()));
    }
    if d & 0xf8 == 0xc0 {
        need(p, 0, 4, "FRAG1 header")?;
        let size = (((p[0] & 7) as usize) << 8) | p[1] as usize;
        let tag = be16(p, 2);
        let inner = &p[4..];
        if inner.is_empty() {
            return Err("FRAG1 without payload".into());
        }
        let data = if inner[0] & 0xe0 == 0x60 {
            decompress(inner, &m.src, &m.dst, ctx, Some(size))?
        } else if inner[0] == 0x41 {
            inner[1..].to_vec()
        } else {
            return Err(format!("FRAG1 carries dispatch {:#04x}", inner[0]));
        };
        return Ok(Lowpan::Frag1 { size, tag, data });
    }
    if d & 0xf8 == 0xe0 {
        need(p, 0, 5, "FRAGN header")?;
        let size = (((p[0] & 7) as usize) << 8) | p[1] as usize;
        let tag = be16(p, 2);
        let offset = p[4] as usize * 8;
        return Ok(Lowpan::FragN { size, tag, offset, data: p[5..].to_vec() });
    }
    Err(format!("6LoWPAN dispatch {:#04x} is not IPHC, IPv6, FRAG1 or FRAGN", d))
}

/// Structural checks of FRAG1/FRAGN (RFC 4944 §5.3).
pub fn validate_fragment(l: &Lowpan, s: &mut Sink) {
    match l {
        Lowpan::Whole(_) => {}
        Lowpan::Frag1 { size, data, .. } => {
            if *size < 40 {
                s.bad("sixlowpan:frag1:datagram-size-below-40", format!("datagram_size {}", size));
            }
            if data.len() > *size {
                s.bad("sixlowpan:frag1:longer-than-datagram", format!("first fragment yields {} bytes of a {}-byte datagram", data.len(), size));
            } else if data.len() < *size && data.len() % 8 != 0 {
                s.bad(
                    "sixlowpan:frag1:size-not-multiple-of-8",
                    format!("first fragment yields {} uncompressed bytes of a {}-byte datagram; every fragment but the last must cover a multiple of 8", data.len(), size),
                );
            }
        }
        Lowpan::FragN { size, offset, data, .. } => {
            if *offset == 0 {
                s.bad("sixlowpan:fragn:offset-zero", "subsequent fragment with datagram_offset 0".to_string());
            }
            if data.is_empty() {
                s.bad("sixlowpan:fragn:empty", "subsequent fragment without payload".to_string());
            }
            if offset + data.len() > *size {
                s.bad(
                    "sixlowpan:fragn:beyond-datagram",
                    format!("fragment covers [{}, {}) of a {}-byte datagram", offset, offset + data.len(), size),
                );
            } else if offset + data.len() < *size && data.len() % 8 != 0 {
                s.bad(
                    "sixlowpan:fragn:size-not-multiple-of-8",
                    format!("fragment covers [{}, {}) of a {}-byte datagram; every fragment but the last must cover a multiple of 8", offset, offset + data.len(), size),
                );
            }
        }
    }
}

/// Turn an IPv6 packet into one or more 802.15.4 frames (uncompressed addresses carried inline,
/// RFC 4944 fragmentation when needed).  Used to inject input.
pub fn build_frames(seq: &mut u8, pan: u16, dst: &LlAddr, src: &LlAddr, tag: u16, ipv6: &[u8]) -> Vec<Vec<u8>> {
    build_frames_ex(seq, pan, dst, src, tag, ipv6, false)
}

/// `udp_nhc`: compress a UDP header with LOWPAN_NHC (ports and checksum in-line, length elided) when the
/// datagram fits one frame.
pub fn build_frames_ex(seq: &mut u8, pan: u16, dst: &LlAddr, src: &LlAddr, tag: u16, ipv6: &[u8], udp_nhc: bool) -> Vec<Vec<u8>> {
    if udp_nhc && ipv6.len() >= 48 && ipv6[0] == 0x60 && ipv6[1] == 0 && ipv6[2] == 0 && ipv6[3] == 0 && ipv6[6] == ip::PROTO_UDP {
        // IPHC: TF=11, NH=1 (compressed), HLIM inline, addresses inline; NHC UDP: 11110 C=0 P=00
        let mut c = vec![0x7cu8, 0x00, ipv6[7]];
        c.extend_from_slice(&ipv6[8..40]);
        c.push(0xf0);
        c.extend_from_slice(&ipv6[40..44]);
        c.extend_from_slice(&ipv6[46..48]);
        c.extend_from_slice(&ipv6[48..]);
        let mac_len = build_mac(0, pan, dst, src, &[]).len();
        if mac_len + c.len() <= MAX_FRAME {
            let f = build_mac(*seq, pan, dst, src, &c);
            *seq = seq.wrapping_add(1);
            return vec![f];
        }
    }
    let mac_len0 = build_mac(0, pan, dst, src, &[]).len();
    if ipv6.len() < 40 || ipv6[0] != 0x60 || ipv6[1] != 0 || ipv6[2] != 0 || ipv6[3] != 0 {
        // not compressible by this simple builder (truncated / odd input): uncompressed IPv6 dispatch (RFC 4944 §5.1)
        let mut c = vec![0x41u8];
        c.extend_from_slice(&ipv6[..ipv6.len().min(MAX_FRAME - mac_len0 - 1)]);
        let f = build_mac(*seq, pan, dst, src, &c);
        *seq = seq.wrapping_add(1);
        return vec![f];
    }
    // IPHC: TF=11 (elided; requires tc/flow = 0), NH inline, HLIM inline, addresses inline
    let mut c = vec![0x78u8, 0x00, ipv6[6], ipv6[7]];
    c.extend_from_slice(&ipv6[8..40]);
    let hdr_c = c.len(); // 36 compressed bytes stand for 40
    c.extend_from_slice(&ipv6[40..]);
    let mac_len = build_mac(0, pan, dst, src, &[]).len();
    let mut frames = Vec::new();
    if mac_len + c.len() <= MAX_FRAME {
        frames.push(build_mac(*seq, pan, dst, src, &c));
        *seq = seq.wrapping_add(1);
        return frames;
    }
    let size = ipv6.len();
    // first fragment: uncompressed coverage must be a multiple of 8
    let room1 = MAX_FRAME - mac_len - 4;
    let cover1 = (room1 - hdr_c + 40) / 8 * 8; // uncompressed bytes covered
    let take1 = cover1 - 40 + hdr_c;
    let mut p = vec![0xc0 | ((size >> 8) as u8 & 7), size as u8, (tag >> 8) as u8, tag as u8];
    p.extend_from_slice(&c[..take1]);
    frames.push(build_mac(*seq, pan, dst, src, &p));
    *seq = seq.wrapping_add(1);
    let mut off = cover1;
    let roomn = (MAX_FRAME - mac_len - 5) / 8 * 8;
    while off < size {
        let n = roomn.min(size - off);
        let mut p = vec![0xe0 | ((size >> 8) as u8 & 7), size as u8, (tag >> 8) as u8, tag as u8, (off / 8) as u8];
        p.extend_from_slice(&ipv6[off..off + n]);
        frames.push(build_mac(*seq, pan, dst, src, &p));
        *seq = seq.wrapping_add(1);
        off += n;
    }
    frames
}
