//! The independent frame validator (properties C10 and C08b).
//!
//! `validate_frame` judges ONE frame as the device saw it; `Judge` additionally reassembles IPv4
//! and 6LoWPAN fragments so that the transport part of a fragmented datagram is judged as well.
//! Everything is decided with the `indep` codec; smoltcp::wire is never consulted.
use super::lowpan_v::{self, Lowpan};
use super::ndisc::LinkKind;
use super::*;
use std::collections::BTreeMap;

#[derive(Clone, Debug, PartialEq)]
pub struct Defect {
    /// semantic class: protocol:field:kind
    pub sig: String,
    pub desc: String,
}

#[derive(Default)]
pub struct Sink {
    pub defects: Vec<Defect>,
}

impl Sink {
    pub fn bad(&mut self, sig: &str, desc: impl Into<String>) {
        if !self.defects.iter().any(|d| d.sig == sig) {
            self.defects.push(Defect { sig: sig.to_string(), desc: desc.into() });
        }
    }
}

#[derive(Clone, Copy, Debug, PartialEq)]
pub enum Medium {
    Ethernet,
    Ip,
    Ieee802154,
}

impl Medium {
    pub fn from_smol(m: smoltcp::phy::Medium) -> Medium {
        match m {
            smoltcp::phy::Medium::Ethernet => Medium::Ethernet,
            smoltcp::phy::Medium::Ip => Medium::Ip,
            smoltcp::phy::Medium::Ieee802154 => Medium::Ieee802154,
        }
    }
    pub fn name(&self) -> &'static str {
        match self {
            Medium::Ethernet => "eth",
            Medium::Ip => "ip",
            Medium::Ieee802154 => "154",
        }
    }
}

/// Which checksums the stack itself has to fill in (transmit checksumming "on").
#[derive(Clone, Copy, Debug, PartialEq)]
pub struct TxChecksums {
    pub ipv4: bool,
    pub udp: bool,
    pub tcp: bool,
    pub icmpv4: bool,
    pub icmpv6: bool,
    /// C10 reading: a zero UDP checksum over IPv4 is a legal "no checksum" (RFC 768).
    /// C08b reading (false): with transmit checksumming on, the field must carry a checksum.
    pub udp4_zero_ok: bool,
}

impl TxChecksums {
    pub fn all() -> TxChecksums {
        TxChecksums { ipv4: true, udp: true, tcp: true, icmpv4: true, icmpv6: true, udp4_zero_ok: true }
    }
    pub fn from_caps(c: &smoltcp::phy::ChecksumCapabilities) -> TxChecksums {
        TxChecksums { ipv4: c.ipv4.tx(), udp: c.udp.tx(), tcp: c.tcp.tx(), icmpv4: c.icmpv4.tx(), icmpv6: c.icmpv6.tx(), udp4_zero_ok: true }
    }
}

/// What the validator may know about the emitting interface.
pub struct IfaceView<'a> {
    /// the interface's unicast addresses (with prefix length) at emission time; unspecified entries removed
    pub addrs: Vec<(Addr, u8)>,
    /// a DHCPv4 client socket exists and holds no lease
    pub dhcp_unconfigured: bool,
    /// "this IP packet was handed over verbatim by a raw socket" (argument: the complete IP packet)
    pub is_raw: &'a dyn Fn(&[u8]) -> bool,
    /// 6LoWPAN address contexts configured on the interface
    pub contexts: Vec<[u8; 8]>,
    /// UDP datagrams to port 53 / 5353 come from a DNS socket and are judged as DNS messages (default: false)
    pub dns_on_53: bool,
    /// AnyIP is enabled: destinations of the packets handed to the interface so far (an answer may
    /// legitimately come from any of them)
    pub any_ip_dsts: Vec<Addr>,
}

pub fn never_raw(_p: &[u8]) -> bool {
    false
}

impl<'a> IfaceView<'a> {
    pub fn new(addrs: Vec<(Addr, u8)>) -> IfaceView<'static> {
        IfaceView { addrs, dhcp_unconfigured: false, is_raw: &never_raw, contexts: Vec::new(), dns_on_53: false, any_ip_dsts: Vec::new() }
    }
    pub fn from_iface(iface: &smoltcp::iface::Interface) -> IfaceView<'static> {
        let addrs = iface
            .ip_addrs()
            .iter()
            .map(|c| (Addr::from_smol(c.address()), c.prefix_len()))
            .filter(|(a, _)| !a.is_unspecified())
            .collect();
        IfaceView::new(addrs)
    }
    pub fn owns(&self, a: &Addr) -> bool {
        self.addrs.iter().any(|(x, _)| x == a)
    }
    pub fn has_link_local_v6(&self) -> bool {
        self.addrs.iter().any(|(a, _)| matches!(a, Addr::V6(x) if x[0] == 0xfe && x[1] & 0xc0 == 0x80))
    }
    /// directed broadcast address of one of the interface's IPv4 networks (prefix < 31)
    pub fn is_subnet_broadcast(&self, a: &Addr) -> bool {
        let Addr::V4(x) = a else { return false };
        let v = u32::from_be_bytes(*x);
        self.addrs.iter().any(|(own, p)| match own {
            Addr::V4(o) if *p < 31 => {
                let host = if *p == 0 { u32::MAX } else { u32::MAX >> *p };
                (u32::from_be_bytes(*o) | host) == v
            }
            _ => false,
        })
    }
}

/// What a frame turned out to be (for evidence classes / counters).
#[derive(Clone, Debug, Default, PartialEq)]
pub struct FrameInfo {
    /// "arp", "ipv4", "ipv6", "?" ...
    pub l3: String,
    /// "tcp", "udp", "icmpv4", ... ("frag" for a non-first fragment)
    pub l4: String,
    /// finer description, e.g. "ndisc-ns", "dhcp-discover", "tcp-S"
    pub detail: String,
    pub fragment: bool,
    pub raw: bool,
    pub ip: Option<ip::IpInfo>,
    /// which checksums were recomputed and compared for this frame
    pub checksums_verified: Vec<&'static str>,
    pub lowpan_fragment: bool,
    /// checksum field of an emitted UDP datagram
    pub udp_checksum_field: Option<u16>,
}

impl FrameInfo {
    pub fn class(&self) -> String {
        if self.detail.is_empty() {
            format!("{}/{}", self.l3, self.l4)
        } else {
            format!("{}/{}", self.l3, self.detail)
        }
    }
}

/// Exemptions from "the source is one of the interface's addresses" that the upper layer justifies.
#[derive(Clone, Copy, Debug, PartialEq)]
enum SrcExempt {
    None,
    Dhcp,
    MldReport,
    NdiscUnspecified,
    /// IPv4 fragment: the upper layer is judged (and the source rule applied) when the datagram is reassembled
    DeferredToReassembly,
}

struct LinkCtx {
    medium: Medium,
    eth_src: Option<[u8; 6]>,
    eth_dst: Option<[u8; 6]>,
}

/// Judge one frame. See the module documentation.
pub fn validate_frame(medium: Medium, mtu: usize, caps_tx: TxChecksums, view: &IfaceView, frame: &[u8]) -> Vec<Defect> {
    validate_frame_ex(medium, mtu, caps_tx, view, frame).0
}

pub fn validate_frame_ex(medium: Medium, mtu: usize, caps_tx: TxChecksums, view: &IfaceView, frame: &[u8]) -> (Vec<Defect>, FrameInfo) {
    let mut s = Sink::default();
    let mut info = FrameInfo::default();
    if frame.len() > mtu {
        s.bad(
            &format!("{}:frame:exceeds-mtu", medium.name()),
            format!("frame of {} bytes handed to a device whose maximum transmission unit is {}", frame.len(), mtu),
        );
    }
    if frame.is_empty() {
        s.bad(&format!("{}:frame:empty", medium.name()), "empty frame".to_string());
        return (s.defects, info);
    }
    match medium {
        Medium::Ethernet => validate_ethernet(frame, caps_tx, view, &mut s, &mut info),
        Medium::Ip => {
            let link = LinkCtx { medium, eth_src: None, eth_dst: None };
            validate_ip(frame, caps_tx, view, &link, &mut s, &mut info);
        }
        Medium::Ieee802154 => validate_154(frame, caps_tx, view, &mut s, &mut info),
    }
    (s.defects, info)
}

fn validate_ethernet(frame: &[u8], caps: TxChecksums, view: &IfaceView, s: &mut Sink, info: &mut FrameInfo) {
    let e = match eth::parse(frame) {
        Ok(e) => e,
        Err(m) => {
            s.bad("ethernet:length:truncated", m);
            info.l3 = "?".into();
            return;
        }
    };
    if eth::is_group(&e.src) {
        s.bad("ethernet:source:group-address", format!("Ethernet source {} has the group bit set", eth::mac_str(&e.src)));
    }
    match e.ethertype {
        eth::ETHERTYPE_ARP => {
            info.l3 = "arp".into();
            if let Some(a) = arp::validate(e.payload, &e.src, s) {
                info.l4 = if a.op == arp::OP_REQUEST { "request".into() } else { "reply".into() };
                // the sender protocol address plays the role of the IP source
                let spa = Addr::V4(a.spa);
                if spa.is_multicast() || spa.is_limited_broadcast() || view.is_subnet_broadcast(&spa) || a.spa[0] >= 240 {
                    s.bad("arp:sender-protocol-address:not-unicast", format!("ARP {} announces sender protocol address {}", info.l4, spa));
                } else if !spa.is_unspecified() && !view.owns(&spa) {
                    s.bad(
                        "arp:sender-protocol-address:not-own",
                        format!("ARP {} announces sender protocol address {}, interface addresses are {}", info.l4, spa, addr_list(view)),
                    );
                }
                if a.op == arp::OP_REPLY && a.tha != e.dst && e.dst != eth::BROADCAST {
                    s.bad(
                        "arp:target-hardware-address:differs-from-frame-destination",
                        format!("ARP reply for {} sent to {}", eth::mac_str(&a.tha), eth::mac_str(&e.dst)),
                    );
                }
            }
        }
        eth::ETHERTYPE_IPV4 | eth::ETHERTYPE_IPV6 => {
            let link = LinkCtx { medium: Medium::Ethernet, eth_src: Some(e.src), eth_dst: Some(e.dst) };
            if !e.payload.is_empty() {
                let v = e.payload[0] >> 4;
                if (e.ethertype == eth::ETHERTYPE_IPV4) != (v == 4) {
                    s.bad("ethernet:ethertype:disagrees-with-ip-version", format!("ethertype {:#06x} carries IP version {}", e.ethertype, v));
                }
            }
            validate_ip(e.payload, caps, view, &link, s, info);
        }
        t => {
            info.l3 = "?".into();
            s.bad("ethernet:ethertype:unexpected", format!("ethertype {:#06x}", t));
        }
    }
}

fn addr_list(view: &IfaceView) -> String {
    if view.addrs.is_empty() {
        return "(none)".into();
    }
    view.addrs.iter().map(|(a, p)| format!("{}/{}", a, p)).collect::<Vec<_>>().join(", ")
}

/// Walk an IPv4 option list (RFC 791 §3.1).
fn check_ipv4_options(o: &[u8], s: &mut Sink) {
    let mut o = o;
    while !o.is_empty() {
        match o[0] {
            0 => {
                if o.iter().any(|x| *x != 0) {
                    s.bad("ipv4:options:nonzero-after-end", format!("bytes after End-of-Options: {:02x?}", o));
                }
                return;
            }
            1 => o = &o[1..],
            k => {
                if o.len() < 2 || (o[1] as usize) < 2 || o[1] as usize > o.len() {
                    s.bad("ipv4:options:malformed", format!("option {} with {} bytes left", k, o.len()));
                    return;
                }
                o = &o[o[1] as usize..];
            }
        }
    }
}

/// Walk the TLV options of a hop-by-hop / destination options header (RFC 8200 §4.2).
fn check_v6_tlv_options(o: &[u8], which: &str, s: &mut Sink) {
    let mut o = o;
    while !o.is_empty() {
        if o[0] == 0 {
            o = &o[1..];
            continue;
        }
        if o.len() < 2 || 2 + o[1] as usize > o.len() {
            s.bad("ipv6:ext-header:option-overruns-header", format!("{} option type {} with {} bytes left", which, o[0], o.len()));
            return;
        }
        let l = o[1] as usize;
        if o[0] == 1 && o[2..2 + l].iter().any(|x| *x != 0) {
            s.bad("ipv6:ext-header:padn-nonzero", format!("{} PadN option carries {:02x?}", which, &o[2..2 + l]));
        }
        o = &o[2 + l..];
    }
}

fn validate_ip(p: &[u8], caps: TxChecksums, view: &IfaceView, link: &LinkCtx, s: &mut Sink, info: &mut FrameInfo) {
    if p.is_empty() {
        s.bad("ip:length:empty", "no IP packet in the frame".to_string());
        info.l3 = "?".into();
        return;
    }
    let version = p[0] >> 4;
    let fam = match version {
        4 => "ipv4",
        6 => "ipv6",
        v => {
            s.bad("ip:version:unknown", format!("IP version {}", v));
            info.l3 = "?".into();
            return;
        }
    };
    info.l3 = fam.into();
    let ipi = match ip::parse(p, true) {
        Ok(i) => i,
        Err(m) => {
            let sig = if m.contains("total length") || m.contains("payload length") {
                format!("{}:length-field:mismatch", fam)
            } else if m.contains("IHL") {
                "ipv4:ihl:inconsistent".to_string()
            } else if m.contains("reserved flag") {
                "ipv4:flags:reserved-set".to_string()
            } else if m.contains("extension header") {
                "ipv6:ext-header:malformed".to_string()
            } else {
                format!("{}:header:malformed", fam)
            };
            s.bad(&sig, m);
            return;
        }
    };
    let raw = (view.is_raw)(p);
    info.raw = raw;
    if version == 4 {
        if caps.ipv4 {
            info.checksums_verified.push("ipv4");
            if !ipi.v4_header_ok {
                let mut h = p[..ipi.header_len].to_vec();
                put16(&mut h, 10, 0);
                s.bad(
                    "ipv4:header-checksum:wrong",
                    format!("IPv4 header checksum field {:#06x}, RFC 1071 value is {:#06x}", be16(p, 10), cksum::checksum(&[&h])),
                );
            }
        }
        if ipi.header_len > 20 {
            check_ipv4_options(&p[20..ipi.header_len], s);
        }
        if ipi.hop_limit == 0 {
            s.bad("ipv4:ttl:zero", "datagram sent with TTL 0".to_string());
        }
        if ipi.more_frags {
            if ipi.payload_len == 0 || ipi.payload_len % 8 != 0 {
                s.bad(
                    "ipv4:fragment:size-not-multiple-of-8",
                    format!("fragment with MF set carries {} payload bytes at offset {}", ipi.payload_len, ipi.frag_offset),
                );
            }
        }
        if ipi.frag_offset + ipi.payload_len > 65535 - 20 + 20 {
            // offset + length must stay inside a 65535-byte datagram
            if ipi.frag_offset + ipi.payload_len + ipi.header_len > 65535 {
                s.bad("ipv4:fragment:beyond-65535", format!("fragment covers up to {}", ipi.frag_offset + ipi.payload_len));
            }
        }
        if (ipi.more_frags || ipi.frag_offset != 0) && ipi.dont_frag {
            // not an error by itself; recorded by the caller as a class
        }
    } else {
        if ipi.hop_limit == 0 {
            s.bad("ipv6:hop-limit:zero", "packet sent with hop limit 0".to_string());
        }
        // extension headers: hop-by-hop only directly after the fixed header; TLV options well-formed
        let mut off = 40;
        let mut nh = p[6];
        for (i, e) in ipi.ext.iter().enumerate() {
            if *e == 0 && i != 0 {
                s.bad("ipv6:ext-header:hop-by-hop-not-first", "hop-by-hop options header is not the first extension header".to_string());
            }
            let l = if *e == 44 { 8 } else { (p[off + 1] as usize + 1) * 8 };
            if *e == 0 || *e == 60 {
                check_v6_tlv_options(&p[off + 2..off + l], if *e == 0 { "hop-by-hop" } else { "destination" }, s);
            }
            nh = p[off];
            off += l;
        }
        let _ = nh;
    }
    info.ip = Some(ipi.clone());
    let payload = &p[ipi.payload_off..ipi.payload_off + ipi.payload_len];
    let is_fragment = version == 4 && (ipi.more_frags || ipi.frag_offset != 0);
    let mut exempt = SrcExempt::None;
    if raw {
        info.l4 = "raw".into();
    } else if is_fragment {
        info.fragment = true;
        info.l4 = "frag".into();
        info.detail = if ipi.frag_offset == 0 { "frag-first".into() } else if ipi.more_frags { "frag-middle".into() } else { "frag-last".into() };
        // A fragment does not show which protocol justifies an unspecified source (DHCP does when the
        // DISCOVER exceeds a small MTU); `Judge` applies the rule to the reassembled datagram.
        if ipi.src.is_unspecified() {
            exempt = SrcExempt::DeferredToReassembly;
        }
    } else {
        exempt = validate_transport(&ipi, p, payload, caps, view, link, s, info);
    }
    // ---- link-layer destination must match the IP destination class (RFC 1112 §6.4, RFC 2464 §7, RFC 894)
    if let Some(ed) = link.eth_dst {
        match ipi.dst {
            Addr::V4(d) => {
                if ipi.dst.is_multicast() {
                    if ed != eth::mcast_mac_v4(&d) {
                        s.bad(
                            "ethernet:destination:not-the-multicast-mapping",
                            format!("IPv4 group {} sent to {} (RFC 1112 maps it to {})", ipi.dst, eth::mac_str(&ed), eth::mac_str(&eth::mcast_mac_v4(&d))),
                        );
                    }
                } else if ipi.dst.is_limited_broadcast() && ed != eth::BROADCAST {
                    s.bad("ethernet:destination:broadcast-datagram-to-unicast-mac", format!("255.255.255.255 sent to {}", eth::mac_str(&ed)));
                }
            }
            Addr::V6(d) => {
                if ipi.dst.is_multicast() && ed != eth::mcast_mac_v6(&d) {
                    s.bad(
                        "ethernet:destination:not-the-multicast-mapping",
                        format!("IPv6 group {} sent to {} (RFC 2464 maps it to {})", ipi.dst, eth::mac_str(&ed), eth::mac_str(&eth::mcast_mac_v6(&d))),
                    );
                }
            }
        }
    }
    if ipi.dst.is_unspecified() {
        s.bad(&format!("{}:destination:unspecified", fam), "packet addressed to the unspecified address".to_string());
    }
    // ---- the source-address rule
    if !raw {
        check_source(&ipi, exempt, view, fam, &info.class(), s);
    }
}

fn check_source(ipi: &ip::IpInfo, exempt: SrcExempt, view: &IfaceView, fam: &str, what: &str, s: &mut Sink) {
    let src = ipi.src;
    if src.is_multicast() {
        s.bad(&format!("{}:source:multicast", fam), format!("{} sent from the multicast address {} to {}", what, src, ipi.dst));
        return;
    }
    if src.is_limited_broadcast() || view.is_subnet_broadcast(&src) {
        s.bad(
            &format!("{}:source:broadcast", fam),
            format!("{} sent from the broadcast address {} to {} (interface addresses: {})", what, src, ipi.dst, addr_list(view)),
        );
        return;
    }
    if src.is_unspecified() {
        let ok = match exempt {
            SrcExempt::Dhcp => view.dhcp_unconfigured,
            SrcExempt::MldReport => !view.has_link_local_v6(),
            SrcExempt::NdiscUnspecified => true,
            SrcExempt::DeferredToReassembly => true,
            SrcExempt::None => false,
        };
        if !ok {
            let why = match exempt {
                SrcExempt::Dhcp => " although the DHCP client holds a lease",
                SrcExempt::MldReport => " although the interface has a link-local address",
                _ => "",
            };
            s.bad(
                &format!("{}:source:unspecified", fam),
                format!("{} sent from the unspecified address to {}{} (interface addresses: {})", what, ipi.dst, why, addr_list(view)),
            );
        }
        return;
    }
    if src.is_loopback() && ipi.dst.is_loopback() {
        // a packet from ::1 / 127.0.0.1 to the loopback address was accepted from the network and is
        // answered in kind (the frame leaves the node with loopback addresses): its own signature,
        // because the root cause is the ingress filter, not source-address selection
        s.bad(
            &format!("{}:source:loopback-to-loopback", fam),
            format!("{} sent from {} to {} on a physical link (interface addresses: {})", what, src, ipi.dst, addr_list(view)),
        );
        return;
    }
    if src.is_loopback() {
        s.bad(
            &format!("{}:source:loopback", fam),
            format!("{} sent from the loopback address {} to {} on a physical link (interface addresses: {})", what, src, ipi.dst, addr_list(view)),
        );
        return;
    }
    if !view.owns(&src) && !view.any_ip_dsts.contains(&src) {
        s.bad(
            &format!("{}:source:not-own", fam),
            format!("{} sent from {} to {}, which is none of the interface's addresses ({})", what, src, ipi.dst, addr_list(view)),
        );
    }
}

fn flag_letters(seg: &tcp::Seg) -> String {
    seg.flag_str()
}

#[allow(clippy::too_many_arguments)]
fn validate_transport(ipi: &ip::IpInfo, packet: &[u8], payload: &[u8], caps: TxChecksums, view: &IfaceView, link: &LinkCtx, s: &mut Sink, info: &mut FrameInfo) -> SrcExempt {
    let v4 = ipi.src.is_v4();
    let mut exempt = SrcExempt::None;
    match ipi.proto {
        ip::PROTO_TCP => {
            info.l4 = "tcp".into();
            let fam = if v4 { "tcp4" } else { "tcp6" };
            if payload.len() < 20 {
                s.bad("tcp:length:truncated", format!("TCP segment of {} bytes", payload.len()));
                return exempt;
            }
            let hl = ((payload[12] >> 4) as usize) * 4;
            if hl < 20 || hl > payload.len() {
                s.bad("tcp:data-offset:inconsistent", format!("data offset {} bytes in a segment of {} bytes", hl, payload.len()));
                return exempt;
            }
            if payload[12] & 0x0f != 0 {
                s.bad("tcp:reserved-bits:nonzero", format!("octet 12 = {:#04x}: reserved bits set", payload[12]));
            }
            let seg = match tcp::parse(&ipi.src, &ipi.dst, payload) {
                Ok(x) => x,
                Err(m) => {
                    s.bad("tcp:header:malformed", m);
                    return exempt;
                }
            };
            info.detail = format!("tcp-{}", flag_letters(&seg));
            if caps.tcp {
                info.checksums_verified.push("tcp");
                if !seg.checksum_ok {
                    let mut c = payload.to_vec();
                    cksum::transport_fill(&ipi.src, &ipi.dst, ip::PROTO_TCP, &mut c, 16);
                    s.bad(
                        &format!("{}:checksum:wrong", fam),
                        format!("TCP checksum field {:#06x}, value over the pseudo header {} -> {} is {:#06x}", be16(payload, 16), ipi.src, ipi.dst, be16(&c, 16)),
                    );
                }
            }
            for d in &seg.opt_defects {
                let sig = if d.contains("after End-of-Options") { "tcp:options:padding-nonzero" } else { "tcp:options:malformed" };
                s.bad(sig, format!("{} (option bytes {:02x?})", d, &payload[20..hl]));
            }
            if !seg.is(tcp::SYN) {
                if seg.mss.is_some() || seg.wscale.is_some() || seg.sack_perm {
                    s.bad(
                        "tcp:options:syn-only-option-on-non-syn",
                        format!("segment [{}] carries MSS/window-scale/SACK-permitted (option bytes {:02x?})", seg.flag_str(), &payload[20..hl]),
                    );
                }
            } else {
                if let Some(w) = seg.wscale {
                    if w > 14 {
                        s.bad("tcp:options:window-scale-above-14", format!("window scale {}", w));
                    }
                }
                if seg.mss == Some(0) {
                    s.bad("tcp:options:mss-zero", "SYN announces MSS 0".to_string());
                }
                if !seg.sack.is_empty() {
                    s.bad("tcp:options:sack-blocks-on-syn", "SYN carries SACK blocks".to_string());
                }
            }
        }
        ip::PROTO_UDP => {
            info.l4 = "udp".into();
            if caps.udp {
                info.checksums_verified.push("udp");
            }
            let Some(u) = udp::validate(&ipi.src, &ipi.dst, payload, caps.udp, caps.udp4_zero_ok, s) else {
                return exempt;
            };
            info.udp_checksum_field = Some(u.cksum);
            if v4 && u.sport == 68 && u.dport == 67 {
                info.detail = "dhcp".into();
                exempt = SrcExempt::Dhcp;
                if let Some(d) = dhcp_v::validate_client(ipi, u.payload, link.eth_src.as_ref(), s) {
                    info.detail = match d.msg_type {
                        Some(dhcp_v::DISCOVER) => "dhcp-discover".into(),
                        Some(dhcp_v::REQUEST) => {
                            if d.ciaddr != [0; 4] {
                                "dhcp-request-renew".into()
                            } else {
                                "dhcp-request-select".into()
                            }
                        }
                        Some(t) => format!("dhcp-type-{}", t),
                        None => "dhcp".into(),
                    };
                    // 0.0.0.0 is the source exactly while the client owns no address
                    if !ipi.src.is_unspecified() && view.dhcp_unconfigured && d.ciaddr == [0; 4] {
                        // a client without lease and without ciaddr speaks from 0.0.0.0 (RFC 2131 §4.1)
                        s.bad(
                            "dhcp:unconfigured-client:source-not-unspecified",
                            format!("{} from a client without lease sent from {}", info.detail, ipi.src),
                        );
                    }
                }
            } else if view.dns_on_53 && (u.dport == 53 || u.dport == 5353) {
                info.detail = if u.dport == 53 { "dns".into() } else { "mdns".into() };
                dns_v::validate(u.payload, u.dport == 5353, s);
            }
        }
        ip::PROTO_ICMP if v4 => {
            info.l4 = "icmpv4".into();
            if caps.icmpv4 {
                info.checksums_verified.push("icmpv4");
            }
            let k = icmp::validate_v4(ipi, payload, caps.icmpv4, s);
            info.detail = format!("icmpv4-{}", k.name);
        }
        ip::PROTO_IGMP if v4 => {
            info.l4 = "igmp".into();
            info.checksums_verified.push("igmp");
            let n = igmp::validate(ipi, payload, s);
            info.detail = format!("igmp-{}", n);
            if !igmp::has_router_alert(packet, ipi) {
                info.detail.push_str("-noRA");
            }
        }
        ip::PROTO_ICMPV6 if !v4 => {
            info.l4 = "icmpv6".into();
            if caps.icmpv6 {
                info.checksums_verified.push("icmpv6");
            }
            let (ty, k) = icmp::validate_v6(ipi, payload, caps.icmpv6, s);
            info.detail = format!("icmpv6-{}", k.name);
            match ty {
                133..=137 => {
                    let lk = match link.medium {
                        Medium::Ethernet => LinkKind::Ethernet,
                        Medium::Ieee802154 => LinkKind::Ieee802154,
                        Medium::Ip => LinkKind::None,
                    };
                    let n = ndisc::validate(ipi, payload, lk, s);
                    info.detail = match ty {
                        ndisc::RS => "ndisc-rs".into(),
                        ndisc::RA => "ndisc-ra".into(),
                        ndisc::NS => "ndisc-ns".into(),
                        ndisc::NA => "ndisc-na".into(),
                        _ => "ndisc-redirect".into(),
                    };
                    if (ty == ndisc::NS || ty == ndisc::RS) && !n.has_slla {
                        exempt = SrcExempt::NdiscUnspecified;
                    }
                    // the advertised link-layer address is the one the frame was sent from
                    if let (Some(ll), Some(es)) = (&n.lladdr, link.eth_src) {
                        if (ty == ndisc::NS || ty == ndisc::RS || ty == ndisc::NA) && ll[..] != es[..] {
                            s.bad(
                                "ndisc:lladdr-option:differs-from-frame-source",
                                format!("{} announces link-layer address {} but the frame was sent by {}", info.detail, eth::mac_str(ll), eth::mac_str(&es)),
                            );
                        }
                    }
                    // an advertisement answers for one of our own addresses
                    if ty == ndisc::NA {
                        if let Some(t) = n.target {
                            if !view.owns(&Addr::V6(t)) {
                                s.bad(
                                    "ndisc:na:target-not-own",
                                    format!("neighbor advertisement for {}, interface addresses are {}", Addr::V6(t), addr_list(view)),
                                );
                            }
                        }
                    }
                }
                130 | 131 | 132 | 143 => {
                    let m = mld::validate(ipi, packet, payload, s);
                    info.detail = match ty {
                        143 => format!("mld-v2-report-{}rec", m.records.len().min(5)),
                        130 => "mld-query".into(),
                        131 => "mld-v1-report".into(),
                        _ => "mld-v1-done".into(),
                    };
                    if ty == 143 || ty == 131 {
                        exempt = SrcExempt::MldReport;
                    }
                }
                _ => {}
            }
        }
        59 if !v4 => {
            info.l4 = "no-next-header".into();
        }
        p => {
            // nothing is known about other protocols (they can only stem from raw sockets)
            info.l4 = format!("proto-{}", p);
        }
    }
    exempt
}

fn validate_154(frame: &[u8], caps: TxChecksums, view: &IfaceView, s: &mut Sink, info: &mut FrameInfo) {
    let Some(m) = lowpan_v::validate_mac(frame, s) else {
        info.l3 = "?".into();
        return;
    };
    let l = match lowpan_v::parse_lowpan(&m, &view.contexts) {
        Ok(l) => l,
        Err(e) => {
            let sig = if e.contains("C=1") {
                "sixlowpan:udp-nhc:checksum-elided"
            } else if e.contains("reserved") {
                "sixlowpan:iphc:reserved-encoding"
            } else if e.contains("context") {
                "sixlowpan:iphc:unknown-context"
            } else if e.contains("NHC") {
                "sixlowpan:nhc:malformed"
            } else if e.contains("dispatch") {
                "sixlowpan:dispatch:unknown"
            } else {
                "sixlowpan:header:truncated-or-malformed"
            };
            s.bad(sig, e);
            info.l3 = "?".into();
            return;
        }
    };
    lowpan_v::validate_fragment(&l, s);
    match l {
        Lowpan::Whole(p) => {
            let link = LinkCtx { medium: Medium::Ieee802154, eth_src: None, eth_dst: None };
            validate_ip(&p, caps, view, &link, s, info);
            check_154_destination(&m, info, s);
        }
        Lowpan::Frag1 { data, size, .. } => {
            info.lowpan_fragment = true;
            info.l3 = "ipv6".into();
            info.l4 = "6lo-frag1".into();
            // the IPv6 header is complete in a first fragment: judge the addresses now
            if data.len() >= 40 {
                let mut hdr = data[..40].to_vec();
                put16(&mut hdr, 4, 0);
                hdr[6] = 59;
                if let Ok(ipi) = ip::parse(&hdr, true) {
                    let fake = ip::IpInfo { total_len: size, ..ipi };
                    info.ip = Some(fake.clone());
                    check_source(&fake, SrcExempt::None, view, "ipv6", "6LoWPAN first fragment", s);
                    check_154_destination(&m, info, s);
                }
            }
        }
        Lowpan::FragN { .. } => {
            info.lowpan_fragment = true;
            info.l3 = "ipv6".into();
            info.l4 = "6lo-fragn".into();
        }
    }
}

/// A multicast IPv6 destination travels to the 802.15.4 broadcast address (RFC 4944 §9 / §3).
fn check_154_destination(m: &lowpan_v::Mac<'_>, info: &FrameInfo, s: &mut Sink) {
    if let Some(ipi) = &info.ip {
        if ipi.dst.is_multicast() && !m.dst.is_broadcast() {
            if let lowpan_v::LlAddr::Short(x) = m.dst {
                // RFC 4944 §9: 100xxxxx xxxxxxxx built from the last two octets of the group
                if let Addr::V6(d) = ipi.dst {
                    if x == [0x80 | (d[14] & 0x1f), d[15]] {
                        return;
                    }
                }
            }
            s.bad(
                "ieee802154:destination:multicast-not-broadcast",
                format!("IPv6 group {} sent to the link-layer unicast address {:?}", ipi.dst, m.dst),
            );
        }
    }
}

// ------------------------------------------------------------------------- Judge

#[derive(Default)]
struct Reasm {
    /// (offset, bytes)
    parts: Vec<(usize, Vec<u8>)>,
    total: Option<usize>,
    first_header: Vec<u8>,
}

impl Reasm {
    fn complete(&self) -> Option<Vec<u8>> {
        let total = self.total?;
        let mut buf = vec![0u8; total];
        let mut have = vec![false; total];
        for (o, d) in &self.parts {
            if o + d.len() > total {
                return None;
            }
            buf[*o..o + d.len()].copy_from_slice(d);
            for h in &mut have[*o..o + d.len()] {
                *h = true;
            }
        }
        if have.iter().all(|h| *h) {
            Some(buf)
        } else {
            None
        }
    }
    fn overlaps(&self, o: usize, l: usize) -> bool {
        self.parts.iter().any(|(po, pd)| o < po + pd.len() && *po < o + l)
    }
}

#[derive(Default, Clone, Debug)]
pub struct JudgeStats {
    pub frames: u64,
    pub defects: u64,
    pub v4_fragments: u64,
    pub v4_datagrams_reassembled: u64,
    pub lowpan_fragments: u64,
    pub lowpan_datagrams_reassembled: u64,
    pub checksums_verified: u64,
}

/// Stateful judge for the frames of ONE interface: `validate_frame` per frame plus reassembly.
pub struct Judge {
    pub medium: Medium,
    pub mtu: usize,
    pub caps: TxChecksums,
    v4: BTreeMap<(Addr, Addr, u8, u16), Reasm>,
    lo: BTreeMap<(lowpan_v::LlAddr, lowpan_v::LlAddr, u16, usize), Reasm>,
    pub stats: JudgeStats,
}

pub struct Verdict {
    pub defects: Vec<Defect>,
    pub info: FrameInfo,
    /// set when this frame completed a fragmented datagram: what the datagram was
    pub reassembled: Option<FrameInfo>,
    /// the reassembled IP packet itself
    pub reassembled_packet: Option<Vec<u8>>,
}

impl Judge {
    pub fn new(medium: Medium, mtu: usize, caps: TxChecksums) -> Judge {
        Judge { medium, mtu, caps, v4: BTreeMap::new(), lo: BTreeMap::new(), stats: JudgeStats::default() }
    }

    /// number of fragmented datagrams still incomplete
    pub fn pending(&self) -> usize {
        self.v4.len() + self.lo.len()
    }

    pub fn frame(&mut self, view: &IfaceView, frame: &[u8]) -> Verdict {
        let (mut defects, info) = validate_frame_ex(self.medium, self.mtu, self.caps, view, frame);
        self.stats.frames += 1;
        self.stats.checksums_verified += info.checksums_verified.len() as u64;
        let mut reassembled = None;
        let mut reassembled_packet = None;
        let mut s = Sink::default();
        if info.fragment && !info.raw {
            self.stats.v4_fragments += 1;
            if let Some(ipi) = &info.ip {
                let ip_packet: &[u8] = match self.medium {
                    Medium::Ethernet => &frame[14..],
                    _ => frame,
                };
                let key = (ipi.src, ipi.dst, ipi.proto, ipi.ident);
                let data = ip_packet[ipi.payload_off..ipi.payload_off + ipi.payload_len].to_vec();
                let r = self.v4.entry(key).or_default();
                if r.overlaps(ipi.frag_offset, data.len()) {
                    s.bad(
                        "ipv4:fragment:overlaps-earlier-fragment",
                        format!("fragment [{}, {}) of datagram id {:#06x} overlaps bytes sent before", ipi.frag_offset, ipi.frag_offset + data.len(), ipi.ident),
                    );
                }
                if !ipi.more_frags {
                    let t = ipi.frag_offset + data.len();
                    if r.total.is_some() && r.total != Some(t) {
                        s.bad("ipv4:fragment:two-last-fragments", format!("datagram id {:#06x} ends at {} and at {}", ipi.ident, r.total.unwrap(), t));
                    }
                    r.total = Some(t);
                }
                if ipi.frag_offset == 0 {
                    r.first_header = ip_packet[..ipi.header_len].to_vec();
                }
                r.parts.push((ipi.frag_offset, data));
                if let Some(full) = r.complete() {
                    let hdr = r.first_header.clone();
                    self.v4.remove(&key);
                    if hdr.len() >= 20 {
                        self.stats.v4_datagrams_reassembled += 1;
                        // rebuild the unfragmented datagram and judge its transport part
                        let mut whole = hdr.clone();
                        whole.extend_from_slice(&full);
                        let tl = whole.len();
                        if tl <= 65535 {
                            put16(&mut whole, 2, tl as u16);
                            put16(&mut whole, 6, 0);
                            put16(&mut whole, 10, 0);
                            let c = cksum::checksum(&[&whole[..hdr.len()]]);
                            put16(&mut whole, 10, c);
                            let link = LinkCtx { medium: self.medium, eth_src: None, eth_dst: None };
                            let mut ri = FrameInfo::default();
                            let mut caps = self.caps;
                            caps.ipv4 = false;
                            validate_ip(&whole, caps, view, &link, &mut s, &mut ri);
                            self.stats.checksums_verified += ri.checksums_verified.len() as u64;
                            reassembled = Some(ri);
                            reassembled_packet = Some(whole);
                        } else {
                            s.bad("ipv4:fragment:beyond-65535", format!("reassembled datagram of {} bytes", tl));
                        }
                    }
                }
            }
        }
        if info.lowpan_fragment {
            self.stats.lowpan_fragments += 1;
            if let Ok(m) = lowpan_v::parse_mac(frame) {
                if let Ok(l) = lowpan_v::parse_lowpan(&m, &view.contexts) {
                    let (size, tag, off, data) = match l {
                        Lowpan::Frag1 { size, tag, data } => (size, tag, 0, data),
                        Lowpan::FragN { size, tag, offset, data } => (size, tag, offset, data),
                        Lowpan::Whole(_) => (0, 0, 0, Vec::new()),
                    };
                    let key = (m.src, m.dst, tag, size);
                    let r = self.lo.entry(key).or_default();
                    r.total = Some(size);
                    if r.overlaps(off, data.len()) {
                        s.bad(
                            "sixlowpan:fragment:overlaps-earlier-fragment",
                            format!("fragment [{}, {}) of datagram tag {:#06x} overlaps bytes sent before", off, off + data.len(), tag),
                        );
                    }
                    if off + data.len() <= size {
                        r.parts.push((off, data));
                    }
                    if let Some(full) = r.complete() {
                        self.lo.remove(&key);
                        self.stats.lowpan_datagrams_reassembled += 1;
                        let link = LinkCtx { medium: Medium::Ieee802154, eth_src: None, eth_dst: None };
                        let mut ri = FrameInfo::default();
                        validate_ip(&full, self.caps, view, &link, &mut s, &mut ri);
                        self.stats.checksums_verified += ri.checksums_verified.len() as u64;
                        reassembled = Some(ri);
                        reassembled_packet = Some(full);
                    }
                }
            }
        }
        for d in s.defects {
            if !defects.iter().any(|x| x.sig == d.sig) {
                defects.push(Defect { sig: d.sig, desc: format!("(after reassembly) {}", d.desc) });
            }
        }
        self.stats.defects += defects.len() as u64;
        Verdict { defects, info, reassembled, reassembled_packet }
    }
}
