//! Neighbor Discovery messages and options (RFC 4861, RFC 4944 §8 / RFC 6775 for IEEE 802.15.4 link-layer options).
use super::validate::Sink;
use super::*;

pub const RS: u8 = 133;
pub const RA: u8 = 134;
pub const NS: u8 = 135;
pub const NA: u8 = 136;
pub const REDIRECT: u8 = 137;

pub const OPT_SLLA: u8 = 1;
pub const OPT_TLLA: u8 = 2;
pub const OPT_PREFIX: u8 = 3;
pub const OPT_REDIRECTED: u8 = 4;
pub const OPT_MTU: u8 = 5;

#[derive(Clone, Copy, Debug, PartialEq)]
pub enum LinkKind {
    Ethernet,
    Ieee802154,
    /// no link-layer addresses (point-to-point IP medium)
    None,
}

#[derive(Clone, Debug, Default, PartialEq)]
pub struct Ndisc {
    pub ty: u8,
    pub target: Option<[u8; 16]>,
    pub has_slla: bool,
    pub has_tlla: bool,
    pub lladdr: Option<Vec<u8>>,
    pub na_flags: u8,
}

fn fixed_len(ty: u8) -> usize {
    match ty {
        RS => 8,
        RA => 16,
        NS | NA => 24,
        _ => 40,
    }
}

/// Build a Neighbor Solicitation / Advertisement with an optional link-layer address option.
pub fn build(src: &Addr, dst: &Addr, ty: u8, flags: u8, target: &[u8; 16], lladdr: Option<&[u8]>) -> Vec<u8> {
    let mut body = vec![0u8; 4];
    body[0] = flags;
    body.extend_from_slice(target);
    if let Some(ll) = lladdr {
        let opt_ty = if ty == NS { OPT_SLLA } else { OPT_TLLA };
        let units = (2 + ll.len() + 7) / 8;
        let mut o = vec![0u8; units * 8];
        o[0] = opt_ty;
        o[1] = units as u8;
        o[2..2 + ll.len()].copy_from_slice(ll);
        body.extend_from_slice(&o);
    }
    icmp::build_v6(src, dst, ty, 0, &body)
}

/// Router Advertisement with one prefix information option (for SLAAC scenarios).
pub fn build_ra(src: &Addr, dst: &Addr, router_lifetime: u16, prefix: &[u8; 16], prefix_len: u8, valid: u32, preferred: u32, lladdr: Option<&[u8]>) -> Vec<u8> {
    let mut body = vec![0u8; 12];
    body[0] = 64; // cur hop limit
    put16(&mut body, 2, router_lifetime);
    let mut p = vec![0u8; 32];
    p[0] = OPT_PREFIX;
    p[1] = 4;
    p[2] = prefix_len;
    p[3] = 0xc0; // on-link + autonomous
    put32(&mut p, 4, valid);
    put32(&mut p, 8, preferred);
    p[16..32].copy_from_slice(prefix);
    body.extend_from_slice(&p);
    if let Some(ll) = lladdr {
        let units = (2 + ll.len() + 7) / 8;
        let mut o = vec![0u8; units * 8];
        o[0] = OPT_SLLA;
        o[1] = units as u8;
        o[2..2 + ll.len()].copy_from_slice(ll);
        body.extend_from_slice(&o);
    }
    icmp::build_v6(src, dst, RA, 0, &body)
}

/// `b` = the ICMPv6 message (type 133..137), `outer` = carrying IPv6 header.
pub fn validate(outer: &ip::IpInfo, b: &[u8], link: LinkKind, s: &mut Sink) -> Ndisc {
    let ty = b[0];
    let mut n = Ndisc { ty, ..Default::default() };
    let name = match ty {
        RS => "rs",
        RA => "ra",
        NS => "ns",
        NA => "na",
        _ => "redirect",
    };
    // RFC 4861 §4.x / §6.1 / §7.1: hop limit 255, code 0
    if outer.hop_limit != 255 {
        s.bad("ndisc:hop-limit:not-255", format!("{} sent with hop limit {}", name, outer.hop_limit));
    }
    if !outer.ext.is_empty() {
        // permitted by the RFC, nothing to check
    }
    if b[1] != 0 {
        s.bad("ndisc:code:nonzero", format!("{} with code {}", name, b[1]));
    }
    let fl = fixed_len(ty);
    if b.len() < fl {
        s.bad("ndisc:length:truncated", format!("{} of {} bytes ({} needed)", name, b.len(), fl));
        return n;
    }
    match ty {
        RS => {
            if b[4..8].iter().any(|x| *x != 0) {
                s.bad("ndisc:rs:reserved-nonzero", format!("reserved field {:02x?}", &b[4..8]));
            }
        }
        NS => {
            if b[4..8].iter().any(|x| *x != 0) {
                s.bad("ndisc:ns:reserved-nonzero", format!("reserved field {:02x?}", &b[4..8]));
            }
            let mut t = [0u8; 16];
            t.copy_from_slice(&b[8..24]);
            if t[0] == 0xff {
                s.bad("ndisc:ns:target-multicast", format!("target {}", Addr::V6(t)));
            }
            n.target = Some(t);
        }
        NA => {
            n.na_flags = b[4];
            if b[4] & 0x1f != 0 || b[5..8].iter().any(|x| *x != 0) {
                s.bad("ndisc:na:reserved-nonzero", format!("flags/reserved field {:02x?}", &b[4..8]));
            }
            let mut t = [0u8; 16];
            t.copy_from_slice(&b[8..24]);
            if t[0] == 0xff {
                s.bad("ndisc:na:target-multicast", format!("target {}", Addr::V6(t)));
            }
            // RFC 4861 §7.1.2: solicited flag must be clear when the destination is multicast
            if b[4] & 0x40 != 0 && outer.dst.is_multicast() {
                s.bad("ndisc:na:solicited-to-multicast", format!("S flag set in an advertisement sent to {}", outer.dst));
            }
            n.target = Some(t);
        }
        RA => {}
        _ => {
            if b[4..8].iter().any(|x| *x != 0) {
                s.bad("ndisc:redirect:reserved-nonzero", format!("reserved field {:02x?}", &b[4..8]));
            }
        }
    }
    // options: type, length in units of 8 octets (non-zero), exactly filling the message
    let mut o = &b[fl..];
    while !o.is_empty() {
        if o.len() < 2 {
            s.bad("ndisc:option:truncated", format!("{}: {} stray byte(s) after the last option", name, o.len()));
            break;
        }
        let (oty, units) = (o[0], o[1] as usize);
        if units == 0 {
            s.bad("ndisc:option:zero-length", format!("{}: option type {} with length 0", name, oty));
            break;
        }
        let l = units * 8;
        if l > o.len() {
            s.bad("ndisc:option:overruns-message", format!("{}: option type {} needs {} bytes, {} left", name, oty, l, o.len()));
            break;
        }
        let d = &o[2..l];
        match oty {
            OPT_SLLA | OPT_TLLA => {
                if oty == OPT_SLLA {
                    n.has_slla = true;
                } else {
                    n.has_tlla = true;
                }
                let oname = if oty == OPT_SLLA { "source" } else { "target" };
                match link {
                    LinkKind::Ethernet => {
                        // RFC 2464 §6: length 1, six address octets
                        if units != 1 {
                            s.bad("ndisc:lladdr-option:length", format!("{} link-layer address option of {} units on Ethernet (1 expected)", oname, units));
                        } else {
                            n.lladdr = Some(d[..6].to_vec());
                        }
                    }
                    LinkKind::Ieee802154 => {
                        // RFC 4944 §8: length 2 (EUI-64, 6 octets of zero padding) or 1 (16-bit short address, 4 octets padding)
                        if units == 2 {
                            if d[8..].iter().any(|x| *x != 0) {
                                s.bad("ndisc:lladdr-option:padding-nonzero", format!("{} link-layer address option padding {:02x?}", oname, &d[8..]));
                            }
                            n.lladdr = Some(d[..8].to_vec());
                        } else if units == 1 {
                            if d[2..].iter().any(|x| *x != 0) {
                                s.bad("ndisc:lladdr-option:padding-nonzero", format!("{} link-layer address option padding {:02x?}", oname, &d[2..]));
                            }
                            n.lladdr = Some(d[..2].to_vec());
                        } else {
                            s.bad("ndisc:lladdr-option:length", format!("{} link-layer address option of {} units on IEEE 802.15.4", oname, units));
                        }
                    }
                    LinkKind::None => {}
                }
                let allowed = match (ty, oty) {
                    (RS, OPT_SLLA) | (RA, OPT_SLLA) | (NS, OPT_SLLA) => true,
                    (NA, OPT_TLLA) | (REDIRECT, OPT_TLLA) => true,
                    _ => false,
                };
                if !allowed {
                    s.bad("ndisc:option:not-allowed-in-message", format!("{} link-layer address option in a {}", oname, name));
                }
            }
            OPT_PREFIX => {
                if units != 4 {
                    s.bad("ndisc:prefix-option:length", format!("prefix information option of {} units (4 expected)", units));
                } else {
                    if d[0] > 128 {
                        s.bad("ndisc:prefix-option:prefix-length", format!("prefix length {}", d[0]));
                    }
                }
            }
            OPT_MTU => {
                if units != 1 {
                    s.bad("ndisc:mtu-option:length", format!("MTU option of {} units (1 expected)", units));
                } else if d[0] != 0 || d[1] != 0 {
                    s.bad("ndisc:mtu-option:reserved-nonzero", format!("reserved field {:02x?}", &d[..2]));
                }
            }
            OPT_REDIRECTED => {
                if d.len() >= 6 && d[..6].iter().any(|x| *x != 0) {
                    s.bad("ndisc:redirected-header-option:reserved-nonzero", format!("reserved field {:02x?}", &d[..6]));
                }
            }
            _ => {}
        }
        o = &o[l..];
    }
    // RFC 4861 §4.1 / §4.3 / §7.1.1: no source link-layer address with an unspecified source;
    // a solicitation from the unspecified address goes to a solicited-node multicast address
    if outer.src.is_unspecified() {
        if n.has_slla {
            s.bad("ndisc:slla-with-unspecified-source", format!("{} from :: carries a source link-layer address option", name));
        }
        if ty == NS {
            if let Addr::V6(d) = outer.dst {
                let sol = d[..13] == [0xff, 2, 0, 0, 0, 0, 0, 0, 0, 0, 0, 1, 0xff];
                if !sol {
                    s.bad("ndisc:ns:dad-not-to-solicited-node", format!("solicitation from :: sent to {}", outer.dst));
                }
            }
        }
    }
    // RFC 4861 §4.3: a multicast solicitation MUST carry the source link-layer address (when the link has addresses)
    if ty == NS && outer.dst.is_multicast() && !outer.src.is_unspecified() && !n.has_slla && link != LinkKind::None {
        s.bad("ndisc:ns:multicast-without-slla", "multicast solicitation without source link-layer address option".to_string());
    }
    // a solicitation sent to a solicited-node address must be sent to the one of its target
    if ty == NS {
        if let (Addr::V6(d), Some(t)) = (outer.dst, n.target) {
            if d[..13] == [0xff, 2, 0, 0, 0, 0, 0, 0, 0, 0, 0, 1, 0xff] && d[13..] != t[13..] {
                s.bad("ndisc:ns:solicited-node-mismatch", format!("solicitation for {} sent to {}", Addr::V6(t), outer.dst));
            }
        }
    }
    n
}
