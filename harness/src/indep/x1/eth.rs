//! Ethernet II framing (IEEE 802.3 / RFC 894, RFC 1112 §6.4, RFC 2464 §7).
use super::*;

pub const ETHERTYPE_IPV4: u16 = 0x0800;
pub const ETHERTYPE_ARP: u16 = 0x0806;
pub const ETHERTYPE_IPV6: u16 = 0x86dd;
pub const HEADER_LEN: usize = 14;
pub const BROADCAST: [u8; 6] = [0xff; 6];

#[derive(Clone, Debug, PartialEq)]
pub struct Eth<'a> {
    pub dst: [u8; 6],
    pub src: [u8; 6],
    pub ethertype: u16,
    pub payload: &'a [u8],
}

pub fn parse(f: &[u8]) -> R<Eth<'_>> {
    if f.len() < HEADER_LEN {
        return Err(format!("Ethernet frame of {} bytes", f.len()));
    }
    let mut dst = [0u8; 6];
    dst.copy_from_slice(&f[0..6]);
    let mut src = [0u8; 6];
    src.copy_from_slice(&f[6..12]);
    Ok(Eth { dst, src, ethertype: be16(f, 12), payload: &f[14..] })
}

pub fn build(dst: &[u8; 6], src: &[u8; 6], ethertype: u16, payload: &[u8]) -> Vec<u8> {
    let mut f = Vec::with_capacity(14 + payload.len());
    f.extend_from_slice(dst);
    f.extend_from_slice(src);
    f.push((ethertype >> 8) as u8);
    f.push(ethertype as u8);
    f.extend_from_slice(payload);
    f
}

/// group bit of a MAC address
pub fn is_group(m: &[u8; 6]) -> bool {
    m[0] & 1 == 1
}

/// RFC 1112 §6.4: 01-00-5E + low-order 23 bits of the group address
pub fn mcast_mac_v4(a: &[u8; 4]) -> [u8; 6] {
    [0x01, 0x00, 0x5e, a[1] & 0x7f, a[2], a[3]]
}

/// RFC 2464 §7: 33-33 + last four octets of the address
pub fn mcast_mac_v6(a: &[u8; 16]) -> [u8; 6] {
    [0x33, 0x33, a[12], a[13], a[14], a[15]]
}

pub fn mac_str(m: &[u8]) -> String {
    m.iter().map(|b| format!("{:02x}", b)).collect::<Vec<_>>().join(":")
}
