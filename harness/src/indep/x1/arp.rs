//! ARP for IPv4 over Ethernet (RFC 826).
use super::validate::Sink;
use super::*;

pub const LEN: usize = 28;
pub const OP_REQUEST: u16 = 1;
pub const OP_REPLY: u16 = 2;

#[derive(Clone, Debug, PartialEq)]
pub struct Arp {
    pub op: u16,
    pub sha: [u8; 6],
    pub spa: [u8; 4],
    pub tha: [u8; 6],
    pub tpa: [u8; 4],
}

pub fn build(a: &Arp) -> Vec<u8> {
    let mut p = vec![0u8; LEN];
    put16(&mut p, 0, 1);
    put16(&mut p, 2, 0x0800);
    p[4] = 6;
    p[5] = 4;
    put16(&mut p, 6, a.op);
    p[8..14].copy_from_slice(&a.sha);
    p[14..18].copy_from_slice(&a.spa);
    p[18..24].copy_from_slice(&a.tha);
    p[24..28].copy_from_slice(&a.tpa);
    p
}

/// Structural checks of an emitted ARP packet; returns the parsed packet when the fixed part is readable.
pub fn validate(p: &[u8], eth_src: &[u8; 6], s: &mut Sink) -> Option<Arp> {
    if p.len() < LEN {
        s.bad("arp:length:truncated", format!("ARP packet of {} bytes (28 needed for Ethernet/IPv4)", p.len()));
        return None;
    }
    if p.len() != LEN {
        s.bad("arp:length:trailing-bytes", format!("ARP packet carries {} bytes, an Ethernet/IPv4 ARP packet has exactly 28", p.len()));
    }
    if be16(p, 0) != 1 {
        s.bad("arp:htype:not-ethernet", format!("hardware type {}", be16(p, 0)));
    }
    if be16(p, 2) != 0x0800 {
        s.bad("arp:ptype:not-ipv4", format!("protocol type {:#06x}", be16(p, 2)));
    }
    if p[4] != 6 || p[5] != 4 {
        s.bad("arp:hlen-plen:mismatch", format!("hlen {} plen {} (6 and 4 expected)", p[4], p[5]));
        return None;
    }
    let op = be16(p, 6);
    if op != OP_REQUEST && op != OP_REPLY {
        s.bad("arp:operation:unknown", format!("operation {}", op));
    }
    let mut a = Arp { op, sha: [0; 6], spa: [0; 4], tha: [0; 6], tpa: [0; 4] };
    a.sha.copy_from_slice(&p[8..14]);
    a.spa.copy_from_slice(&p[14..18]);
    a.tha.copy_from_slice(&p[18..24]);
    a.tpa.copy_from_slice(&p[24..28]);
    if a.sha[0] & 1 == 1 {
        s.bad("arp:sender-hardware-address:group", format!("sender hardware address {} is a group address", eth::mac_str(&a.sha)));
    }
    if a.sha != *eth_src {
        s.bad(
            "arp:sender-hardware-address:differs-from-frame-source",
            format!("sender hardware address {} but the Ethernet source is {}", eth::mac_str(&a.sha), eth::mac_str(eth_src)),
        );
    }
    Some(a)
}
