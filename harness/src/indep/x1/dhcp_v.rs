//! DHCPv4 messages (RFC 2131, RFC 2132, RFC 951): validation of what a client emits, and a
//! small server-side builder for scripted replies.
use super::validate::Sink;
use super::*;

pub const COOKIE: [u8; 4] = [0x63, 0x82, 0x53, 0x63];
pub const FIXED: usize = 236;

pub const DISCOVER: u8 = 1;
pub const OFFER: u8 = 2;
pub const REQUEST: u8 = 3;
pub const DECLINE: u8 = 4;
pub const ACK: u8 = 5;
pub const NAK: u8 = 6;
pub const RELEASE: u8 = 7;
pub const INFORM: u8 = 8;

#[derive(Clone, Debug, Default, PartialEq)]
pub struct Dhcp {
    pub op: u8,
    pub xid: u32,
    pub secs: u16,
    pub flags: u16,
    pub ciaddr: [u8; 4],
    pub yiaddr: [u8; 4],
    pub siaddr: [u8; 4],
    pub giaddr: [u8; 4],
    pub chaddr: [u8; 6],
    pub msg_type: Option<u8>,
    pub requested_ip: Option<[u8; 4]>,
    pub server_id: Option<[u8; 4]>,
    pub max_size: Option<u16>,
    pub options: Vec<(u8, Vec<u8>)>,
}

/// Lenient parse (for the scripted server): fixed part + options up to END.
pub fn parse(b: &[u8]) -> R<Dhcp> {
    if b.len() < FIXED + 4 {
        return Err(format!("DHCP message of {} bytes", b.len()));
    }
    if b[FIXED..FIXED + 4] != COOKIE {
        return Err("magic cookie missing".into());
    }
    let mut d = Dhcp { op: b[0], xid: be32(b, 4), secs: be16(b, 8), flags: be16(b, 10), ..Default::default() };
    d.ciaddr.copy_from_slice(&b[12..16]);
    d.yiaddr.copy_from_slice(&b[16..20]);
    d.siaddr.copy_from_slice(&b[20..24]);
    d.giaddr.copy_from_slice(&b[24..28]);
    d.chaddr.copy_from_slice(&b[28..34]);
    let mut o = &b[FIXED + 4..];
    while !o.is_empty() {
        match o[0] {
            0 => o = &o[1..],
            255 => break,
            k => {
                if o.len() < 2 || 2 + o[1] as usize > o.len() {
                    return Err(format!("option {} overruns the message", k));
                }
                let l = o[1] as usize;
                let v = o[2..2 + l].to_vec();
                match (k, l) {
                    (53, 1) => d.msg_type = Some(v[0]),
                    (50, 4) => d.requested_ip = Some([v[0], v[1], v[2], v[3]]),
                    (54, 4) => d.server_id = Some([v[0], v[1], v[2], v[3]]),
                    (57, 2) => d.max_size = Some(be16(&v, 0)),
                    _ => {}
                }
                d.options.push((k, v));
                o = &o[2 + l..];
            }
        }
    }
    Ok(d)
}

/// A server reply (BOOTREPLY) with the given options (message type first), END-terminated, padded to 300 bytes.
pub fn build_reply(xid: u32, chaddr: &[u8; 6], yiaddr: &[u8; 4], siaddr: &[u8; 4], msg_type: u8, opts: &[(u8, Vec<u8>)]) -> Vec<u8> {
    let mut b = vec![0u8; FIXED];
    b[0] = 2;
    b[1] = 1;
    b[2] = 6;
    put32(&mut b, 4, xid);
    b[16..20].copy_from_slice(yiaddr);
    b[20..24].copy_from_slice(siaddr);
    b[28..34].copy_from_slice(chaddr);
    b.extend_from_slice(&COOKIE);
    b.extend_from_slice(&[53, 1, msg_type]);
    for (k, v) in opts {
        b.push(*k);
        b.push(v.len() as u8);
        b.extend_from_slice(v);
    }
    b.push(255);
    while b.len() < 300 {
        b.push(0);
    }
    b
}

fn fixed_option_len(k: u8) -> Option<usize> {
    match k {
        1 | 50 | 51 | 54 | 58 | 59 => Some(4),
        53 | 52 => Some(1),
        57 => Some(2),
        _ => None,
    }
}

/// `b` = UDP payload of a datagram sent from port 68 to port 67 (client -> server).
/// `eth_src`: Ethernet source of the frame, if the medium is Ethernet.
pub fn validate_client(outer: &ip::IpInfo, b: &[u8], eth_src: Option<&[u8; 6]>, s: &mut Sink) -> Option<Dhcp> {
    if b.len() < FIXED + 4 {
        s.bad("dhcp:length:truncated", format!("DHCP message of {} bytes (240 needed)", b.len()));
        return None;
    }
    if b[FIXED..FIXED + 4] != COOKIE {
        s.bad("dhcp:magic-cookie:wrong", format!("magic cookie {:02x?}", &b[FIXED..FIXED + 4]));
        return None;
    }
    // ---- BOOTP fixed fields (RFC 2131 §2, table 1; §4.1; table 5 for client messages)
    if b[0] != 1 {
        s.bad("dhcp:op:not-bootrequest", format!("op {} in a client message", b[0]));
    }
    if b[1] != 1 || b[2] != 6 {
        s.bad("dhcp:htype-hlen:not-ethernet", format!("htype {} hlen {}", b[1], b[2]));
    }
    if b[3] != 0 {
        s.bad("dhcp:hops:nonzero", format!("hops {} in a client message", b[3]));
    }
    if be16(b, 10) & 0x7fff != 0 {
        s.bad("dhcp:flags:reserved-nonzero", format!("flags {:#06x} (only the broadcast bit is defined)", be16(b, 10)));
    }
    let mut d = Dhcp { op: b[0], xid: be32(b, 4), secs: be16(b, 8), flags: be16(b, 10), ..Default::default() };
    d.ciaddr.copy_from_slice(&b[12..16]);
    d.yiaddr.copy_from_slice(&b[16..20]);
    d.siaddr.copy_from_slice(&b[20..24]);
    d.giaddr.copy_from_slice(&b[24..28]);
    d.chaddr.copy_from_slice(&b[28..34]);
    if d.yiaddr != [0; 4] || d.siaddr != [0; 4] || d.giaddr != [0; 4] {
        s.bad(
            "dhcp:client-message:server-fields-nonzero",
            format!("yiaddr {:?} siaddr {:?} giaddr {:?} in a client message (all must be 0)", d.yiaddr, d.siaddr, d.giaddr),
        );
    }
    if b[34..44].iter().any(|x| *x != 0) {
        s.bad("dhcp:chaddr:padding-nonzero", format!("chaddr octets beyond hlen: {:02x?}", &b[34..44]));
    }
    if let Some(m) = eth_src {
        if d.chaddr != *m {
            s.bad("dhcp:chaddr:differs-from-frame-source", format!("chaddr {} but the frame was sent by {}", eth::mac_str(&d.chaddr), eth::mac_str(m)));
        }
    }
    // ---- options
    let mut o = &b[FIXED + 4..];
    let mut ended = false;
    let mut overload = 0u8;
    while !o.is_empty() {
        if ended {
            if o.iter().any(|x| *x != 0) {
                s.bad("dhcp:options:garbage-after-end", format!("{} bytes after END, not all zero", o.len()));
            }
            break;
        }
        match o[0] {
            0 => o = &o[1..],
            255 => {
                ended = true;
                o = &o[1..];
            }
            k => {
                if o.len() < 2 || 2 + o[1] as usize > o.len() {
                    s.bad("dhcp:option:overruns-message", format!("option {} with {} bytes left", k, o.len()));
                    return Some(d);
                }
                let l = o[1] as usize;
                let v = &o[2..2 + l];
                if let Some(want) = fixed_option_len(k) {
                    if l != want {
                        s.bad("dhcp:option:length", format!("option {} with length {} ({} required)", k, l, want));
                    }
                }
                match (k, l) {
                    (53, 1) => d.msg_type = Some(v[0]),
                    (50, 4) => d.requested_ip = Some([v[0], v[1], v[2], v[3]]),
                    (54, 4) => d.server_id = Some([v[0], v[1], v[2], v[3]]),
                    (57, 2) => d.max_size = Some(be16(v, 0)),
                    (52, 1) => overload = v[0],
                    (55, 0) => s.bad("dhcp:option:length", "parameter request list of length 0".to_string()),
                    (61, n) if n < 2 => s.bad("dhcp:option:length", format!("client identifier of length {}", n)),
                    _ => {}
                }
                d.options.push((k, v.to_vec()));
                o = &o[2 + l..];
            }
        }
    }
    if !ended {
        s.bad("dhcp:options:no-end", "option list is not terminated by END (255)".to_string());
    }
    // sname / file are NUL-terminated strings unless overloaded with options (RFC 2131 §2, option 52)
    if overload & 2 == 0 && !b[44..108].contains(&0) {
        s.bad("dhcp:sname:not-terminated", format!("sname holds no NUL: {:02x?}..", &b[44..52]));
    }
    if overload & 1 == 0 && !b[108..236].contains(&0) {
        s.bad("dhcp:file:not-terminated", format!("file holds no NUL: {:02x?}..", &b[108..116]));
    }
    match d.msg_type {
        None => s.bad("dhcp:message-type:missing", "no DHCP message type option (53)".to_string()),
        Some(t) if !(1..=8).contains(&t) => s.bad("dhcp:message-type:unknown", format!("message type {}", t)),
        Some(t) if [OFFER, ACK, NAK].contains(&t) => s.bad("dhcp:message-type:server-message-from-client", format!("message type {} sent to the server port", t)),
        Some(DISCOVER) => {
            if d.ciaddr != [0; 4] {
                s.bad("dhcp:discover:ciaddr-nonzero", format!("ciaddr {:?}", d.ciaddr));
            }
            if d.server_id.is_some() {
                s.bad("dhcp:discover:server-identifier-present", "DISCOVER carries a server identifier".to_string());
            }
        }
        Some(REQUEST) => {
            // table 5: SELECTING: server id + requested ip, ciaddr 0; INIT-REBOOT: requested ip, no server id, ciaddr 0;
            // RENEWING/REBINDING: neither option, ciaddr = client's address
            if d.ciaddr != [0; 4] {
                if d.requested_ip.is_some() || d.server_id.is_some() {
                    s.bad(
                        "dhcp:request:renew-with-selecting-options",
                        format!("ciaddr {:?} together with requested-ip {:?} / server-id {:?}", d.ciaddr, d.requested_ip, d.server_id),
                    );
                }
            } else if d.requested_ip.is_none() {
                s.bad("dhcp:request:no-address", "REQUEST with ciaddr 0 and no requested IP address option".to_string());
            }
        }
        _ => {}
    }
    // ciaddr is only filled in when the client owns the address, and then it is the IP source as well
    if d.ciaddr != [0; 4] && outer.src != Addr::V4(d.ciaddr) {
        s.bad("dhcp:ciaddr:differs-from-ip-source", format!("ciaddr {:?} but the datagram was sent from {}", d.ciaddr, outer.src));
    }
    if outer.src.is_unspecified() && !outer.dst.is_limited_broadcast() {
        s.bad("dhcp:unconfigured-client:unicast-destination", format!("datagram from 0.0.0.0 sent to {}", outer.dst));
    }
    Some(d)
}
