//! Multicast Listener Discovery: MLDv2 (RFC 3810) and MLDv1 (RFC 2710) message bodies.
use super::validate::Sink;
use super::*;

pub const QUERY: u8 = 130;
pub const V1_REPORT: u8 = 131;
pub const V1_DONE: u8 = 132;
pub const V2_REPORT: u8 = 143;

pub const ALL_MLDV2_ROUTERS: [u8; 16] = [0xff, 2, 0, 0, 0, 0, 0, 0, 0, 0, 0, 0, 0, 0, 0, 0x16];

#[derive(Clone, Debug, Default, PartialEq)]
pub struct Mld {
    pub ty: u8,
    pub records: Vec<(u8, [u8; 16], usize)>,
}

/// MLDv2 general / group-specific query (what a router sends), for input generation.
pub fn build_query(src: &Addr, dst: &Addr, max_resp_code: u16, group: &[u8; 16]) -> Vec<u8> {
    let mut body = vec![0u8; 24];
    put16(&mut body, 0, max_resp_code);
    body[4..20].copy_from_slice(group);
    body[20] = 2; // QRV
    body[21] = 125; // QQIC
    icmp::build_v6(src, dst, QUERY, 0, &body)
}

/// Does the hop-by-hop header of this packet contain a Router Alert option with value 0 (MLD)?
/// `p` = whole IPv6 packet, RFC 2711.
pub fn has_router_alert(p: &[u8], info: &ip::IpInfo) -> R<bool> {
    if info.ext.first() != Some(&0) {
        return Ok(false);
    }
    let l = (p[41] as usize + 1) * 8;
    let mut o = &p[42..40 + l];
    let mut found = false;
    while !o.is_empty() {
        if o[0] == 0 {
            o = &o[1..];
            continue;
        }
        if o.len() < 2 || 2 + o[1] as usize > o.len() {
            return Err("hop-by-hop option overruns the header".into());
        }
        let ol = o[1] as usize;
        if o[0] == 5 {
            if ol != 2 {
                return Err(format!("router alert option with length {}", ol));
            }
            if be16(o, 2) == 0 {
                found = true;
            }
        }
        o = &o[2 + ol..];
    }
    Ok(found)
}

/// `b` = ICMPv6 message of an MLD type, `p` = the whole IPv6 packet.
pub fn validate(outer: &ip::IpInfo, p: &[u8], b: &[u8], s: &mut Sink) -> Mld {
    let ty = b[0];
    let mut m = Mld { ty, ..Default::default() };
    // RFC 3810 §5 / RFC 2710 §3: link-local source (or :: for reports before an address is acquired),
    // hop limit 1, Router Alert in a hop-by-hop header
    if outer.hop_limit != 1 {
        s.bad("mld:hop-limit:not-1", format!("MLD message type {} sent with hop limit {}", ty, outer.hop_limit));
    }
    match has_router_alert(p, outer) {
        Ok(true) => {}
        Ok(false) => s.bad("mld:router-alert:missing", format!("MLD message type {} without a hop-by-hop Router Alert (value 0) option", ty)),
        Err(e) => s.bad("mld:router-alert:malformed", e),
    }
    if let Addr::V6(a) = outer.src {
        let link_local = a[0] == 0xfe && a[1] & 0xc0 == 0x80;
        if !link_local && !outer.src.is_unspecified() {
            s.bad("mld:source:not-link-local", format!("MLD message type {} sent from {}", ty, outer.src));
        }
        if outer.src.is_unspecified() && ty != V2_REPORT && ty != V1_REPORT {
            s.bad("mld:source:unspecified-non-report", format!("MLD message type {} sent from ::", ty));
        }
    }
    if b[1] != 0 {
        s.bad("mld:code:nonzero", format!("MLD message type {} with code {}", ty, b[1]));
    }
    match ty {
        V2_REPORT => {
            if b.len() < 8 {
                s.bad("mld:report:truncated", format!("MLDv2 report of {} bytes", b.len()));
                return m;
            }
            if b[4] != 0 || b[5] != 0 {
                s.bad("mld:report:reserved-nonzero", format!("reserved field {:02x?}", &b[4..6]));
            }
            if let Addr::V6(d) = outer.dst {
                if d != ALL_MLDV2_ROUTERS {
                    s.bad("mld:report:destination", format!("MLDv2 report sent to {} (ff02::16 required)", outer.dst));
                }
            }
            let n = be16(b, 6) as usize;
            let mut o = &b[8..];
            for i in 0..n {
                if o.len() < 20 {
                    s.bad(
                        "mld:report:record-count-exceeds-content",
                        format!("{} records announced, message ends inside record {} ({} bytes left)", n, i, o.len()),
                    );
                    return m;
                }
                let rty = o[0];
                let aux = o[1] as usize * 4;
                let ns = be16(o, 2) as usize;
                let l = 20 + ns * 16 + aux;
                if l > o.len() {
                    s.bad(
                        "mld:report:record-overruns-message",
                        format!("record {} with {} sources and {} aux bytes needs {} bytes, {} left", i, ns, aux, l, o.len()),
                    );
                    return m;
                }
                if !(1..=6).contains(&rty) {
                    s.bad("mld:report:record-type-unknown", format!("record {} has type {}", i, rty));
                }
                let mut g = [0u8; 16];
                g.copy_from_slice(&o[4..20]);
                if g[0] != 0xff {
                    s.bad("mld:report:record-address-not-multicast", format!("record {} names {}", i, Addr::V6(g)));
                }
                m.records.push((rty, g, ns));
                o = &o[l..];
            }
            if !o.is_empty() {
                s.bad("mld:report:trailing-bytes", format!("{} bytes after the {} announced records", o.len(), n));
            }
        }
        QUERY | V1_REPORT | V1_DONE => {
            if b.len() < 24 {
                s.bad("mld:message:truncated", format!("MLD message type {} of {} bytes", ty, b.len()));
                return m;
            }
            if ty != QUERY && b.len() != 24 {
                s.bad("mld:message:trailing-bytes", format!("MLDv1 message type {} of {} bytes", ty, b.len()));
            }
            if ty == QUERY && b.len() > 24 {
                if b.len() < 28 {
                    s.bad("mld:query:truncated", format!("MLDv2 query of {} bytes", b.len()));
                } else {
                    let ns = be16(b, 26) as usize;
                    if b.len() != 28 + ns * 16 {
                        s.bad("mld:query:source-count-mismatch", format!("{} sources announced in a query of {} bytes", ns, b.len()));
                    }
                }
            }
        }
        _ => {}
    }
    m
}
