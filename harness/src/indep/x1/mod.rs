//! independent codec files contributed by builder `x1` (namespaced to avoid clashes)
#![allow(unused_imports)]
pub use super::{be16, be32, put16, put32, Addr, R};
pub use super::{cksum, ip, tcp};
pub mod arp;
pub mod dhcp_v;
pub mod dns_v;
pub mod eth;
pub mod icmp;
pub mod igmp;
pub mod lowpan_v;
pub mod mld;
pub mod ndisc;
pub mod udp;
pub mod validate;
