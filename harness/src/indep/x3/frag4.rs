//! IPv4 fragmentation and reassembly after RFC 791 §2.3/§3.2: a fragmenter that
//! cuts a datagram at given (8-aligned) payload offsets, and a reassembler keyed
//! by (identification, source, destination, protocol) that keeps a byte map.
use super::*;

#[derive(Clone, Copy, PartialEq, Eq, Hash, Debug, PartialOrd, Ord)]
pub struct FragKey {
    pub id: u16,
    pub src: [u8; 4],
    pub dst: [u8; 4],
    pub proto: u8,
}

impl std::fmt::Display for FragKey {
    fn fmt(&self, f: &mut std::fmt::Formatter) -> std::fmt::Result {
        write!(f, "(id {:#06x} {} -> {} proto {})", self.id, Addr::V4(self.src), Addr::V4(self.dst), self.proto)
    }
}

pub fn key_of(p: &[u8]) -> FragKey {
    let mut src = [0u8; 4];
    src.copy_from_slice(&p[12..16]);
    let mut dst = [0u8; 4];
    dst.copy_from_slice(&p[16..20]);
    FragKey { id: be16(p, 4), src, dst, proto: p[9] }
}

/// Payload offsets at which a datagram with `payload_len` bytes is cut for a link
/// with the given IP MTU (every fragment as large as possible, RFC 791 procedure).
pub fn cuts_for_mtu(payload_len: usize, header_len: usize, mtu: usize) -> R<Vec<usize>> {
    if header_len + payload_len <= mtu {
        return Ok(vec![]);
    }
    if mtu < header_len + 8 {
        return Err(format!("MTU {} cannot carry a fragment", mtu));
    }
    let per = (mtu - header_len) & !7;
    let mut cuts = Vec::new();
    let mut o = per;
    while o < payload_len {
        cuts.push(o);
        o += per;
    }
    Ok(cuts)
}

/// Cut the complete, option-less IPv4 packet `packet` at the payload offsets `cuts`
/// (strictly increasing, multiples of 8, inside the payload).  Each fragment gets
/// a copy of the header with its own length, offset, MF flag and checksum.
pub fn fragment_at(packet: &[u8], cuts: &[usize]) -> R<Vec<Vec<u8>>> {
    let info = ip::parse_v4(packet, true)?;
    if info.header_len != 20 {
        return Err("fragmenter supports option-less headers only".into());
    }
    if cuts.is_empty() {
        return Ok(vec![packet.to_vec()]);
    }
    if info.dont_frag {
        return Err("DF is set".into());
    }
    let payload = &packet[20..];
    let mut bounds = vec![0usize];
    for c in cuts {
        if *c % 8 != 0 || *c <= *bounds.last().unwrap() || *c >= payload.len() {
            return Err(format!("bad cut {} (payload {} bytes, cuts {:?})", c, payload.len(), cuts));
        }
        bounds.push(*c);
    }
    bounds.push(payload.len());
    let mut s = [0u8; 4];
    s.copy_from_slice(&packet[12..16]);
    let mut d = [0u8; 4];
    d.copy_from_slice(&packet[16..20]);
    let mut out = Vec::new();
    for w in bounds.windows(2) {
        let last = w[1] == payload.len();
        let mf = !last || info.more_frags;
        let mut f = ip::build_v4(&s, &d, info.proto, info.hop_limit, info.ident, false, mf, info.frag_offset + w[0], &payload[w[0]..w[1]]);
        // keep the TOS byte of the original
        f[1] = packet[1];
        put16(&mut f, 10, 0);
        let c = cksum::checksum(&[&f[..20]]);
        put16(&mut f, 10, c);
        out.push(f);
    }
    Ok(out)
}

pub fn fragment(packet: &[u8], mtu: usize) -> R<Vec<Vec<u8>>> {
    let info = ip::parse_v4(packet, true)?;
    let cuts = cuts_for_mtu(info.payload_len, info.header_len, mtu)?;
    fragment_at(packet, &cuts)
}

// ------------------------------------------------------------------ reassembly

#[derive(Clone, Debug)]
pub struct Defect {
    /// "overlap", "size-conflict", "unaligned", "beyond-end", "too-long"
    pub kind: &'static str,
    pub msg: String,
    pub key: FragKey,
}

#[derive(Clone, Debug)]
pub struct Piece {
    pub off: usize,
    pub len: usize,
    pub mf: bool,
    /// caller's index of the frame that carried it
    pub idx: u64,
}

#[derive(Clone, Debug)]
pub struct Done {
    pub key: FragKey,
    pub first_idx: u64,
    pub last_idx: u64,
    pub pieces: Vec<Piece>,
    /// the complete datagram: header of the offset-0 fragment with MF/offset cleared,
    /// total length and checksum recomputed, followed by the whole payload
    pub packet: Vec<u8>,
}

#[derive(Clone, Debug)]
pub struct Partial {
    pub key: FragKey,
    pub first_idx: u64,
    pub last_idx: u64,
    pub total: Option<usize>,
    pub data: Vec<u8>,
    pub have: Vec<bool>,
    pub header: Option<Vec<u8>>,
    pub pieces: Vec<Piece>,
}

impl Partial {
    pub fn bytes_present(&self) -> usize {
        self.have.iter().filter(|b| **b).count()
    }
    pub fn describe(&self) -> String {
        let ps: Vec<String> = self.pieces.iter().map(|p| format!("[{}..{}{}]", p.off, p.off + p.len, if p.mf { "+" } else { "." })).collect();
        format!(
            "key {} : {} of {} payload bytes present, fragments seen {}",
            self.key,
            self.bytes_present(),
            self.total.map(|t| t.to_string()).unwrap_or_else(|| "?".into()),
            ps.join(" ")
        )
    }
}

#[derive(Default)]
pub struct Reassembler {
    pub partials: Vec<Partial>,
}

impl Reassembler {
    pub fn new() -> Reassembler {
        Reassembler { partials: Vec::new() }
    }

    pub fn pending(&self) -> usize {
        self.partials.len()
    }

    /// Feed one IPv4 packet (fragment or whole).  A whole packet is returned at once.
    pub fn push(&mut self, idx: u64, pkt: &[u8]) -> Result<Option<Done>, Defect> {
        let key = key_of(pkt);
        let info = match ip::parse_v4(pkt, false) {
            Ok(i) => i,
            Err(e) => return Err(Defect { kind: "malformed", msg: e, key }),
        };
        let payload = &pkt[info.payload_off..info.payload_off + info.payload_len];
        if !info.more_frags && info.frag_offset == 0 {
            return Ok(Some(Done {
                key,
                first_idx: idx,
                last_idx: idx,
                pieces: vec![Piece { off: 0, len: payload.len(), mf: false, idx }],
                packet: pkt[..info.total_len].to_vec(),
            }));
        }
        if info.more_frags && payload.len() % 8 != 0 {
            return Err(Defect {
                kind: "unaligned",
                msg: format!("fragment at offset {} with MF set carries {} payload bytes (not a multiple of 8)", info.frag_offset, payload.len()),
                key,
            });
        }
        if info.frag_offset + payload.len() > 65535 - 20 {
            return Err(Defect { kind: "too-long", msg: format!("fragment ends at payload offset {}", info.frag_offset + payload.len()), key });
        }
        let pos = match self.partials.iter().position(|p| p.key == key) {
            Some(p) => p,
            None => {
                self.partials.push(Partial {
                    key,
                    first_idx: idx,
                    last_idx: idx,
                    total: None,
                    data: Vec::new(),
                    have: Vec::new(),
                    header: None,
                    pieces: Vec::new(),
                });
                self.partials.len() - 1
            }
        };
        let p = &mut self.partials[pos];
        let end = info.frag_offset + payload.len();
        let piece = Piece { off: info.frag_offset, len: payload.len(), mf: info.more_frags, idx };
        if !info.more_frags {
            if let Some(t) = p.total {
                if t != end {
                    return Err(Defect { kind: "size-conflict", msg: format!("two final fragments: datagram ends at {} and at {}; {}", t, end, p.describe()), key });
                }
            }
            if p.have.len() > end && p.have[end..].iter().any(|b| *b) {
                return Err(Defect { kind: "beyond-end", msg: format!("final fragment ends at {} but data beyond it was seen; {}", end, p.describe()), key });
            }
        } else if let Some(t) = p.total {
            if end > t {
                return Err(Defect { kind: "beyond-end", msg: format!("fragment [{}..{}) lies beyond the end {} given by the final fragment; {}", info.frag_offset, end, t, p.describe()), key });
            }
        }
        if p.data.len() < end {
            p.data.resize(end, 0);
            p.have.resize(end, false);
        }
        if p.have[info.frag_offset..end].iter().any(|b| *b) {
            let same = (info.frag_offset..end).all(|i| !p.have[i] || p.data[i] == payload[i - info.frag_offset]);
            return Err(Defect {
                kind: "overlap",
                msg: format!(
                    "fragment [{}..{}) carries bytes already carried by an earlier fragment ({}); {}",
                    info.frag_offset,
                    end,
                    if same { "same content" } else { "DIFFERENT content" },
                    p.describe()
                ),
                key,
            });
        }
        p.data[info.frag_offset..end].copy_from_slice(payload);
        for b in &mut p.have[info.frag_offset..end] {
            *b = true;
        }
        if !info.more_frags {
            p.total = Some(end);
        }
        if info.frag_offset == 0 {
            p.header = Some(pkt[..info.header_len].to_vec());
        }
        p.last_idx = idx;
        p.pieces.push(piece);
        let complete = match p.total {
            Some(t) => p.have.len() == t && p.have.iter().all(|b| *b) && p.header.is_some(),
            None => false,
        };
        if !complete {
            return Ok(None);
        }
        let p = self.partials.remove(pos);
        let mut packet = p.header.clone().unwrap();
        let hl = packet.len();
        packet.extend_from_slice(&p.data);
        let tl = packet.len();
        put16(&mut packet, 2, tl as u16);
        let ff = be16(&packet, 6) & 0xc000; // keep reserved/DF bits, clear MF and offset
        put16(&mut packet, 6, ff);
        put16(&mut packet, 10, 0);
        let c = cksum::checksum(&[&packet[..hl]]);
        put16(&mut packet, 10, c);
        Ok(Some(Done { key, first_idx: p.first_idx, last_idx: p.last_idx, pieces: p.pieces, packet }))
    }
}
