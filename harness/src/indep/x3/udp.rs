//! UDP datagram building / parsing (RFC 768; checksum rules of RFC 768 and RFC 8200 §8.1).
use super::*;

#[derive(Clone, Debug, PartialEq)]
pub struct Udp {
    pub sport: u16,
    pub dport: u16,
    /// value of the length field
    pub len_field: usize,
    pub checksum: u16,
    /// the checksum verifies against the pseudo header, or it is zero on IPv4 ("not computed")
    pub checksum_ok: bool,
    pub payload: Vec<u8>,
}

/// Parse a UDP datagram carried between `src` and `dst`.  The segment must be
/// exactly as long as its length field says (no trailing bytes, RFC 768).
pub fn parse(src: &Addr, dst: &Addr, seg: &[u8]) -> R<Udp> {
    if seg.len() < 8 {
        return Err(format!("UDP datagram of {} bytes", seg.len()));
    }
    let len_field = be16(seg, 4) as usize;
    if len_field < 8 {
        return Err(format!("UDP length field {}", len_field));
    }
    if len_field != seg.len() {
        return Err(format!("UDP length field {} but the IP payload has {} bytes", len_field, seg.len()));
    }
    let ck = be16(seg, 6);
    let checksum_ok = if ck == 0 {
        // RFC 768: zero means "no checksum" (IPv4 only; RFC 8200 forbids it over IPv6)
        src.is_v4()
    } else {
        cksum::transport_verifies(src, dst, ip::PROTO_UDP, seg)
    };
    Ok(Udp {
        sport: be16(seg, 0),
        dport: be16(seg, 2),
        len_field,
        checksum: ck,
        checksum_ok,
        payload: seg[8..].to_vec(),
    })
}

/// Build a UDP datagram.  `with_checksum == false` leaves the checksum field zero (legal on IPv4 only).
pub fn build(src: &Addr, dst: &Addr, sport: u16, dport: u16, payload: &[u8], with_checksum: bool) -> Vec<u8> {
    let mut seg = vec![0u8; 8 + payload.len()];
    put16(&mut seg, 0, sport);
    put16(&mut seg, 2, dport);
    put16(&mut seg, 4, (8 + payload.len()) as u16);
    seg[8..].copy_from_slice(payload);
    if with_checksum {
        cksum::transport_fill(src, dst, ip::PROTO_UDP, &mut seg, 6);
    }
    seg
}
