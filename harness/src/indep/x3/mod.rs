//! independent codec files contributed by builder `x3` (namespaced to avoid clashes)
#![allow(unused_imports)]
pub use super::{be16, be32, put16, put32, Addr, R};
pub use super::{cksum, ip, tcp};
pub mod eth;
pub mod frag4;
pub mod icmp;
pub mod udp;
