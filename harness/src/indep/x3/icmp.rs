//! ICMPv4 (RFC 792) and ICMPv6 (RFC 4443) messages: generic header + echo request/reply.
use super::*;

pub const V4_ECHO_REPLY: u8 = 0;
pub const V4_DST_UNREACHABLE: u8 = 3;
pub const V4_ECHO_REQUEST: u8 = 8;
pub const V4_TIME_EXCEEDED: u8 = 11;
pub const V6_DST_UNREACHABLE: u8 = 1;
pub const V6_PARAM_PROBLEM: u8 = 4;
pub const V6_ECHO_REQUEST: u8 = 128;
pub const V6_ECHO_REPLY: u8 = 129;
pub const V6_NEIGHBOR_SOLICIT: u8 = 135;
pub const V6_NEIGHBOR_ADVERT: u8 = 136;

#[derive(Clone, Debug, PartialEq)]
pub struct Icmp {
    pub v6: bool,
    pub ty: u8,
    pub code: u8,
    pub checksum_ok: bool,
    /// bytes 4..6 and 6..8 (identifier / sequence number of echo messages)
    pub ident: u16,
    pub seq: u16,
    /// everything after the 8-byte header
    pub data: Vec<u8>,
}

impl Icmp {
    pub fn is_echo_request(&self) -> bool {
        self.code == 0 && self.ty == if self.v6 { V6_ECHO_REQUEST } else { V4_ECHO_REQUEST }
    }
    pub fn is_echo_reply(&self) -> bool {
        self.code == 0 && self.ty == if self.v6 { V6_ECHO_REPLY } else { V4_ECHO_REPLY }
    }
    pub fn is_echo(&self) -> bool {
        self.is_echo_request() || self.is_echo_reply()
    }
}

pub fn parse4(msg: &[u8]) -> R<Icmp> {
    if msg.len() < 8 {
        return Err(format!("ICMPv4 message of {} bytes", msg.len()));
    }
    Ok(Icmp {
        v6: false,
        ty: msg[0],
        code: msg[1],
        checksum_ok: cksum::verifies(&[msg]),
        ident: be16(msg, 4),
        seq: be16(msg, 6),
        data: msg[8..].to_vec(),
    })
}

pub fn parse6(src: &Addr, dst: &Addr, msg: &[u8]) -> R<Icmp> {
    if msg.len() < 8 {
        return Err(format!("ICMPv6 message of {} bytes", msg.len()));
    }
    Ok(Icmp {
        v6: true,
        ty: msg[0],
        code: msg[1],
        checksum_ok: cksum::transport_verifies(src, dst, ip::PROTO_ICMPV6, msg),
        ident: be16(msg, 4),
        seq: be16(msg, 6),
        data: msg[8..].to_vec(),
    })
}

/// An ICMPv4 message `ty/code` with the given identifier, sequence number and data; checksum filled.
pub fn build4(ty: u8, code: u8, ident: u16, seq: u16, data: &[u8]) -> Vec<u8> {
    let mut m = vec![0u8; 8 + data.len()];
    m[0] = ty;
    m[1] = code;
    put16(&mut m, 4, ident);
    put16(&mut m, 6, seq);
    m[8..].copy_from_slice(data);
    let c = cksum::checksum(&[&m]);
    put16(&mut m, 2, c);
    m
}

/// An ICMPv6 message; checksum over the IPv6 pseudo header (RFC 4443 §2.3).
pub fn build6(src: &Addr, dst: &Addr, ty: u8, code: u8, ident: u16, seq: u16, data: &[u8]) -> Vec<u8> {
    let mut m = vec![0u8; 8 + data.len()];
    m[0] = ty;
    m[1] = code;
    put16(&mut m, 4, ident);
    put16(&mut m, 6, seq);
    m[8..].copy_from_slice(data);
    cksum::transport_fill(src, dst, ip::PROTO_ICMPV6, &mut m, 2);
    m
}

/// The same message with its checksum field zeroed (for comparisons "modulo checksum").
pub fn without_checksum(msg: &[u8]) -> Vec<u8> {
    let mut m = msg.to_vec();
    if m.len() >= 4 {
        m[2] = 0;
        m[3] = 0;
    }
    m
}
