//! Ethernet II framing, ARP for Ethernet/IPv4 (RFC 826) and the Neighbor
//! Solicitation / Advertisement messages of RFC 4861 (with the link-layer address options).
use super::*;

pub type Mac = [u8; 6];
pub const BROADCAST: Mac = [0xff; 6];
pub const ETHERTYPE_IPV4: u16 = 0x0800;
pub const ETHERTYPE_ARP: u16 = 0x0806;
pub const ETHERTYPE_IPV6: u16 = 0x86dd;

#[derive(Clone, Debug, PartialEq)]
pub struct Eth {
    pub dst: Mac,
    pub src: Mac,
    pub ethertype: u16,
}

pub fn mac_str(m: &Mac) -> String {
    format!("{:02x}:{:02x}:{:02x}:{:02x}:{:02x}:{:02x}", m[0], m[1], m[2], m[3], m[4], m[5])
}

/// Split a frame into header and payload.
pub fn parse(frame: &[u8]) -> R<(Eth, &[u8])> {
    if frame.len() < 14 {
        return Err(format!("Ethernet frame of {} bytes", frame.len()));
    }
    let mut dst = [0u8; 6];
    dst.copy_from_slice(&frame[0..6]);
    let mut src = [0u8; 6];
    src.copy_from_slice(&frame[6..12]);
    Ok((Eth { dst, src, ethertype: be16(frame, 12) }, &frame[14..]))
}

pub fn build(dst: &Mac, src: &Mac, ethertype: u16, payload: &[u8]) -> Vec<u8> {
    let mut f = Vec::with_capacity(14 + payload.len());
    f.extend_from_slice(dst);
    f.extend_from_slice(src);
    f.push((ethertype >> 8) as u8);
    f.push(ethertype as u8);
    f.extend_from_slice(payload);
    f
}

/// RFC 1112 §6.4: IPv4 multicast -> 01:00:5e + low 23 bits
pub fn mcast_mac_v4(a: &[u8; 4]) -> Mac {
    [0x01, 0x00, 0x5e, a[1] & 0x7f, a[2], a[3]]
}
/// RFC 2464 §7: IPv6 multicast -> 33:33 + low 32 bits
pub fn mcast_mac_v6(a: &[u8; 16]) -> Mac {
    [0x33, 0x33, a[12], a[13], a[14], a[15]]
}
/// RFC 4291 §2.7.1 solicited-node multicast address ff02::1:ffXX:XXXX
pub fn solicited_node(a: &[u8; 16]) -> [u8; 16] {
    let mut s = [0u8; 16];
    s[0] = 0xff;
    s[1] = 0x02;
    s[11] = 0x01;
    s[12] = 0xff;
    s[13] = a[13];
    s[14] = a[14];
    s[15] = a[15];
    s
}

// ------------------------------------------------------------------ ARP

pub const ARP_REQUEST: u16 = 1;
pub const ARP_REPLY: u16 = 2;

#[derive(Clone, Debug, PartialEq)]
pub struct Arp {
    pub op: u16,
    pub sha: Mac,
    pub spa: [u8; 4],
    pub tha: Mac,
    pub tpa: [u8; 4],
}

pub fn parse_arp(p: &[u8]) -> R<Arp> {
    if p.len() < 28 {
        return Err(format!("ARP packet of {} bytes", p.len()));
    }
    if be16(p, 0) != 1 || be16(p, 2) != ETHERTYPE_IPV4 || p[4] != 6 || p[5] != 4 {
        return Err(format!("ARP for hardware type {} / protocol {:#06x} / sizes {},{}", be16(p, 0), be16(p, 2), p[4], p[5]));
    }
    let mut a = Arp { op: be16(p, 6), sha: [0; 6], spa: [0; 4], tha: [0; 6], tpa: [0; 4] };
    a.sha.copy_from_slice(&p[8..14]);
    a.spa.copy_from_slice(&p[14..18]);
    a.tha.copy_from_slice(&p[18..24]);
    a.tpa.copy_from_slice(&p[24..28]);
    Ok(a)
}

pub fn build_arp(a: &Arp) -> Vec<u8> {
    let mut p = vec![0u8; 28];
    put16(&mut p, 0, 1);
    put16(&mut p, 2, ETHERTYPE_IPV4);
    p[4] = 6;
    p[5] = 4;
    put16(&mut p, 6, a.op);
    p[8..14].copy_from_slice(&a.sha);
    p[14..18].copy_from_slice(&a.spa);
    p[18..24].copy_from_slice(&a.tha);
    p[24..28].copy_from_slice(&a.tpa);
    p
}

// ------------------------------------------------------------------ NDISC NS / NA

pub const NA_FLAG_ROUTER: u8 = 0x80;
pub const NA_FLAG_SOLICITED: u8 = 0x40;
pub const NA_FLAG_OVERRIDE: u8 = 0x20;

#[derive(Clone, Debug, PartialEq)]
pub struct Nd {
    /// 135 = solicitation, 136 = advertisement
    pub ty: u8,
    /// R/S/O bits of an advertisement (top three bits of byte 4)
    pub flags: u8,
    pub target: [u8; 16],
    /// source link-layer address option (type 1) of a solicitation,
    /// target link-layer address option (type 2) of an advertisement
    pub lladdr: Option<Mac>,
    pub checksum_ok: bool,
}

/// Parse the ICMPv6 message `msg` (carried src -> dst) as NS or NA.
pub fn parse_nd(src: &Addr, dst: &Addr, msg: &[u8]) -> R<Nd> {
    if msg.len() < 24 {
        return Err(format!("neighbor discovery message of {} bytes", msg.len()));
    }
    let ty = msg[0];
    if ty != 135 && ty != 136 {
        return Err(format!("ICMPv6 type {} is not NS/NA", ty));
    }
    if msg[1] != 0 {
        return Err(format!("NS/NA with code {}", msg[1]));
    }
    let mut target = [0u8; 16];
    target.copy_from_slice(&msg[8..24]);
    let want_opt = if ty == 135 { 1 } else { 2 };
    let mut lladdr = None;
    let mut o = 24;
    while o < msg.len() {
        if o + 2 > msg.len() {
            return Err("truncated NDISC option".into());
        }
        let l = msg[o + 1] as usize * 8;
        if l == 0 {
            return Err("NDISC option of length 0".into());
        }
        if o + l > msg.len() {
            return Err("NDISC option longer than the message".into());
        }
        if msg[o] == want_opt && l >= 8 {
            let mut m = [0u8; 6];
            m.copy_from_slice(&msg[o + 2..o + 8]);
            lladdr = Some(m);
        }
        o += l;
    }
    Ok(Nd {
        ty,
        flags: msg[4] & 0xe0,
        target,
        lladdr,
        checksum_ok: cksum::transport_verifies(src, dst, ip::PROTO_ICMPV6, msg),
    })
}

/// Build the ICMPv6 message of a NS (ty 135) or NA (ty 136) sent src -> dst.
pub fn build_nd(src: &Addr, dst: &Addr, nd: &Nd) -> Vec<u8> {
    let mut m = vec![0u8; 24 + if nd.lladdr.is_some() { 8 } else { 0 }];
    m[0] = nd.ty;
    if nd.ty == 136 {
        m[4] = nd.flags & 0xe0;
    }
    m[8..24].copy_from_slice(&nd.target);
    if let Some(ll) = nd.lladdr {
        m[24] = if nd.ty == 135 { 1 } else { 2 };
        m[25] = 1;
        m[26..32].copy_from_slice(&ll);
    }
    cksum::transport_fill(src, dst, ip::PROTO_ICMPV6, &mut m, 2);
    m
}
