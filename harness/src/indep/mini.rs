//! Small builders/parsers for Ethernet, ARP, UDP, ICMPv4/ICMPv6 (echo + errors),
//! written from the RFCs; used by the address-filter (C11) and neighbor (C16) monitors.
use super::*;

pub const ET_IPV4: u16 = 0x0800;
pub const ET_ARP: u16 = 0x0806;
pub const ET_IPV6: u16 = 0x86dd;

pub fn eth(dst: &[u8; 6], src: &[u8; 6], ethertype: u16, payload: &[u8]) -> Vec<u8> {
    let mut f = Vec::with_capacity(14 + payload.len());
    f.extend_from_slice(dst);
    f.extend_from_slice(src);
    f.extend_from_slice(&ethertype.to_be_bytes());
    f.extend_from_slice(payload);
    f
}

#[derive(Clone, Debug, PartialEq)]
pub struct EthInfo {
    pub dst: [u8; 6],
    pub src: [u8; 6],
    pub ethertype: u16,
}

pub fn parse_eth(f: &[u8]) -> R<(EthInfo, &[u8])> {
    if f.len() < 14 {
        return Err(format!("Ethernet frame of {} bytes", f.len()));
    }
    let mut d = [0u8; 6];
    d.copy_from_slice(&f[0..6]);
    let mut s = [0u8; 6];
    s.copy_from_slice(&f[6..12]);
    Ok((EthInfo { dst: d, src: s, ethertype: be16(f, 12) }, &f[14..]))
}

#[derive(Clone, Debug, PartialEq)]
pub struct Arp {
    pub op: u16, // 1 request, 2 reply
    pub sha: [u8; 6],
    pub spa: [u8; 4],
    pub tha: [u8; 6],
    pub tpa: [u8; 4],
}

pub fn build_arp(a: &Arp) -> Vec<u8> {
    let mut p = vec![0u8; 28];
    put16(&mut p, 0, 1); // Ethernet
    put16(&mut p, 2, ET_IPV4);
    p[4] = 6;
    p[5] = 4;
    put16(&mut p, 6, a.op);
    p[8..14].copy_from_slice(&a.sha);
    p[14..18].copy_from_slice(&a.spa);
    p[18..24].copy_from_slice(&a.tha);
    p[24..28].copy_from_slice(&a.tpa);
    p
}

pub fn parse_arp(p: &[u8]) -> R<Arp> {
    if p.len() < 28 {
        return Err(format!("ARP packet of {} bytes", p.len()));
    }
    if be16(p, 0) != 1 || be16(p, 2) != ET_IPV4 || p[4] != 6 || p[5] != 4 {
        return Err("ARP: not Ethernet/IPv4".into());
    }
    let mut a = Arp { op: be16(p, 6), sha: [0; 6], spa: [0; 4], tha: [0; 6], tpa: [0; 4] };
    a.sha.copy_from_slice(&p[8..14]);
    a.spa.copy_from_slice(&p[14..18]);
    a.tha.copy_from_slice(&p[18..24]);
    a.tpa.copy_from_slice(&p[24..28]);
    Ok(a)
}

pub fn build_udp(src: &Addr, dst: &Addr, sport: u16, dport: u16, payload: &[u8]) -> Vec<u8> {
    let mut u = vec![0u8; 8 + payload.len()];
    put16(&mut u, 0, sport);
    put16(&mut u, 2, dport);
    put16(&mut u, 4, (8 + payload.len()) as u16);
    u[8..].copy_from_slice(payload);
    cksum::transport_fill(src, dst, ip::PROTO_UDP, &mut u, 6);
    u
}

#[derive(Clone, Debug, PartialEq)]
pub struct Udp {
    pub sport: u16,
    pub dport: u16,
    pub len_ok: bool,
    pub checksum_ok: bool,
    pub payload: Vec<u8>,
}

pub fn parse_udp(src: &Addr, dst: &Addr, u: &[u8]) -> R<Udp> {
    if u.len() < 8 {
        return Err(format!("UDP datagram of {} bytes", u.len()));
    }
    let l = be16(u, 4) as usize;
    let len_ok = l == u.len();
    let ck = be16(u, 6);
    let checksum_ok = if ck == 0 { src.is_v4() } else { cksum::transport_verifies(src, dst, ip::PROTO_UDP, u) };
    Ok(Udp { sport: be16(u, 0), dport: be16(u, 2), len_ok, checksum_ok, payload: u[8..].to_vec() })
}

/// ICMPv4 message: type, code, rest-of-header (4 bytes), data
pub fn build_icmp4(typ: u8, code: u8, rest: [u8; 4], data: &[u8]) -> Vec<u8> {
    let mut m = vec![0u8; 8 + data.len()];
    m[0] = typ;
    m[1] = code;
    m[4..8].copy_from_slice(&rest);
    m[8..].copy_from_slice(data);
    let c = cksum::checksum(&[&m]);
    put16(&mut m, 2, c);
    m
}

/// ICMPv6 message with pseudo-header checksum
pub fn build_icmp6(src: &Addr, dst: &Addr, typ: u8, code: u8, rest: [u8; 4], data: &[u8]) -> Vec<u8> {
    let mut m = vec![0u8; 8 + data.len()];
    m[0] = typ;
    m[1] = code;
    m[4..8].copy_from_slice(&rest);
    m[8..].copy_from_slice(data);
    cksum::transport_fill(src, dst, ip::PROTO_ICMPV6, &mut m, 2);
    m
}

pub fn is_icmp4_error(typ: u8) -> bool {
    matches!(typ, 3 | 4 | 5 | 11 | 12)
}
pub fn is_icmp6_error(typ: u8) -> bool {
    typ < 128
}

/// Neighbor solicitation / advertisement with one link-layer address option (Ethernet)
pub fn build_ndisc(src: &Addr, dst: &Addr, typ: u8, flags: u8, target: &[u8; 16], opt_type: Option<u8>, lladdr: &[u8; 6]) -> Vec<u8> {
    let mut body = Vec::new();
    body.extend_from_slice(target);
    if let Some(t) = opt_type {
        body.push(t);
        body.push(1);
        body.extend_from_slice(lladdr);
    }
    build_icmp6(src, dst, typ, 0, [flags, 0, 0, 0], &body)
}

pub fn mcast_mac_v4(a: &[u8; 4]) -> [u8; 6] {
    [0x01, 0x00, 0x5e, a[1] & 0x7f, a[2], a[3]]
}
pub fn mcast_mac_v6(a: &[u8; 16]) -> [u8; 6] {
    [0x33, 0x33, a[12], a[13], a[14], a[15]]
}
pub fn solicited_node(a: &[u8; 16]) -> [u8; 16] {
    let mut s = [0u8; 16];
    s[0] = 0xff;
    s[1] = 0x02;
    s[11] = 0x01;
    s[12] = 0xff;
    s[13] = a[13];
    s[14] = a[14];
    s[15] = a[15];
    s
}
