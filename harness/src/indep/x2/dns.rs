//! DNS message parsing and building, written from RFC 1035 (section 4: message
//! format, 4.1.4: compression) and RFC 3596 (AAAA).
//!
//! The parser is tolerant: it reads as much as possible and records the first
//! structural defect.  Name decompression follows pointers in any direction
//! (RFC 1035 says "prior occurrence" but nothing forbids a forward pointer
//! structurally); a name is rejected only if a pointer is followed twice (a
//! loop), if a pointer leaves the message, or if a label type other than
//! 00 / 11 is met.  That is the *most permissive* terminating reading, so an
//! oracle built on it accepts every name any sane implementation can decode.
use super::*;

pub const TYPE_A: u16 = 1;
pub const TYPE_NS: u16 = 2;
pub const TYPE_CNAME: u16 = 5;
pub const TYPE_AAAA: u16 = 28;
pub const CLASS_IN: u16 = 1;

pub const FLAG_QR: u16 = 0x8000;
pub const FLAG_AA: u16 = 0x0400;
pub const FLAG_TC: u16 = 0x0200;
pub const FLAG_RD: u16 = 0x0100;
pub const FLAG_RA: u16 = 0x0080;

pub const RCODE_NXDOMAIN: u16 = 3;

/// A domain name as a list of labels (root = empty list).
pub type Name = Vec<Vec<u8>>;

pub fn name_from_str(s: &str) -> Name {
    s.trim_end_matches('.').split('.').filter(|l| !l.is_empty()).map(|l| l.as_bytes().to_vec()).collect()
}

pub fn name_str(n: &Name) -> String {
    if n.is_empty() {
        return ".".into();
    }
    let mut s = String::new();
    for (i, l) in n.iter().enumerate() {
        if i > 0 {
            s.push('.');
        }
        for &c in l {
            if c.is_ascii_graphic() && c != b'.' && c != b'\\' {
                s.push(c as char);
            } else {
                s.push_str(&format!("\\{:03}", c));
            }
        }
    }
    s
}

/// RFC 1035 2.3.3 / RFC 4343: comparison is case-insensitive for ASCII letters.
pub fn name_eq(a: &Name, b: &Name) -> bool {
    a.len() == b.len() && a.iter().zip(b.iter()).all(|(x, y)| x.eq_ignore_ascii_case(y))
}

/// Uncompressed wire form.
pub fn name_wire(n: &Name) -> Vec<u8> {
    let mut v = Vec::new();
    for l in n {
        v.push(l.len() as u8);
        v.extend_from_slice(l);
    }
    v.push(0);
    v
}

/// Decode the name starting at `off`.  Returns the labels and the offset of
/// the first octet after the name *in place* (i.e. after the terminating zero
/// or after the first pointer).
pub fn read_name(msg: &[u8], off: usize) -> R<(Name, usize)> {
    let mut labels: Name = Vec::new();
    let mut i = off;
    let mut after: Option<usize> = None;
    let mut followed: Vec<usize> = Vec::new();
    loop {
        if i >= msg.len() {
            return Err(format!("name runs past the end of the message at offset {}", i));
        }
        let x = msg[i];
        match x & 0xC0 {
            0x00 => {
                if x == 0 {
                    return Ok((labels, after.unwrap_or(i + 1)));
                }
                let l = x as usize;
                if i + 1 + l > msg.len() {
                    return Err(format!("label of {} octets at offset {} runs past the end", l, i));
                }
                labels.push(msg[i + 1..i + 1 + l].to_vec());
                i += 1 + l;
            }
            0xC0 => {
                if i + 1 >= msg.len() {
                    return Err(format!("pointer at offset {} is cut", i));
                }
                let p = (((x & 0x3f) as usize) << 8) | msg[i + 1] as usize;
                if after.is_none() {
                    after = Some(i + 2);
                }
                if followed.contains(&i) {
                    return Err(format!("compression pointer loop through offset {}", i));
                }
                followed.push(i);
                if p >= msg.len() {
                    return Err(format!("pointer at offset {} to {} leaves the message", i, p));
                }
                i = p;
            }
            _ => return Err(format!("label type {:#04x} at offset {}", x & 0xC0, i)),
        }
    }
}

/// Offset of the first octet after the name that starts at `off`, looking only at
/// the octets in place (labels up to the terminating zero or the first pointer).
pub fn skip_name(msg: &[u8], off: usize) -> R<usize> {
    let mut i = off;
    loop {
        if i >= msg.len() {
            return Err(format!("name runs past the end of the message at offset {}", i));
        }
        let x = msg[i];
        match x & 0xC0 {
            0x00 => {
                if x == 0 {
                    return Ok(i + 1);
                }
                i += 1 + x as usize;
                if i > msg.len() {
                    return Err(format!("label of {} octets runs past the end", x));
                }
            }
            0xC0 => {
                if i + 1 >= msg.len() {
                    return Err(format!("pointer at offset {} is cut", i));
                }
                return Ok(i + 2);
            }
            _ => return Err(format!("label type {:#04x} at offset {}", x & 0xC0, i)),
        }
    }
}

#[derive(Clone, Debug, PartialEq)]
pub struct Question {
    pub name: Name,
    /// false: the name could be skipped but not decoded (bad pointer target); `name` is empty then
    pub name_ok: bool,
    pub qtype: u16,
    pub qclass: u16,
}

#[derive(Clone, Debug, PartialEq)]
pub struct Record {
    pub owner: Name,
    /// false: the owner name could be skipped but not decoded (bad pointer target); `owner` is empty then
    pub owner_ok: bool,
    pub rtype: u16,
    pub class: u16,
    pub ttl: u32,
    pub rdata: Vec<u8>,
    /// offset of the RDATA in the message
    pub rdata_off: usize,
    /// decoded target for CNAME records
    pub target: Option<Name>,
}

#[derive(Clone, Debug, PartialEq, Default)]
pub struct Msg {
    pub id: u16,
    pub flags: u16,
    pub qdcount: u16,
    pub ancount: u16,
    pub nscount: u16,
    pub arcount: u16,
    pub questions: Vec<Question>,
    /// records of all three sections in order, as far as they could be read
    pub records: Vec<Record>,
    pub defect: Option<String>,
}

impl Msg {
    pub fn qr(&self) -> bool {
        self.flags & FLAG_QR != 0
    }
    pub fn opcode(&self) -> u16 {
        (self.flags >> 11) & 0xf
    }
    pub fn rcode(&self) -> u16 {
        self.flags & 0xf
    }
    /// answer-section records that could be read
    pub fn answers(&self) -> &[Record] {
        let n = (self.ancount as usize).min(self.records.len());
        &self.records[..n]
    }
}

/// Parse a DNS message.  Err only if the 12-octet header is incomplete.
pub fn parse(b: &[u8]) -> R<Msg> {
    if b.len() < 12 {
        return Err(format!("DNS message of {} bytes", b.len()));
    }
    let mut m = Msg {
        id: be16(b, 0),
        flags: be16(b, 2),
        qdcount: be16(b, 4),
        ancount: be16(b, 6),
        nscount: be16(b, 8),
        arcount: be16(b, 10),
        ..Default::default()
    };
    let mut i = 12;
    for q in 0..m.qdcount {
        let next = match skip_name(b, i) {
            Ok(x) => x,
            Err(e) => {
                m.defect = Some(format!("question {}: {}", q, e));
                return Ok(m);
            }
        };
        let (name, name_ok) = match read_name(b, i) {
            Ok(x) => (x.0, true),
            Err(_) => (Vec::new(), false),
        };
        if next + 4 > b.len() {
            m.defect = Some(format!("question {}: type/class cut", q));
            return Ok(m);
        }
        m.questions.push(Question {
            name,
            name_ok,
            qtype: be16(b, next),
            qclass: be16(b, next + 2),
        });
        i = next + 4;
    }
    let total = m.ancount as usize + m.nscount as usize + m.arcount as usize;
    for r in 0..total {
        let next = match skip_name(b, i) {
            Ok(x) => x,
            Err(e) => {
                m.defect = Some(format!("record {}: owner: {}", r, e));
                return Ok(m);
            }
        };
        let (owner, owner_ok) = match read_name(b, i) {
            Ok(x) => (x.0, true),
            Err(_) => (Vec::new(), false),
        };
        if next + 10 > b.len() {
            m.defect = Some(format!("record {}: fixed part cut", r));
            return Ok(m);
        }
        let rtype = be16(b, next);
        let class = be16(b, next + 2);
        let ttl = be32(b, next + 4);
        let rdlen = be16(b, next + 8) as usize;
        let rdata_off = next + 10;
        if rdata_off + rdlen > b.len() {
            m.defect = Some(format!("record {}: RDLENGTH {} with {} octets left", r, rdlen, b.len() - rdata_off));
            return Ok(m);
        }
        let target = if rtype == TYPE_CNAME { read_name(b, rdata_off).ok().map(|x| x.0) } else { None };
        m.records.push(Record {
            owner,
            owner_ok,
            rtype,
            class,
            ttl,
            rdata: b[rdata_off..rdata_off + rdlen].to_vec(),
            rdata_off,
            target,
        });
        i = rdata_off + rdlen;
    }
    Ok(m)
}

/// The set of names reachable from `start` through CNAME records of `recs`
/// (in any order), `start` included.
pub fn cname_closure(start: &Name, recs: &[Record]) -> Vec<Name> {
    let mut names = vec![start.clone()];
    let mut grew = true;
    while grew {
        grew = false;
        for r in recs {
            if r.rtype != TYPE_CNAME || !r.owner_ok {
                continue;
            }
            let Some(t) = &r.target else { continue };
            if names.iter().any(|n| name_eq(n, &r.owner)) && !names.iter().any(|n| name_eq(n, t)) {
                names.push(t.clone());
                grew = true;
            }
        }
    }
    names
}

/// Addresses (A: 4 octets, AAAA: 16 octets) of the records whose owner is one of `names`.
pub fn addresses_of(names: &[Name], recs: &[Record]) -> Vec<Addr> {
    let mut v = Vec::new();
    for r in recs {
        if !r.owner_ok || !names.iter().any(|n| name_eq(n, &r.owner)) {
            continue;
        }
        if r.rtype == TYPE_A && r.rdata.len() == 4 {
            v.push(Addr::V4([r.rdata[0], r.rdata[1], r.rdata[2], r.rdata[3]]));
        } else if r.rtype == TYPE_AAAA && r.rdata.len() == 16 {
            let mut a = [0u8; 16];
            a.copy_from_slice(&r.rdata);
            v.push(Addr::V6(a));
        }
    }
    v
}

// ---------------------------------------------------------------- building

/// How a name is written into a message under construction.
#[derive(Clone, Debug, PartialEq)]
pub enum NameEnc {
    /// all labels, terminated by the zero octet
    Plain(Name),
    /// a bare pointer
    Ptr(u16),
    /// some labels followed by a pointer
    Labels(Name, u16),
    /// these octets verbatim
    Raw(Vec<u8>),
}

pub struct Builder {
    pub buf: Vec<u8>,
}

impl Builder {
    pub fn new(id: u16, flags: u16, qd: u16, an: u16, ns: u16, ar: u16) -> Builder {
        let mut buf = vec![0u8; 12];
        put16(&mut buf, 0, id);
        put16(&mut buf, 2, flags);
        put16(&mut buf, 4, qd);
        put16(&mut buf, 6, an);
        put16(&mut buf, 8, ns);
        put16(&mut buf, 10, ar);
        Builder { buf }
    }
    pub fn pos(&self) -> u16 {
        self.buf.len() as u16
    }
    /// returns the offset at which the name starts
    pub fn name(&mut self, n: &NameEnc) -> u16 {
        let at = self.pos();
        match n {
            NameEnc::Plain(l) => self.buf.extend_from_slice(&name_wire(l)),
            NameEnc::Ptr(p) => {
                self.buf.push(0xC0 | ((p >> 8) as u8 & 0x3f));
                self.buf.push(*p as u8);
            }
            NameEnc::Labels(l, p) => {
                for x in l {
                    self.buf.push(x.len() as u8);
                    self.buf.extend_from_slice(x);
                }
                self.buf.push(0xC0 | ((p >> 8) as u8 & 0x3f));
                self.buf.push(*p as u8);
            }
            NameEnc::Raw(r) => self.buf.extend_from_slice(r),
        }
        at
    }
    pub fn question(&mut self, n: &NameEnc, qtype: u16, qclass: u16) -> u16 {
        let at = self.name(n);
        self.buf.extend_from_slice(&qtype.to_be_bytes());
        self.buf.extend_from_slice(&qclass.to_be_bytes());
        at
    }
    /// returns (offset of the owner name, offset of the RDATA)
    pub fn record(&mut self, owner: &NameEnc, rtype: u16, class: u16, ttl: u32, rdata: &[u8]) -> (u16, u16) {
        let at = self.name(owner);
        self.buf.extend_from_slice(&rtype.to_be_bytes());
        self.buf.extend_from_slice(&class.to_be_bytes());
        self.buf.extend_from_slice(&ttl.to_be_bytes());
        self.buf.extend_from_slice(&(rdata.len() as u16).to_be_bytes());
        let ro = self.pos();
        self.buf.extend_from_slice(rdata);
        (at, ro)
    }
    /// a CNAME record whose RDATA is the given name encoding; returns (owner offset, rdata offset)
    pub fn cname(&mut self, owner: &NameEnc, ttl: u32, target: &NameEnc) -> (u16, u16) {
        let mut tmp = Builder { buf: Vec::new() };
        tmp.name(target);
        self.record(owner, TYPE_CNAME, CLASS_IN, ttl, &tmp.buf)
    }
    pub fn finish(self) -> Vec<u8> {
        self.buf
    }
}
