//! DHCPv4 message parsing and building, written from RFC 2131 (message layout,
//! section 2) and RFC 2132 (options).  The parser is deliberately *tolerant*:
//! it returns everything that can be read and records the first structural
//! defect instead of rejecting, so that an oracle can decide how much it wants
//! to demand.  The builder emits exactly the option list it is given (so the
//! harness can produce defective messages as well).
use super::*;

pub const SERVER_PORT: u16 = 67;
pub const CLIENT_PORT: u16 = 68;
pub const MAGIC: u32 = 0x6382_5363;

pub const BOOTREQUEST: u8 = 1;
pub const BOOTREPLY: u8 = 2;

pub const DISCOVER: u8 = 1;
pub const OFFER: u8 = 2;
pub const REQUEST: u8 = 3;
pub const DECLINE: u8 = 4;
pub const ACK: u8 = 5;
pub const NAK: u8 = 6;
pub const RELEASE: u8 = 7;
pub const INFORM: u8 = 8;

pub const OPT_PAD: u8 = 0;
pub const OPT_SUBNET_MASK: u8 = 1;
pub const OPT_ROUTER: u8 = 3;
pub const OPT_DNS: u8 = 6;
pub const OPT_REQUESTED_IP: u8 = 50;
pub const OPT_LEASE_TIME: u8 = 51;
pub const OPT_OVERLOAD: u8 = 52;
pub const OPT_MSG_TYPE: u8 = 53;
pub const OPT_SERVER_ID: u8 = 54;
pub const OPT_PARAM_LIST: u8 = 55;
pub const OPT_MAX_SIZE: u8 = 57;
pub const OPT_T1: u8 = 58;
pub const OPT_T2: u8 = 59;
pub const OPT_CLIENT_ID: u8 = 61;
pub const OPT_END: u8 = 255;

#[derive(Clone, Debug, PartialEq)]
pub struct Msg {
    pub op: u8,
    pub htype: u8,
    pub hlen: u8,
    pub hops: u8,
    pub xid: u32,
    pub secs: u16,
    pub flags: u16,
    pub ciaddr: [u8; 4],
    pub yiaddr: [u8; 4],
    pub siaddr: [u8; 4],
    pub giaddr: [u8; 4],
    pub chaddr: [u8; 16],
    /// true if the four octets after the fixed part are the magic cookie
    pub magic_ok: bool,
    /// options in wire order (pad and end excluded)
    pub options: Vec<(u8, Vec<u8>)>,
    /// an End option was seen
    pub ended: bool,
    /// first structural defect of the option field, if any (options before it are kept)
    pub opt_defect: Option<String>,
}

impl Default for Msg {
    fn default() -> Msg {
        Msg {
            op: BOOTREPLY,
            htype: 1,
            hlen: 6,
            hops: 0,
            xid: 0,
            secs: 0,
            flags: 0,
            ciaddr: [0; 4],
            yiaddr: [0; 4],
            siaddr: [0; 4],
            giaddr: [0; 4],
            chaddr: [0; 16],
            magic_ok: true,
            options: Vec::new(),
            ended: true,
            opt_defect: None,
        }
    }
}

impl Msg {
    /// all occurrences of option `code`
    pub fn opt_all(&self, code: u8) -> Vec<&[u8]> {
        self.options.iter().filter(|o| o.0 == code).map(|o| o.1.as_slice()).collect()
    }
    /// first occurrence with exactly `len` octets
    pub fn opt_len(&self, code: u8, len: usize) -> Option<&[u8]> {
        self.options.iter().find(|o| o.0 == code && o.1.len() == len).map(|o| o.1.as_slice())
    }
    /// every value announced as DHCP message type (option 53, one octet)
    pub fn msg_types(&self) -> Vec<u8> {
        self.opt_all(OPT_MSG_TYPE).iter().filter(|d| d.len() == 1).map(|d| d[0]).collect()
    }
    /// the message type if exactly one distinct value is announced
    pub fn msg_type(&self) -> Option<u8> {
        let t = self.msg_types();
        match t.first() {
            Some(x) if t.iter().all(|y| y == x) => Some(*x),
            _ => None,
        }
    }
    pub fn mac(&self) -> [u8; 6] {
        let mut m = [0u8; 6];
        m.copy_from_slice(&self.chaddr[..6]);
        m
    }
    pub fn u32_opts(&self, code: u8) -> Vec<u32> {
        self.opt_all(code).iter().filter(|d| d.len() == 4).map(|d| be32(d, 0)).collect()
    }
    pub fn set_opt(&mut self, code: u8, data: &[u8]) {
        if let Some(o) = self.options.iter_mut().find(|o| o.0 == code) {
            o.1 = data.to_vec();
        } else {
            self.options.push((code, data.to_vec()));
        }
    }
    pub fn remove_opt(&mut self, code: u8) {
        self.options.retain(|o| o.0 != code);
    }
    pub fn describe(&self) -> String {
        let ty = match self.msg_type() {
            Some(DISCOVER) => "DISCOVER".to_string(),
            Some(OFFER) => "OFFER".to_string(),
            Some(REQUEST) => "REQUEST".to_string(),
            Some(DECLINE) => "DECLINE".to_string(),
            Some(ACK) => "ACK".to_string(),
            Some(NAK) => "NAK".to_string(),
            Some(RELEASE) => "RELEASE".to_string(),
            Some(INFORM) => "INFORM".to_string(),
            Some(x) => format!("type{}", x),
            None => format!("types{:?}", self.msg_types()),
        };
        let mut s = format!(
            "{} op={} xid={:08x} ci={} yi={} chaddr={}",
            ty,
            self.op,
            self.xid,
            v4s(&self.ciaddr),
            v4s(&self.yiaddr),
            super::eth::mac_str(&self.mac())
        );
        for (c, d) in &self.options {
            match *c {
                OPT_MSG_TYPE => {}
                OPT_SUBNET_MASK if d.len() == 4 => s.push_str(&format!(" mask={}", v4s(&[d[0], d[1], d[2], d[3]]))),
                OPT_SERVER_ID if d.len() == 4 => s.push_str(&format!(" sid={}", v4s(&[d[0], d[1], d[2], d[3]]))),
                OPT_REQUESTED_IP if d.len() == 4 => s.push_str(&format!(" req={}", v4s(&[d[0], d[1], d[2], d[3]]))),
                OPT_ROUTER if d.len() == 4 => s.push_str(&format!(" router={}", v4s(&[d[0], d[1], d[2], d[3]]))),
                OPT_LEASE_TIME if d.len() == 4 => s.push_str(&format!(" lease={}", be32(d, 0))),
                OPT_T1 if d.len() == 4 => s.push_str(&format!(" t1={}", be32(d, 0))),
                OPT_T2 if d.len() == 4 => s.push_str(&format!(" t2={}", be32(d, 0))),
                OPT_PARAM_LIST | OPT_MAX_SIZE | OPT_CLIENT_ID | OPT_DNS => {}
                _ => s.push_str(&format!(" opt{}[{}]", c, d.len())),
            }
        }
        if !self.magic_ok {
            s.push_str(" NO-MAGIC");
        }
        if let Some(d) = &self.opt_defect {
            s.push_str(&format!(" DEFECT({})", d));
        }
        s
    }
}

pub fn v4s(a: &[u8; 4]) -> String {
    format!("{}.{}.{}.{}", a[0], a[1], a[2], a[3])
}

fn a4(b: &[u8], o: usize) -> [u8; 4] {
    [b[o], b[o + 1], b[o + 2], b[o + 3]]
}

/// Parse a DHCP message (the UDP payload).  Err only if the fixed BOOTP part
/// (236 octets) is incomplete.
pub fn parse(b: &[u8]) -> R<Msg> {
    if b.len() < 236 {
        return Err(format!("BOOTP message of {} bytes (fixed part is 236)", b.len()));
    }
    let mut m = Msg {
        op: b[0],
        htype: b[1],
        hlen: b[2],
        hops: b[3],
        xid: be32(b, 4),
        secs: be16(b, 8),
        flags: be16(b, 10),
        ciaddr: a4(b, 12),
        yiaddr: a4(b, 16),
        siaddr: a4(b, 20),
        giaddr: a4(b, 24),
        chaddr: [0; 16],
        magic_ok: false,
        options: Vec::new(),
        ended: false,
        opt_defect: None,
    };
    m.chaddr.copy_from_slice(&b[28..44]);
    if b.len() < 240 || be32(b, 236) != MAGIC {
        m.opt_defect = Some("no magic cookie".into());
        return Ok(m);
    }
    m.magic_ok = true;
    let mut i = 240;
    while i < b.len() {
        let code = b[i];
        if code == OPT_PAD {
            i += 1;
            continue;
        }
        if code == OPT_END {
            m.ended = true;
            break;
        }
        if i + 1 >= b.len() {
            m.opt_defect = Some(format!("option {} without a length octet", code));
            break;
        }
        let l = b[i + 1] as usize;
        if i + 2 + l > b.len() {
            m.opt_defect = Some(format!("option {} announces {} octets, {} remain", code, l, b.len() - i - 2));
            break;
        }
        m.options.push((code, b[i + 2..i + 2 + l].to_vec()));
        i += 2 + l;
    }
    if !m.ended && m.opt_defect.is_none() {
        m.opt_defect = Some("no End option".into());
    }
    Ok(m)
}

/// Emit the message; `min_len` pads with zero octets (RFC 951: 300).
pub fn build(m: &Msg, min_len: usize) -> Vec<u8> {
    let mut b = vec![0u8; 236];
    b[0] = m.op;
    b[1] = m.htype;
    b[2] = m.hlen;
    b[3] = m.hops;
    put32(&mut b, 4, m.xid);
    put16(&mut b, 8, m.secs);
    put16(&mut b, 10, m.flags);
    b[12..16].copy_from_slice(&m.ciaddr);
    b[16..20].copy_from_slice(&m.yiaddr);
    b[20..24].copy_from_slice(&m.siaddr);
    b[24..28].copy_from_slice(&m.giaddr);
    b[28..44].copy_from_slice(&m.chaddr);
    if m.magic_ok {
        b.extend_from_slice(&MAGIC.to_be_bytes());
    } else {
        b.extend_from_slice(&[0x63, 0x82, 0x53, 0x00]);
    }
    for (c, d) in &m.options {
        b.push(*c);
        b.push(d.len() as u8);
        b.extend_from_slice(d);
    }
    if m.ended {
        b.push(OPT_END);
    }
    while b.len() < min_len {
        b.push(0);
    }
    b
}

/// `Some(prefix length)` if the mask is a run of ones followed by zeros.
pub fn mask_prefix(mask: &[u8; 4]) -> Option<u8> {
    let v = be32(mask, 0);
    let ones = v.leading_ones();
    if ones == 32 || v << ones == 0 {
        Some(ones as u8)
    } else {
        None
    }
}

/// An address a host interface can own: not 0.0.0.0, not class D, not 255.255.255.255.
pub fn is_unicast(a: &[u8; 4]) -> bool {
    let x = Addr::V4(*a);
    !(x.is_unspecified() || x.is_multicast() || x.is_limited_broadcast())
}
