//! UDP (RFC 768) datagram parsing and building.
use super::*;

#[derive(Clone, Debug, PartialEq)]
pub struct Dgram {
    pub sport: u16,
    pub dport: u16,
    /// the length field as transmitted
    pub length: usize,
    /// checksum verifies against the pseudo header (a zero checksum over IPv4 counts as "not computed" = ok)
    pub checksum_ok: bool,
    pub checksum_zero: bool,
    pub payload: Vec<u8>,
}

/// Parse the UDP datagram `b` carried between `src` and `dst`.
pub fn parse(src: &Addr, dst: &Addr, b: &[u8]) -> R<Dgram> {
    if b.len() < 8 {
        return Err(format!("UDP datagram of {} bytes", b.len()));
    }
    let length = be16(b, 4) as usize;
    if length < 8 || length > b.len() {
        return Err(format!("UDP length field {} with {} bytes available", length, b.len()));
    }
    let ck = be16(b, 6);
    let checksum_zero = ck == 0;
    let checksum_ok = if checksum_zero {
        src.is_v4()
    } else {
        cksum::transport_verifies(src, dst, ip::PROTO_UDP, &b[..length])
    };
    Ok(Dgram {
        sport: be16(b, 0),
        dport: be16(b, 2),
        length,
        checksum_ok,
        checksum_zero,
        payload: b[8..length].to_vec(),
    })
}

/// Build a UDP datagram with a correct checksum.
pub fn build(src: &Addr, dst: &Addr, sport: u16, dport: u16, payload: &[u8]) -> Vec<u8> {
    let mut b = vec![0u8; 8 + payload.len()];
    put16(&mut b, 0, sport);
    put16(&mut b, 2, dport);
    put16(&mut b, 4, (8 + payload.len()) as u16);
    b[8..].copy_from_slice(payload);
    cksum::transport_fill(src, dst, ip::PROTO_UDP, &mut b, 6);
    b
}
