//! Ethernet II framing (IEEE 802.3 / RFC 894) and ARP for IPv4 over Ethernet
//! (RFC 826): just enough for the harness to play "the network" on
//! `Medium::Ethernet`.
use super::*;

pub const ETHERTYPE_IPV4: u16 = 0x0800;
pub const ETHERTYPE_ARP: u16 = 0x0806;
pub const ETHERTYPE_IPV6: u16 = 0x86dd;
pub const BROADCAST: [u8; 6] = [0xff; 6];

#[derive(Clone, Debug, PartialEq)]
pub struct Frame {
    pub dst: [u8; 6],
    pub src: [u8; 6],
    pub ethertype: u16,
    pub payload: Vec<u8>,
}

pub fn parse(f: &[u8]) -> R<Frame> {
    if f.len() < 14 {
        return Err(format!("Ethernet frame of {} bytes", f.len()));
    }
    let mut dst = [0u8; 6];
    dst.copy_from_slice(&f[0..6]);
    let mut src = [0u8; 6];
    src.copy_from_slice(&f[6..12]);
    Ok(Frame {
        dst,
        src,
        ethertype: be16(f, 12),
        payload: f[14..].to_vec(),
    })
}

pub fn build(dst: &[u8; 6], src: &[u8; 6], ethertype: u16, payload: &[u8]) -> Vec<u8> {
    let mut f = Vec::with_capacity(14 + payload.len());
    f.extend_from_slice(dst);
    f.extend_from_slice(src);
    f.push((ethertype >> 8) as u8);
    f.push(ethertype as u8);
    f.extend_from_slice(payload);
    f
}

pub const ARP_REQUEST: u16 = 1;
pub const ARP_REPLY: u16 = 2;

#[derive(Clone, Debug, PartialEq)]
pub struct Arp {
    pub oper: u16,
    pub sha: [u8; 6],
    pub spa: [u8; 4],
    pub tha: [u8; 6],
    pub tpa: [u8; 4],
}

/// Parse an ARP packet for (Ethernet, IPv4); anything else is an error.
pub fn parse_arp(p: &[u8]) -> R<Arp> {
    if p.len() < 28 {
        return Err(format!("ARP packet of {} bytes", p.len()));
    }
    if be16(p, 0) != 1 || be16(p, 2) != ETHERTYPE_IPV4 || p[4] != 6 || p[5] != 4 {
        return Err(format!("ARP htype {} ptype {:#x} hlen {} plen {}", be16(p, 0), be16(p, 2), p[4], p[5]));
    }
    let mut a = Arp {
        oper: be16(p, 6),
        sha: [0; 6],
        spa: [0; 4],
        tha: [0; 6],
        tpa: [0; 4],
    };
    a.sha.copy_from_slice(&p[8..14]);
    a.spa.copy_from_slice(&p[14..18]);
    a.tha.copy_from_slice(&p[18..24]);
    a.tpa.copy_from_slice(&p[24..28]);
    Ok(a)
}

pub fn build_arp(a: &Arp) -> Vec<u8> {
    let mut p = vec![0u8; 28];
    put16(&mut p, 0, 1);
    put16(&mut p, 2, ETHERTYPE_IPV4);
    p[4] = 6;
    p[5] = 4;
    put16(&mut p, 6, a.oper);
    p[8..14].copy_from_slice(&a.sha);
    p[14..18].copy_from_slice(&a.spa);
    p[18..24].copy_from_slice(&a.tha);
    p[24..28].copy_from_slice(&a.tpa);
    p
}

pub fn mac_str(m: &[u8; 6]) -> String {
    format!("{:02x}:{:02x}:{:02x}:{:02x}:{:02x}:{:02x}", m[0], m[1], m[2], m[3], m[4], m[5])
}
