//! independent codec files contributed by builder `x2` (namespaced to avoid clashes)
#![allow(unused_imports)]
pub use super::{be16, be32, put16, put32, Addr, R};
pub use super::{cksum, ip, tcp};
pub mod dhcp;
pub mod dns;
pub mod eth;
pub mod udp;
