//! 6LoWPAN adaptation layer written from the RFCs:
//!   * RFC 6282 §3 LOWPAN_IPHC (stateless and context-based address compression),
//!   * RFC 6282 §4 LOWPAN_NHC for IPv6 extension headers and UDP,
//!   * RFC 4944 §5.3 fragmentation (FRAG1 / FRAGN) and reassembly.
//! Decompressor AND compressor; the compressor can be forced into every encoding
//! the RFC allows for a given datagram (it refuses encodings that would be lossy).
use super::ieee802154::LlAddr;
use super::*;
use std::collections::BTreeMap;

// ---------------------------------------------------------------- contexts

#[derive(Clone, Copy, Debug, PartialEq)]
pub struct Context {
    pub prefix: [u8; 16],
    pub bits: u8,
}

/// index = context identifier (0..15)
pub type CtxTable = Vec<Option<Context>>;

pub fn ctx64(p: [u8; 8]) -> Context {
    let mut prefix = [0u8; 16];
    prefix[..8].copy_from_slice(&p);
    Context { prefix, bits: 64 }
}

fn lookup(ctx: &CtxTable, id: u8) -> R<Context> {
    match ctx.get(id as usize) {
        Some(Some(c)) => Ok(*c),
        _ => Err(format!("IPHC refers to context {} which is not defined", id)),
    }
}

/// "Bits covered by context information are always used."
fn apply_ctx(mut a: [u8; 16], c: &Context) -> [u8; 16] {
    let full = (c.bits / 8) as usize;
    a[..full].copy_from_slice(&c.prefix[..full]);
    let rem = c.bits % 8;
    if rem != 0 && full < 16 {
        let mask = 0xffu8 << (8 - rem);
        a[full] = (c.prefix[full] & mask) | (a[full] & !mask);
    }
    a
}

const LL_PREFIX: [u8; 8] = [0xfe, 0x80, 0, 0, 0, 0, 0, 0];

fn join(prefix: &[u8; 8], iid: &[u8; 8]) -> [u8; 16] {
    let mut a = [0u8; 16];
    a[..8].copy_from_slice(prefix);
    a[8..].copy_from_slice(iid);
    a
}
fn iid16(x: &[u8]) -> [u8; 8] {
    [0, 0, 0, 0xff, 0xfe, 0, x[0], x[1]]
}

// ---------------------------------------------------------------- decompression

#[derive(Clone, Debug, Default, PartialEq)]
pub struct IphcInfo {
    pub tf: u8,
    pub nh: u8,
    pub hlim: u8,
    pub cid: bool,
    pub sci: u8,
    pub dci: u8,
    pub sac: u8,
    pub sam: u8,
    pub m: u8,
    pub dac: u8,
    pub dam: u8,
    /// UDP NHC: (C bit, P bits)
    pub udp: Option<(u8, u8)>,
    /// NHC extension headers seen (EID)
    pub ext: Vec<u8>,
}

impl IphcInfo {
    /// address / port encoding only
    pub fn addr_class(&self) -> String {
        format!(
            "{}s{}{}d{}{}{}{}",
            if self.cid { "C" } else { "" },
            self.sac,
            self.sam,
            self.m,
            self.dac,
            self.dam,
            match self.udp {
                Some((c, p)) => format!("u{}{}", c, p),
                None => String::new(),
            }
        )
    }
    pub fn class(&self) -> String {
        format!(
            "tf{}nh{}hl{}{}s{}{}d{}{}{}{}{}",
            self.tf,
            self.nh,
            self.hlim,
            if self.cid { "C" } else { "" },
            self.sac,
            self.sam,
            self.m,
            self.dac,
            self.dam,
            match self.udp {
                Some((c, p)) => format!("u{}{}", c, p),
                None => String::new(),
            },
            if self.ext.is_empty() { String::new() } else { format!("x{:?}", self.ext) }
        )
    }
}

#[derive(Clone, Debug)]
pub struct Decomp {
    /// uncompressed headers followed by the payload octets carried in this 6LoWPAN payload
    pub bytes: Vec<u8>,
    /// octets of the 6LoWPAN payload occupied by compressed headers
    pub comp_hdr_len: usize,
    /// what they expand to
    pub uncomp_hdr_len: usize,
    pub info: IphcInfo,
    /// offset of the UDP header when its checksum was elided (C=1): to be recomputed
    pub udp_cksum_elided_at: Option<usize>,
}

struct Cur<'a> {
    b: &'a [u8],
    o: usize,
}
impl<'a> Cur<'a> {
    fn take(&mut self, n: usize, what: &str) -> R<&'a [u8]> {
        if self.o + n > self.b.len() {
            return Err(format!("6LoWPAN header truncated in {}", what));
        }
        let s = &self.b[self.o..self.o + n];
        self.o += n;
        Ok(s)
    }
    fn peek(&self, what: &str) -> R<u8> {
        self.b.get(self.o).copied().ok_or_else(|| format!("6LoWPAN header truncated before {}", what))
    }
}

fn unicast(c: &mut Cur, stateful: u8, mode: u8, ctx_id: u8, ll: &LlAddr, ctx: &CtxTable, what: &str) -> R<[u8; 16]> {
    if stateful == 0 {
        match mode {
            0 => {
                let mut a = [0u8; 16];
                a.copy_from_slice(c.take(16, what)?);
                Ok(a)
            }
            1 => {
                let mut i = [0u8; 8];
                i.copy_from_slice(c.take(8, what)?);
                Ok(join(&LL_PREFIX, &i))
            }
            2 => Ok(join(&LL_PREFIX, &iid16(c.take(2, what)?))),
            _ => {
                let i = ll.iid().ok_or_else(|| format!("{} elided but the link-layer address is absent", what))?;
                Ok(join(&LL_PREFIX, &i))
            }
        }
    } else {
        let iid = match mode {
            0 => return Err(format!("{}: stateful mode 00", what)),
            1 => {
                let mut i = [0u8; 8];
                i.copy_from_slice(c.take(8, what)?);
                i
            }
            2 => iid16(c.take(2, what)?),
            _ => ll.iid().ok_or_else(|| format!("{} elided but the link-layer address is absent", what))?,
        };
        let cx = lookup(ctx, ctx_id)?;
        Ok(apply_ctx(join(&[0; 8], &iid), &cx))
    }
}

fn ext_proto(eid: u8) -> R<u8> {
    match eid {
        0 => Ok(0),
        1 => Ok(43),
        3 => Ok(60),
        e => Err(format!("NHC extension header id {} not handled", e)),
    }
}

/// Decompress one LOWPAN_IPHC payload.  `dsize` = datagram_size of the FRAG1 header
/// when this is the first fragment (length fields are then inferred from it).
pub fn decompress(p: &[u8], ll_src: &LlAddr, ll_dst: &LlAddr, ctx: &CtxTable, dsize: Option<usize>) -> R<Decomp> {
    if p.len() < 2 {
        return Err(format!("IPHC payload of {} octets", p.len()));
    }
    if p[0] >> 5 != 0b011 {
        return Err(format!("dispatch {:02x} is not LOWPAN_IPHC", p[0]));
    }
    let mut info = IphcInfo {
        tf: (p[0] >> 3) & 3,
        nh: (p[0] >> 2) & 1,
        hlim: p[0] & 3,
        cid: p[1] >> 7 == 1,
        sac: (p[1] >> 6) & 1,
        sam: (p[1] >> 4) & 3,
        m: (p[1] >> 3) & 1,
        dac: (p[1] >> 2) & 1,
        dam: p[1] & 3,
        ..Default::default()
    };
    let mut c = Cur { b: p, o: 2 };
    if info.cid {
        let x = c.take(1, "context identifier extension")?[0];
        info.sci = x >> 4;
        info.dci = x & 0x0f;
    }
    let (mut ecn, mut dscp, mut flow) = (0u8, 0u8, 0u32);
    match info.tf {
        0 => {
            let b = c.take(4, "traffic class / flow label")?;
            ecn = b[0] >> 6;
            dscp = b[0] & 0x3f;
            flow = (((b[1] & 0x0f) as u32) << 16) | ((b[2] as u32) << 8) | b[3] as u32;
        }
        1 => {
            let b = c.take(3, "ECN / flow label")?;
            ecn = b[0] >> 6;
            flow = (((b[0] & 0x0f) as u32) << 16) | ((b[1] as u32) << 8) | b[2] as u32;
        }
        2 => {
            let b = c.take(1, "traffic class")?;
            ecn = b[0] >> 6;
            dscp = b[0] & 0x3f;
        }
        _ => {}
    }
    let tc = (dscp << 2) | ecn;
    let inline_nh = if info.nh == 0 { Some(c.take(1, "next header")?[0]) } else { None };
    let hop = match info.hlim {
        0 => c.take(1, "hop limit")?[0],
        1 => 1,
        2 => 64,
        _ => 255,
    };
    let src = if info.sac == 1 && info.sam == 0 {
        [0u8; 16]
    } else {
        unicast(&mut c, info.sac, info.sam, info.sci, ll_src, ctx, "source address")?
    };
    let dst = if info.m == 0 {
        if info.dac == 1 && info.dam == 0 {
            return Err("destination address: M=0 DAC=1 DAM=00 is reserved".into());
        }
        unicast(&mut c, info.dac, info.dam, info.dci, ll_dst, ctx, "destination address")?
    } else if info.dac == 0 {
        let mut a = [0u8; 16];
        match info.dam {
            0 => a.copy_from_slice(c.take(16, "multicast destination")?),
            1 => {
                let b = c.take(6, "multicast destination (48 bit)")?;
                a[0] = 0xff;
                a[1] = b[0];
                a[11..16].copy_from_slice(&b[1..6]);
            }
            2 => {
                let b = c.take(4, "multicast destination (32 bit)")?;
                a[0] = 0xff;
                a[1] = b[0];
                a[13..16].copy_from_slice(&b[1..4]);
            }
            _ => {
                let b = c.take(1, "multicast destination (8 bit)")?;
                a[0] = 0xff;
                a[1] = 0x02;
                a[15] = b[0];
            }
        }
        a
    } else {
        return Err("stateful multicast compression (M=1 DAC=1) not handled".into());
    };
    let mut out = vec![0u8; 40];
    out[0] = 0x60 | (tc >> 4);
    out[1] = (tc << 4) | ((flow >> 16) as u8 & 0x0f);
    out[2] = (flow >> 8) as u8;
    out[3] = flow as u8;
    out[7] = hop;
    out[8..24].copy_from_slice(&src);
    out[24..40].copy_from_slice(&dst);
    let mut nh_slot = 6usize;
    let mut udp_off: Option<usize> = None;
    let mut udp_elided = None;
    if let Some(nh) = inline_nh {
        out[6] = nh;
    } else {
        loop {
            let d = c.peek("LOWPAN_NHC")?;
            if d >> 4 == 0b1110 {
                c.o += 1;
                let eid = (d >> 1) & 7;
                let nhc_nh = d & 1;
                out[nh_slot] = ext_proto(eid)?;
                info.ext.push(eid);
                let inl = if nhc_nh == 0 { Some(c.take(1, "extension header next header")?[0]) } else { None };
                let len = c.take(1, "extension header length")?[0] as usize;
                let data = c.take(len, "extension header body")?;
                let start = out.len();
                out.push(inl.unwrap_or(0));
                out.push(0);
                out.extend_from_slice(data);
                let pad = (8 - (2 + len) % 8) % 8;
                if pad > 0 {
                    if eid == 1 {
                        return Err("compressed routing header is not a multiple of 8 octets".into());
                    }
                    if pad == 1 {
                        out.push(0);
                    } else {
                        out.push(1);
                        out.push((pad - 2) as u8);
                        out.extend(std::iter::repeat(0).take(pad - 2));
                    }
                }
                out[start + 1] = ((2 + len + pad) / 8 - 1) as u8;
                nh_slot = start;
                if nhc_nh == 0 {
                    break;
                }
            } else if d >> 3 == 0b11110 {
                c.o += 1;
                let cbit = (d >> 2) & 1;
                let pp = d & 3;
                info.udp = Some((cbit, pp));
                let (sp, dp) = match pp {
                    0 => {
                        let b = c.take(4, "UDP ports")?;
                        (be16(b, 0), be16(b, 2))
                    }
                    1 => {
                        let b = c.take(3, "UDP ports")?;
                        (be16(b, 0), 0xf000 | b[2] as u16)
                    }
                    2 => {
                        let b = c.take(3, "UDP ports")?;
                        (0xf000 | b[0] as u16, be16(b, 1))
                    }
                    _ => {
                        let b = c.take(1, "UDP ports")?;
                        (0xf0b0 | (b[0] >> 4) as u16, 0xf0b0 | (b[0] & 0x0f) as u16)
                    }
                };
                let ck = if cbit == 0 { be16(c.take(2, "UDP checksum")?, 0) } else { 0 };
                out[nh_slot] = 17;
                let uo = out.len();
                out.extend_from_slice(&[0u8; 8]);
                put16(&mut out, uo, sp);
                put16(&mut out, uo + 2, dp);
                put16(&mut out, uo + 6, ck);
                udp_off = Some(uo);
                if cbit == 1 {
                    udp_elided = Some(uo);
                }
                break;
            } else {
                return Err(format!("LOWPAN_NHC octet {:02x} not recognised", d));
            }
        }
    }
    let comp_hdr_len = c.o;
    let uncomp_hdr_len = out.len();
    out.extend_from_slice(&p[c.o..]);
    let total = dsize.unwrap_or(out.len());
    if total < out.len() {
        return Err(format!("datagram_size {} smaller than the {} octets of the first fragment", total, out.len()));
    }
    if total - 40 > 0xffff {
        return Err("datagram too large".into());
    }
    put16(&mut out, 4, (total - 40) as u16);
    if let Some(uo) = udp_off {
        put16(&mut out, uo + 4, (total - uo) as u16);
    }
    Ok(Decomp { bytes: out, comp_hdr_len, uncomp_hdr_len, info, udp_cksum_elided_at: udp_elided })
}

/// Recompute an elided UDP checksum of a complete datagram (RFC 6282 §4.3.2).
pub fn fill_elided_udp_checksum(d: &mut [u8], udp_off: usize) {
    let mut s = [0u8; 16];
    s.copy_from_slice(&d[8..24]);
    let mut t = [0u8; 16];
    t.copy_from_slice(&d[24..40]);
    let (src, dst) = (Addr::V6(s), Addr::V6(t));
    cksum::transport_fill(&src, &dst, ip::PROTO_UDP, &mut d[udp_off..], 6);
}

// ---------------------------------------------------------------- compression

#[derive(Clone, Copy, Debug, PartialEq)]
pub enum AMode {
    /// best stateless encoding
    Best,
    Full,
    Inline64,
    Inline16,
    Elided,
    Ctx64(u8),
    Ctx16(u8),
    CtxElided(u8),
    /// source only: the unspecified address (SAC=1 SAM=00)
    Unspec,
    M48,
    M32,
    M8,
}

#[derive(Clone, Copy, Debug)]
pub struct COpts {
    /// TF encoding to use (3 = fully elided)
    pub tf: u8,
    /// use LOWPAN_NHC for UDP / extension headers
    pub nhc: bool,
    /// carry the hop limit in-line even when 1 / 64 / 255
    pub hlim_inline: bool,
    pub src: AMode,
    pub dst: AMode,
    /// UDP port encoding (None = shortest)
    pub ports: Option<u8>,
    /// elide the UDP checksum (C=1)
    pub cksum_elide: bool,
    /// emit the CID octet even when both context ids are 0 / unused
    pub force_cid: bool,
    /// elide a single trailing Pad1/PadN of a hop-by-hop / destination options header
    /// (RFC 6282 §4.2: the decompressor MUST restore it)
    pub elide_pad: bool,
}

impl Default for COpts {
    fn default() -> Self {
        COpts { tf: 3, nhc: true, hlim_inline: false, src: AMode::Best, dst: AMode::Best, ports: None, cksum_elide: false, force_cid: false, elide_pad: false }
    }
}

fn best_unicast(a: &[u8; 16], ll: &LlAddr) -> AMode {
    if a[..8] == LL_PREFIX {
        if Some(&a[8..]) == ll.iid().as_ref().map(|x| &x[..]) {
            AMode::Elided
        } else if a[8..14] == [0, 0, 0, 0xff, 0xfe, 0] {
            AMode::Inline16
        } else {
            AMode::Inline64
        }
    } else {
        AMode::Full
    }
}

/// returns (stateful bit, mode bits, context id, inline octets)
fn enc_unicast(a: &[u8; 16], mode: AMode, ll: &LlAddr, ctx: &CtxTable, what: &str) -> R<(u8, u8, u8, Vec<u8>)> {
    let mode = if mode == AMode::Best { best_unicast(a, ll) } else { mode };
    let lossy = |m: &str| Err(format!("{} {} cannot be encoded as {} without loss", what, Addr::V6(*a), m));
    match mode {
        AMode::Full => Ok((0, 0, 0, a.to_vec())),
        AMode::Inline64 => {
            if a[..8] != LL_PREFIX {
                return lossy("64-bit inline");
            }
            Ok((0, 1, 0, a[8..].to_vec()))
        }
        AMode::Inline16 => {
            if a[..8] != LL_PREFIX || a[8..14] != [0, 0, 0, 0xff, 0xfe, 0] {
                return lossy("16-bit inline");
            }
            Ok((0, 2, 0, a[14..].to_vec()))
        }
        AMode::Elided => {
            if a[..8] != LL_PREFIX || Some(&a[8..]) != ll.iid().as_ref().map(|x| &x[..]) {
                return lossy("fully elided");
            }
            Ok((0, 3, 0, vec![]))
        }
        AMode::Ctx64(id) => {
            let c = lookup(ctx, id)?;
            if apply_ctx(join(&[0; 8], a[8..].try_into().unwrap()), &c) != *a {
                return lossy("context + 64 bits");
            }
            Ok((1, 1, id, a[8..].to_vec()))
        }
        AMode::Ctx16(id) => {
            let c = lookup(ctx, id)?;
            if apply_ctx(join(&[0; 8], &iid16(&a[14..])), &c) != *a {
                return lossy("context + 16 bits");
            }
            Ok((1, 2, id, a[14..].to_vec()))
        }
        AMode::CtxElided(id) => {
            let c = lookup(ctx, id)?;
            let iid = match ll.iid() {
                Some(i) => i,
                None => return lossy("context + link-layer address"),
            };
            if apply_ctx(join(&[0; 8], &iid), &c) != *a {
                return lossy("context + link-layer address");
            }
            Ok((1, 3, id, vec![]))
        }
        AMode::Unspec => {
            if *a != [0u8; 16] {
                return lossy("unspecified");
            }
            Ok((1, 0, 0, vec![]))
        }
        _ => Err(format!("{}: mode {:?} is not a unicast mode", what, mode)),
    }
}

/// Every encoding RFC 6282 allows for this unicast address (given the link-layer
/// address it would be derived from and the context table), least compressed first.
pub fn valid_unicast_modes(a: &[u8; 16], ll: &LlAddr, ctx: &CtxTable) -> Vec<AMode> {
    let mut all = vec![AMode::Full, AMode::Inline64, AMode::Inline16, AMode::Elided];
    for i in 0..ctx.len().min(16) as u8 {
        all.push(AMode::Ctx64(i));
        all.push(AMode::Ctx16(i));
        all.push(AMode::CtxElided(i));
    }
    all.into_iter().filter(|m| enc_unicast(a, *m, ll, ctx, "address").is_ok()).collect()
}

pub fn valid_multicast_modes(a: &[u8; 16]) -> Vec<AMode> {
    [AMode::Full, AMode::M48, AMode::M32, AMode::M8].into_iter().filter(|m| enc_multicast(a, *m).is_ok()).collect()
}

fn enc_multicast(a: &[u8; 16], mode: AMode) -> R<(u8, Vec<u8>)> {
    let mode = if mode == AMode::Best {
        if a[1] == 0x02 && a[2..15] == [0; 13] {
            AMode::M8
        } else if a[2..13] == [0; 11] {
            AMode::M32
        } else if a[2..11] == [0; 9] {
            AMode::M48
        } else {
            AMode::Full
        }
    } else {
        mode
    };
    let lossy = |m: &str| Err(format!("multicast destination {} cannot be encoded as {} without loss", Addr::V6(*a), m));
    match mode {
        AMode::Full => Ok((0, a.to_vec())),
        AMode::M48 => {
            if a[2..11] != [0; 9] {
                return lossy("48 bits");
            }
            let mut v = vec![a[1]];
            v.extend_from_slice(&a[11..16]);
            Ok((1, v))
        }
        AMode::M32 => {
            if a[2..13] != [0; 11] {
                return lossy("32 bits");
            }
            let mut v = vec![a[1]];
            v.extend_from_slice(&a[13..16]);
            Ok((2, v))
        }
        AMode::M8 => {
            if a[1] != 0x02 || a[2..15] != [0; 13] {
                return lossy("8 bits");
            }
            Ok((3, vec![a[15]]))
        }
        m => Err(format!("mode {:?} is not a multicast mode", m)),
    }
}

/// Offset of a single trailing Pad1 / PadN option (at most 7 octets) in an options area.
fn trailing_pad(opts: &[u8]) -> Option<usize> {
    let mut o = 0;
    let mut last: Option<(usize, u8)> = None;
    while o < opts.len() {
        let t = opts[o];
        let l = if t == 0 {
            1
        } else {
            if o + 2 > opts.len() {
                return None;
            }
            2 + opts[o + 1] as usize
        };
        if o + l > opts.len() {
            return None;
        }
        last = Some((o, t));
        o += l;
    }
    match last {
        Some((at, t)) if (t == 0 || t == 1) && opts.len() - at <= 7 && at > 0 => Some(at),
        _ => None,
    }
}

#[derive(Clone, Debug)]
pub struct Comp {
    pub bytes: Vec<u8>,
    pub comp_hdr_len: usize,
    pub uncomp_hdr_len: usize,
}

/// Compress a complete IPv6 datagram.
pub fn compress(d: &[u8], ll_src: &LlAddr, ll_dst: &LlAddr, ctx: &CtxTable, o: &COpts) -> R<Comp> {
    if d.len() < 40 || d[0] >> 4 != 6 {
        return Err("not an IPv6 datagram".into());
    }
    if be16(d, 4) as usize != d.len() - 40 {
        return Err("IPv6 payload length does not match the datagram".into());
    }
    let tc = (d[0] << 4) | (d[1] >> 4);
    let (dscp, ecn) = (tc >> 2, tc & 3);
    let flow = (((d[1] & 0x0f) as u32) << 16) | ((d[2] as u32) << 8) | d[3] as u32;
    let mut nh = d[6];
    let hop = d[7];
    let mut src = [0u8; 16];
    src.copy_from_slice(&d[8..24]);
    let mut dst = [0u8; 16];
    dst.copy_from_slice(&d[24..40]);

    let mut tfb = Vec::new();
    match o.tf {
        0 => {
            tfb.push((ecn << 6) | dscp);
            tfb.push((flow >> 16) as u8 & 0x0f);
            tfb.push((flow >> 8) as u8);
            tfb.push(flow as u8);
        }
        1 => {
            if dscp != 0 {
                return Err("TF=01 would lose the DSCP".into());
            }
            tfb.push((ecn << 6) | ((flow >> 16) as u8 & 0x0f));
            tfb.push((flow >> 8) as u8);
            tfb.push(flow as u8);
        }
        2 => {
            if flow != 0 {
                return Err("TF=10 would lose the flow label".into());
            }
            tfb.push((ecn << 6) | dscp);
        }
        _ => {
            if flow != 0 || tc != 0 {
                return Err("TF=11 would lose traffic class / flow label".into());
            }
        }
    }
    let (hl_bits, hl_inline) = match hop {
        1 if !o.hlim_inline => (1, None),
        64 if !o.hlim_inline => (2, None),
        255 if !o.hlim_inline => (3, None),
        h => (0, Some(h)),
    };
    let (sac, sam, sci, sbytes) = if o.src == AMode::Unspec || (o.src == AMode::Best && src == [0u8; 16]) {
        enc_unicast(&src, AMode::Unspec, ll_src, ctx, "source")?
    } else {
        enc_unicast(&src, o.src, ll_src, ctx, "source")?
    };
    let (m, dac, dam, dci, dbytes) = if dst[0] == 0xff {
        let (dam, b) = enc_multicast(&dst, o.dst)?;
        (1, 0, dam, 0, b)
    } else {
        let (dac, dam, dci, b) = enc_unicast(&dst, o.dst, ll_dst, ctx, "destination")?;
        if dac == 1 && dam == 0 {
            return Err("destination cannot be the unspecified address".into());
        }
        (0, dac, dam, dci, b)
    };
    let cid = o.force_cid || sci != 0 || dci != 0;
    // which headers go through NHC?
    let nhc_first = o.nhc && matches!(nh, 0 | 43 | 60 | 17);
    let mut out = Vec::with_capacity(d.len());
    out.push(0x60 | ((o.tf & 3) << 3) | ((nhc_first as u8) << 2) | hl_bits);
    out.push(((cid as u8) << 7) | (sac << 6) | (sam << 4) | (m << 3) | (dac << 2) | dam);
    if cid {
        out.push((sci << 4) | dci);
    }
    out.extend_from_slice(&tfb);
    if !nhc_first {
        out.push(nh);
    }
    if let Some(h) = hl_inline {
        out.push(h);
    }
    out.extend_from_slice(&sbytes);
    out.extend_from_slice(&dbytes);
    let mut off = 40usize;
    if nhc_first {
        loop {
            match nh {
                0 | 43 | 60 => {
                    if off + 8 > d.len() {
                        return Err("extension header truncated".into());
                    }
                    let hl = (d[off + 1] as usize + 1) * 8;
                    if off + hl > d.len() {
                        return Err("extension header longer than the datagram".into());
                    }
                    let next = d[off];
                    let next_nhc = matches!(next, 0 | 43 | 60 | 17);
                    let eid = match nh {
                        0 => 0u8,
                        43 => 1,
                        _ => 3,
                    };
                    out.push(0xe0 | (eid << 1) | next_nhc as u8);
                    if !next_nhc {
                        out.push(next);
                    }
                    let mut body = &d[off + 2..off + hl];
                    if o.elide_pad && nh != 43 {
                        if let Some(cut) = trailing_pad(body) {
                            body = &body[..cut];
                        }
                    }
                    out.push(body.len() as u8);
                    out.extend_from_slice(body);
                    off += hl;
                    nh = next;
                    if !next_nhc {
                        break;
                    }
                }
                17 => {
                    if off + 8 > d.len() {
                        return Err("UDP header truncated".into());
                    }
                    if be16(d, off + 4) as usize != d.len() - off {
                        return Err("UDP length differs from the IPv6 payload: not compressible without loss".into());
                    }
                    let (sp, dp) = (be16(d, off), be16(d, off + 2));
                    let best = if sp & 0xfff0 == 0xf0b0 && dp & 0xfff0 == 0xf0b0 {
                        3
                    } else if sp & 0xff00 == 0xf000 {
                        2
                    } else if dp & 0xff00 == 0xf000 {
                        1
                    } else {
                        0
                    };
                    let pp = o.ports.unwrap_or(best);
                    out.push(0xf0 | ((o.cksum_elide as u8) << 2) | pp);
                    match pp {
                        0 => {
                            out.extend_from_slice(&d[off..off + 4]);
                        }
                        1 => {
                            if dp & 0xff00 != 0xf000 {
                                return Err("UDP P=01 would lose the destination port".into());
                            }
                            out.extend_from_slice(&d[off..off + 2]);
                            out.push(dp as u8);
                        }
                        2 => {
                            if sp & 0xff00 != 0xf000 {
                                return Err("UDP P=10 would lose the source port".into());
                            }
                            out.push(sp as u8);
                            out.extend_from_slice(&d[off + 2..off + 4]);
                        }
                        _ => {
                            if sp & 0xfff0 != 0xf0b0 || dp & 0xfff0 != 0xf0b0 {
                                return Err("UDP P=11 would lose a port".into());
                            }
                            out.push((((sp & 0x0f) as u8) << 4) | (dp & 0x0f) as u8);
                        }
                    }
                    if !o.cksum_elide {
                        out.extend_from_slice(&d[off + 6..off + 8]);
                    }
                    off += 8;
                    break;
                }
                _ => break,
            }
        }
    }
    let comp_hdr_len = out.len();
    out.extend_from_slice(&d[off..]);
    Ok(Comp { bytes: out, comp_hdr_len, uncomp_hdr_len: off })
}

// ---------------------------------------------------------------- fragmentation

#[derive(Clone, Debug, PartialEq)]
pub struct FragHdr {
    pub first: bool,
    pub size: usize,
    pub tag: u16,
    /// offset in octets (the header carries it in units of 8)
    pub offset: usize,
    pub hdr_len: usize,
}

pub fn is_frag(p: &[u8]) -> bool {
    !p.is_empty() && (p[0] >> 3 == 0b11000 || p[0] >> 3 == 0b11100)
}

pub fn parse_frag(p: &[u8]) -> R<FragHdr> {
    if p.is_empty() {
        return Err("empty 6LoWPAN payload".into());
    }
    match p[0] >> 3 {
        0b11000 => {
            if p.len() < 4 {
                return Err("FRAG1 header truncated".into());
            }
            Ok(FragHdr { first: true, size: (be16(p, 0) & 0x7ff) as usize, tag: be16(p, 2), offset: 0, hdr_len: 4 })
        }
        0b11100 => {
            if p.len() < 5 {
                return Err("FRAGN header truncated".into());
            }
            Ok(FragHdr { first: false, size: (be16(p, 0) & 0x7ff) as usize, tag: be16(p, 2), offset: p[4] as usize * 8, hdr_len: 5 })
        }
        _ => Err(format!("dispatch {:02x} is not a fragment header", p[0])),
    }
}

pub fn frag1_hdr(size: usize, tag: u16) -> [u8; 4] {
    [0xc0 | ((size >> 8) as u8 & 7), size as u8, (tag >> 8) as u8, tag as u8]
}
pub fn fragn_hdr(size: usize, tag: u16, offset8: u8) -> [u8; 5] {
    [0xe0 | ((size >> 8) as u8 & 7), size as u8, (tag >> 8) as u8, tag as u8, offset8]
}

/// Split a compressed datagram into FRAG1 + FRAGN payloads.  `first_uncomp` = octets of
/// the *uncompressed* datagram covered by FRAG1 (multiple of 8, covers all compressed
/// headers); `next(i)` = octets carried by the i-th FRAGN (multiple of 8, > 0).
pub fn fragment(c: &Comp, dsize: usize, tag: u16, first_uncomp: usize, mut next: impl FnMut(usize) -> usize) -> R<Vec<Vec<u8>>> {
    if dsize > 2047 {
        return Err("datagram_size exceeds 11 bits".into());
    }
    if first_uncomp % 8 != 0 || first_uncomp < c.uncomp_hdr_len || first_uncomp >= dsize {
        return Err(format!("bad first fragment size {} (headers {}, datagram {})", first_uncomp, c.uncomp_hdr_len, dsize));
    }
    let mut v = Vec::new();
    let first_comp = c.comp_hdr_len + (first_uncomp - c.uncomp_hdr_len);
    let mut f = frag1_hdr(dsize, tag).to_vec();
    f.extend_from_slice(&c.bytes[..first_comp]);
    v.push(f);
    let mut upos = first_uncomp;
    let mut cpos = first_comp;
    let mut i = 0;
    while upos < dsize {
        let mut n = next(i);
        i += 1;
        if n == 0 || n % 8 != 0 {
            return Err("FRAGN size must be a positive multiple of 8".into());
        }
        if upos + n > dsize {
            n = dsize - upos;
        }
        if upos / 8 > 255 {
            return Err("fragment offset exceeds 8 bits".into());
        }
        let mut f = fragn_hdr(dsize, tag, (upos / 8) as u8).to_vec();
        f.extend_from_slice(&c.bytes[cpos..cpos + n]);
        v.push(f);
        upos += n;
        cpos += n;
    }
    Ok(v)
}

// ---------------------------------------------------------------- reassembly

#[derive(Clone, Copy, PartialEq, Eq, PartialOrd, Ord, Debug)]
pub struct FragKey {
    pub src: LlAddr,
    pub dst: LlAddr,
    pub size: usize,
    pub tag: u16,
}

#[derive(Clone, Debug)]
struct Slot {
    buf: Vec<u8>,
    have: Vec<bool>,
    udp_elided: Option<usize>,
    info: Option<IphcInfo>,
    nfrags: usize,
}

#[derive(Clone, Debug)]
pub struct Datagram {
    pub bytes: Vec<u8>,
    pub info: IphcInfo,
    /// number of link frames that contributed (1 = unfragmented)
    pub nfrags: usize,
    pub key: Option<FragKey>,
}

#[derive(Clone, Debug)]
pub enum Pushed {
    /// unfragmented datagram, or the fragment completed one
    Complete(Datagram),
    Partial,
}

/// Reference reassembler without resource limits: any order, duplicates, overlaps
/// (overlapping octets must agree).
#[derive(Default)]
pub struct Reasm {
    slots: BTreeMap<FragKey, Slot>,
}

impl Reasm {
    pub fn new() -> Reasm {
        Reasm::default()
    }
    pub fn open_keys(&self) -> Vec<FragKey> {
        self.slots.keys().copied().collect()
    }
    /// how many octets of an open datagram have arrived
    pub fn progress(&self, k: &FragKey) -> (usize, usize) {
        match self.slots.get(k) {
            Some(s) => (s.have.iter().filter(|x| **x).count(), s.have.len()),
            None => (0, 0),
        }
    }

    /// `p` = MAC payload of a data frame from `src` to `dst`.
    pub fn push(&mut self, src: &LlAddr, dst: &LlAddr, p: &[u8], ctx: &CtxTable) -> R<Pushed> {
        if !is_frag(p) {
            let mut d = decompress(p, src, dst, ctx, None)?;
            if let Some(uo) = d.udp_cksum_elided_at {
                fill_elided_udp_checksum(&mut d.bytes, uo);
            }
            return Ok(Pushed::Complete(Datagram { bytes: d.bytes, info: d.info, nfrags: 1, key: None }));
        }
        let h = parse_frag(p)?;
        if h.size < 40 {
            return Err(format!("datagram_size {} smaller than an IPv6 header", h.size));
        }
        let key = FragKey { src: *src, dst: *dst, size: h.size, tag: h.tag };
        let body = &p[h.hdr_len..];
        let (off, data, elided, info) = if h.first {
            let d = decompress(body, src, dst, ctx, Some(h.size))?;
            (0usize, d.bytes, d.udp_cksum_elided_at, Some(d.info))
        } else {
            (h.offset, body.to_vec(), None, None)
        };
        if off + data.len() > h.size {
            return Err(format!("fragment [{}..{}) exceeds datagram_size {}", off, off + data.len(), h.size));
        }
        let slot = self.slots.entry(key).or_insert_with(|| Slot { buf: vec![0; h.size], have: vec![false; h.size], udp_elided: None, info: None, nfrags: 0 });
        for (i, b) in data.iter().enumerate() {
            if slot.have[off + i] && slot.buf[off + i] != *b {
                return Err(format!("overlapping fragments disagree at octet {}", off + i));
            }
            slot.buf[off + i] = *b;
            slot.have[off + i] = true;
        }
        slot.nfrags += 1;
        if h.first {
            slot.udp_elided = elided;
            slot.info = info;
        }
        if slot.have.iter().all(|x| *x) && slot.info.is_some() {
            let s = self.slots.remove(&key).unwrap();
            let mut bytes = s.buf;
            if let Some(uo) = s.udp_elided {
                fill_elided_udp_checksum(&mut bytes, uo);
            }
            return Ok(Pushed::Complete(Datagram { bytes, info: s.info.unwrap(), nfrags: s.nfrags, key: Some(key) }));
        }
        Ok(Pushed::Partial)
    }
}
