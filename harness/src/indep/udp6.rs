//! UDP (RFC 768, RFC 8200 §8.1): minimal build + parse.
use super::*;

#[derive(Clone, Debug, PartialEq)]
pub struct Udp {
    pub sport: u16,
    pub dport: u16,
    pub len_field: u16,
    pub cksum: u16,
    /// checksum verifies against the pseudo header (a zero checksum never verifies over IPv6)
    pub checksum_ok: bool,
    pub payload: Vec<u8>,
}

/// Build a UDP datagram with a correct checksum (a computed 0 is sent as 0xffff).
pub fn build(src: &Addr, dst: &Addr, sport: u16, dport: u16, payload: &[u8]) -> Vec<u8> {
    let mut b = vec![0u8; 8 + payload.len()];
    put16(&mut b, 0, sport);
    put16(&mut b, 2, dport);
    put16(&mut b, 4, (8 + payload.len()) as u16);
    b[8..].copy_from_slice(payload);
    cksum::transport_fill(src, dst, ip::PROTO_UDP, &mut b, 6);
    b
}

pub fn parse(src: &Addr, dst: &Addr, b: &[u8]) -> R<Udp> {
    if b.len() < 8 {
        return Err(format!("UDP datagram of {} bytes", b.len()));
    }
    let l = be16(b, 4) as usize;
    if l < 8 || l > b.len() {
        return Err(format!("UDP length field {} with {} bytes", l, b.len()));
    }
    let ck = be16(b, 6);
    let ok = if ck == 0 { src.is_v4() } else { cksum::transport_verifies(src, dst, ip::PROTO_UDP, &b[..l]) };
    Ok(Udp { sport: be16(b, 0), dport: be16(b, 2), len_field: l as u16, cksum: ck, checksum_ok: ok, payload: b[8..l].to_vec() })
}
