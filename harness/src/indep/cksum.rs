//! RFC 1071 Internet checksum, written independently of smoltcp::wire::checksum.
use super::Addr;

/// One's-complement sum of big-endian 16-bit words (odd trailing byte is padded
/// with a zero byte on the right), NOT yet complemented, folded to 16 bits.
pub fn sum(parts: &[&[u8]]) -> u16 {
    let mut acc: u64 = 0;
    for p in parts {
        // every part except possibly the last is expected to have even length
        let mut i = 0;
        while i + 1 < p.len() {
            acc += ((p[i] as u64) << 8) | p[i + 1] as u64;
            i += 2;
        }
        if i < p.len() {
            acc += (p[i] as u64) << 8;
        }
    }
    while acc >> 16 != 0 {
        acc = (acc & 0xffff) + (acc >> 16);
    }
    acc as u16
}

/// The checksum field value for the given data (field itself zeroed by caller).
pub fn checksum(parts: &[&[u8]]) -> u16 {
    !sum(parts)
}

/// true if data (including its checksum field) verifies
pub fn verifies(parts: &[&[u8]]) -> bool {
    sum(parts) == 0xffff
}

pub fn pseudo(src: &Addr, dst: &Addr, proto: u8, len: u32) -> Vec<u8> {
    let mut v = Vec::with_capacity(40);
    match (src, dst) {
        (Addr::V4(s), Addr::V4(d)) => {
            v.extend_from_slice(s);
            v.extend_from_slice(d);
            v.push(0);
            v.push(proto);
            v.push((len >> 8) as u8);
            v.push(len as u8);
        }
        (Addr::V6(s), Addr::V6(d)) => {
            v.extend_from_slice(s);
            v.extend_from_slice(d);
            v.extend_from_slice(&len.to_be_bytes());
            v.extend_from_slice(&[0, 0, 0, proto]);
        }
        _ => panic!("mixed address families in pseudo header"),
    }
    v
}

/// Verify a transport segment (TCP/UDP/ICMPv6) against its pseudo header.
pub fn transport_verifies(src: &Addr, dst: &Addr, proto: u8, seg: &[u8]) -> bool {
    let ph = pseudo(src, dst, proto, seg.len() as u32);
    verifies(&[&ph, seg])
}

/// Compute the transport checksum; `ck_off` is the offset of the checksum field in `seg`.
pub fn transport_fill(src: &Addr, dst: &Addr, proto: u8, seg: &mut [u8], ck_off: usize) {
    seg[ck_off] = 0;
    seg[ck_off + 1] = 0;
    let ph = pseudo(src, dst, proto, seg.len() as u32);
    let mut c = checksum(&[&ph, seg]);
    if proto == 17 && c == 0 {
        c = 0xffff;
    }
    seg[ck_off] = (c >> 8) as u8;
    seg[ck_off + 1] = c as u8;
}
