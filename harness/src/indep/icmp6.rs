//! ICMPv6 (RFC 4443): minimal build + parse, echo request / reply.
use super::*;

pub const ECHO_REQUEST: u8 = 128;
pub const ECHO_REPLY: u8 = 129;
pub const MLD_REPORT_V2: u8 = 143;
pub const ROUTER_SOLICIT: u8 = 133;
pub const ROUTER_ADVERT: u8 = 134;
pub const NEIGHBOR_SOLICIT: u8 = 135;
pub const NEIGHBOR_ADVERT: u8 = 136;

#[derive(Clone, Debug, PartialEq)]
pub struct Icmp6 {
    pub typ: u8,
    pub code: u8,
    pub cksum: u16,
    pub checksum_ok: bool,
    /// message body after the 4-octet common header
    pub body: Vec<u8>,
}

impl Icmp6 {
    pub fn is_echo(&self) -> bool {
        (self.typ == ECHO_REQUEST || self.typ == ECHO_REPLY) && self.body.len() >= 4
    }
    pub fn ident(&self) -> u16 {
        be16(&self.body, 0)
    }
    pub fn seq_no(&self) -> u16 {
        be16(&self.body, 2)
    }
    pub fn echo_data(&self) -> &[u8] {
        &self.body[4..]
    }
}

pub fn build_echo(src: &Addr, dst: &Addr, typ: u8, ident: u16, seq: u16, data: &[u8]) -> Vec<u8> {
    let mut b = vec![0u8; 8 + data.len()];
    b[0] = typ;
    b[1] = 0;
    put16(&mut b, 4, ident);
    put16(&mut b, 6, seq);
    b[8..].copy_from_slice(data);
    cksum::transport_fill(src, dst, ip::PROTO_ICMPV6, &mut b, 2);
    b
}

pub fn parse(src: &Addr, dst: &Addr, b: &[u8]) -> R<Icmp6> {
    if b.len() < 4 {
        return Err(format!("ICMPv6 message of {} bytes", b.len()));
    }
    Ok(Icmp6 {
        typ: b[0],
        code: b[1],
        cksum: be16(b, 2),
        checksum_ok: cksum::transport_verifies(src, dst, ip::PROTO_ICMPV6, b),
        body: b[4..].to_vec(),
    })
}
