//! IPv4 / IPv6 header parsing and building (RFC 791, RFC 8200).
use super::*;

#[derive(Clone, Debug, PartialEq)]
pub struct IpInfo {
    pub src: Addr,
    pub dst: Addr,
    /// upper-layer protocol (after skipping IPv6 extension headers)
    pub proto: u8,
    pub hop_limit: u8,
    /// offset of the upper-layer payload inside the packet
    pub payload_off: usize,
    /// length of the upper-layer payload
    pub payload_len: usize,
    pub header_len: usize,
    // IPv4 only
    pub ident: u16,
    pub dont_frag: bool,
    pub more_frags: bool,
    pub frag_offset: usize,
    pub v4_header_ok: bool,
    /// IPv6 extension headers seen (next-header numbers)
    pub ext: Vec<u8>,
    pub total_len: usize,
}

pub const PROTO_ICMP: u8 = 1;
pub const PROTO_IGMP: u8 = 2;
pub const PROTO_TCP: u8 = 6;
pub const PROTO_UDP: u8 = 17;
pub const PROTO_ICMPV6: u8 = 58;

/// Parse an IP packet. `strict`: the buffer must be exactly as long as the header says.
pub fn parse(p: &[u8], strict: bool) -> R<IpInfo> {
    if p.is_empty() {
        return Err("empty IP packet".into());
    }
    match p[0] >> 4 {
        4 => parse_v4(p, strict),
        6 => parse_v6(p, strict),
        v => Err(format!("IP version {}", v)),
    }
}

pub fn parse_v4(p: &[u8], strict: bool) -> R<IpInfo> {
    if p.len() < 20 {
        return Err(format!("IPv4 packet of {} bytes", p.len()));
    }
    let ihl = ((p[0] & 0x0f) as usize) * 4;
    if ihl < 20 || ihl > p.len() {
        return Err(format!("IPv4 IHL {} with {} bytes", ihl, p.len()));
    }
    let total = be16(p, 2) as usize;
    if total < ihl {
        return Err(format!("IPv4 total length {} < header length {}", total, ihl));
    }
    if total > p.len() {
        return Err(format!("IPv4 total length {} > buffer {}", total, p.len()));
    }
    if strict && total != p.len() {
        return Err(format!("IPv4 total length {} but frame carries {} bytes", total, p.len()));
    }
    let flags_frag = be16(p, 6);
    if flags_frag & 0x8000 != 0 && strict {
        return Err("IPv4 reserved flag set".into());
    }
    let v4_header_ok = cksum::verifies(&[&p[..ihl]]);
    let mut s = [0u8; 4];
    s.copy_from_slice(&p[12..16]);
    let mut d = [0u8; 4];
    d.copy_from_slice(&p[16..20]);
    Ok(IpInfo {
        src: Addr::V4(s),
        dst: Addr::V4(d),
        proto: p[9],
        hop_limit: p[8],
        payload_off: ihl,
        payload_len: total - ihl,
        header_len: ihl,
        ident: be16(p, 4),
        dont_frag: flags_frag & 0x4000 != 0,
        more_frags: flags_frag & 0x2000 != 0,
        frag_offset: ((flags_frag & 0x1fff) as usize) * 8,
        v4_header_ok,
        ext: Vec::new(),
        total_len: total,
    })
}

pub fn parse_v6(p: &[u8], strict: bool) -> R<IpInfo> {
    if p.len() < 40 {
        return Err(format!("IPv6 packet of {} bytes", p.len()));
    }
    let plen = be16(p, 4) as usize;
    if 40 + plen > p.len() {
        return Err(format!("IPv6 payload length {} > buffer {}", plen, p.len() - 40));
    }
    if strict && 40 + plen != p.len() {
        return Err(format!("IPv6 payload length {} but frame carries {} bytes after the header", plen, p.len() - 40));
    }
    let mut s = [0u8; 16];
    s.copy_from_slice(&p[8..24]);
    let mut d = [0u8; 16];
    d.copy_from_slice(&p[24..40]);
    let mut nh = p[6];
    let mut off = 40;
    let end = 40 + plen;
    let mut ext = Vec::new();
    // hop-by-hop (0), routing (43), destination options (60): generic TLV-length headers
    loop {
        match nh {
            0 | 43 | 60 => {
                if off + 8 > end {
                    return Err("IPv6 extension header truncated".into());
                }
                let l = (p[off + 1] as usize + 1) * 8;
                if off + l > end {
                    return Err("IPv6 extension header longer than the payload".into());
                }
                ext.push(nh);
                nh = p[off];
                off += l;
            }
            44 => {
                if off + 8 > end {
                    return Err("IPv6 fragment header truncated".into());
                }
                ext.push(nh);
                nh = p[off];
                off += 8;
            }
            _ => break,
        }
        if ext.len() > 16 {
            return Err("too many IPv6 extension headers".into());
        }
    }
    Ok(IpInfo {
        src: Addr::V6(s),
        dst: Addr::V6(d),
        proto: nh,
        hop_limit: p[7],
        payload_off: off,
        payload_len: end - off,
        header_len: off,
        ident: 0,
        dont_frag: false,
        more_frags: false,
        frag_offset: 0,
        v4_header_ok: true,
        ext,
        total_len: end,
    })
}

/// Build an IP packet around `payload` (no options / extension headers).
pub fn build(src: &Addr, dst: &Addr, proto: u8, hop: u8, payload: &[u8]) -> Vec<u8> {
    match (src, dst) {
        (Addr::V4(s), Addr::V4(d)) => build_v4(s, d, proto, hop, 0, false, false, 0, payload),
        (Addr::V6(s), Addr::V6(d)) => {
            let mut p = vec![0u8; 40 + payload.len()];
            p[0] = 0x60;
            put16(&mut p, 4, payload.len() as u16);
            p[6] = proto;
            p[7] = hop;
            p[8..24].copy_from_slice(s);
            p[24..40].copy_from_slice(d);
            p[40..].copy_from_slice(payload);
            p
        }
        _ => panic!("mixed address families"),
    }
}

#[allow(clippy::too_many_arguments)]
pub fn build_v4(
    s: &[u8; 4],
    d: &[u8; 4],
    proto: u8,
    ttl: u8,
    ident: u16,
    df: bool,
    mf: bool,
    frag_off_bytes: usize,
    payload: &[u8],
) -> Vec<u8> {
    let mut p = vec![0u8; 20 + payload.len()];
    p[0] = 0x45;
    put16(&mut p, 2, (20 + payload.len()) as u16);
    put16(&mut p, 4, ident);
    let mut ff = (frag_off_bytes / 8) as u16;
    if df {
        ff |= 0x4000;
    }
    if mf {
        ff |= 0x2000;
    }
    put16(&mut p, 6, ff);
    p[8] = ttl;
    p[9] = proto;
    p[12..16].copy_from_slice(s);
    p[16..20].copy_from_slice(d);
    let c = cksum::checksum(&[&p[..20]]);
    put16(&mut p, 10, c);
    p[20..].copy_from_slice(payload);
    p
}
