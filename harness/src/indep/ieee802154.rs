//! IEEE 802.15.4 MAC data frames (IEEE Std 802.15.4-2003/2006 §7.2), written from the
//! standard: frame control field, sequence number, addressing fields.  Only what
//! 6LoWPAN (RFC 4944) needs: no security header, no beacons / commands.
//!
//! Octet order: every multi-octet MAC field is transmitted least significant octet
//! first.  `LlAddr` keeps addresses in *canonical* order (the way an EUI-64 is
//! written, most significant octet first), i.e. reversed w.r.t. the wire.
use super::*;

#[derive(Clone, Copy, PartialEq, Eq, PartialOrd, Ord, Hash, Debug)]
pub enum LlAddr {
    Absent,
    Short([u8; 2]),
    Ext([u8; 8]),
}

impl LlAddr {
    pub const BROADCAST: LlAddr = LlAddr::Short([0xff, 0xff]);

    /// Interface identifier derived from the link-layer address.
    /// Extended: the EUI-64 with the universal/local bit inverted (RFC 4944 §6, RFC 4291 App. A).
    /// Short: 0000:00ff:fe00:XXXX (RFC 6282 §3.2.2).
    pub fn iid(&self) -> Option<[u8; 8]> {
        match self {
            LlAddr::Absent => None,
            LlAddr::Short(s) => Some([0, 0, 0, 0xff, 0xfe, 0, s[0], s[1]]),
            LlAddr::Ext(e) => {
                let mut i = *e;
                i[0] ^= 0x02;
                Some(i)
            }
        }
    }
    pub fn mode(&self) -> u16 {
        match self {
            LlAddr::Absent => 0,
            LlAddr::Short(_) => 2,
            LlAddr::Ext(_) => 3,
        }
    }
    pub fn wire_len(&self) -> usize {
        match self {
            LlAddr::Absent => 0,
            LlAddr::Short(_) => 2,
            LlAddr::Ext(_) => 8,
        }
    }
    fn push_wire(&self, v: &mut Vec<u8>) {
        match self {
            LlAddr::Absent => {}
            LlAddr::Short(s) => v.extend(s.iter().rev()),
            LlAddr::Ext(e) => v.extend(e.iter().rev()),
        }
    }
    pub fn to_smol(&self) -> smoltcp::wire::Ieee802154Address {
        use smoltcp::wire::Ieee802154Address as A;
        match self {
            LlAddr::Absent => A::Absent,
            LlAddr::Short(s) => A::Short(*s),
            LlAddr::Ext(e) => A::Extended(*e),
        }
    }
}

impl std::fmt::Display for LlAddr {
    fn fmt(&self, f: &mut std::fmt::Formatter) -> std::fmt::Result {
        match self {
            LlAddr::Absent => write!(f, "absent"),
            LlAddr::Short(s) => write!(f, "short:{:02x}{:02x}", s[0], s[1]),
            LlAddr::Ext(e) => {
                write!(f, "ext:")?;
                for b in e {
                    write!(f, "{:02x}", b)?;
                }
                Ok(())
            }
        }
    }
}

pub const FT_BEACON: u8 = 0;
pub const FT_DATA: u8 = 1;
pub const FT_ACK: u8 = 2;
pub const FT_CMD: u8 = 3;

#[derive(Clone, Debug, PartialEq)]
pub struct MacFrame {
    pub ftype: u8,
    pub security: bool,
    pub pending: bool,
    pub ack_req: bool,
    pub pan_comp: bool,
    /// frame control bits 7..9 (reserved in 2003/2006)
    pub reserved: u8,
    pub version: u8,
    pub seq: u8,
    pub dst_pan: Option<u16>,
    pub dst: LlAddr,
    pub src_pan: Option<u16>,
    pub src: LlAddr,
    /// length of the MAC header = offset of the MAC payload
    pub hdr_len: usize,
}

fn read_addr(b: &[u8], o: usize, mode: u16) -> R<LlAddr> {
    match mode {
        0 => Ok(LlAddr::Absent),
        2 => {
            if o + 2 > b.len() {
                return Err("802.15.4 short address truncated".into());
            }
            Ok(LlAddr::Short([b[o + 1], b[o]]))
        }
        3 => {
            if o + 8 > b.len() {
                return Err("802.15.4 extended address truncated".into());
            }
            let mut e = [0u8; 8];
            for i in 0..8 {
                e[i] = b[o + 7 - i];
            }
            Ok(LlAddr::Ext(e))
        }
        _ => Err("802.15.4 reserved addressing mode 1".into()),
    }
}

/// Parse the MAC header of a frame (without FCS) laid out per the 2003/2006 editions.
pub fn parse(b: &[u8]) -> R<MacFrame> {
    if b.len() < 3 {
        return Err(format!("802.15.4 frame of {} octets", b.len()));
    }
    let fc = (b[0] as u16) | ((b[1] as u16) << 8);
    let ftype = (fc & 7) as u8;
    let security = fc & 0x0008 != 0;
    let pending = fc & 0x0010 != 0;
    let ack_req = fc & 0x0020 != 0;
    let pan_comp = fc & 0x0040 != 0;
    let reserved = ((fc >> 7) & 7) as u8;
    let dmode = (fc >> 10) & 3;
    let version = ((fc >> 12) & 3) as u8;
    let smode = (fc >> 14) & 3;
    if version > 1 {
        return Err(format!("802.15.4 frame version {} (only 2003/2006 layouts are handled)", version));
    }
    let seq = b[2];
    let mut o = 3;
    let mut dst_pan = None;
    let mut src_pan = None;
    if dmode != 0 {
        if o + 2 > b.len() {
            return Err("802.15.4 destination PAN id truncated".into());
        }
        dst_pan = Some((b[o] as u16) | ((b[o + 1] as u16) << 8));
        o += 2;
    }
    let dst = read_addr(b, o, dmode)?;
    o += dst.wire_len();
    if smode != 0 {
        // PAN id compression: the source PAN id is omitted (and equals the destination
        // PAN id) when both addresses are present and the bit is set.
        if pan_comp && dmode != 0 {
            src_pan = None;
        } else {
            if o + 2 > b.len() {
                return Err("802.15.4 source PAN id truncated".into());
            }
            src_pan = Some((b[o] as u16) | ((b[o + 1] as u16) << 8));
            o += 2;
        }
    }
    let src = read_addr(b, o, smode)?;
    o += src.wire_len();
    if pan_comp && (dmode == 0 || smode == 0) {
        return Err("802.15.4 PAN id compression set although an address is absent".into());
    }
    Ok(MacFrame {
        ftype,
        security,
        pending,
        ack_req,
        pan_comp,
        reserved,
        version,
        seq,
        dst_pan,
        dst,
        src_pan,
        src,
        hdr_len: o,
    })
}

#[derive(Clone, Copy, Debug)]
pub struct MacOpts {
    /// use PAN id compression (source PAN omitted)
    pub pan_comp: bool,
    pub version: u8,
    pub ack_req: bool,
    pub pending: bool,
}

impl Default for MacOpts {
    fn default() -> Self {
        MacOpts { pan_comp: true, version: 0, ack_req: false, pending: false }
    }
}

/// Build a data frame (no FCS).  Both addresses must be present.
pub fn build_data(seq: u8, pan: u16, dst: &LlAddr, src: &LlAddr, o: &MacOpts, payload: &[u8]) -> Vec<u8> {
    let mut fc: u16 = FT_DATA as u16;
    if o.pending {
        fc |= 0x0010;
    }
    if o.ack_req {
        fc |= 0x0020;
    }
    if o.pan_comp {
        fc |= 0x0040;
    }
    fc |= dst.mode() << 10;
    fc |= ((o.version & 3) as u16) << 12;
    fc |= src.mode() << 14;
    let mut v = Vec::with_capacity(23 + payload.len());
    v.push(fc as u8);
    v.push((fc >> 8) as u8);
    v.push(seq);
    v.push(pan as u8);
    v.push((pan >> 8) as u8);
    dst.push_wire(&mut v);
    if !o.pan_comp {
        v.push(pan as u8);
        v.push((pan >> 8) as u8);
    }
    src.push_wire(&mut v);
    v.extend_from_slice(payload);
    v
}

/// Largest MAC frame without the 2-octet FCS (aMaxPHYPacketSize 127 - 2).
pub const MAX_FRAME_NO_FCS: usize = 125;
