//! C19 – DNS answers are only taken from matching responses; queries terminate.
//!
//! Parts (workload and oracle: `sim::dns_net`):
//!   * `resolve`   : every kind of response mixed, 1..N servers, 1..4 concurrent queries;
//!   * `wrong-one` : each run answers with responses that are wrong in ONE chosen respect
//!                   (or not at all): the queries must run into their time-out, never complete;
//!   * `fuzz`      : responses with the right id/port but truncated at every byte, random
//!                   bodies, pointer tricks;
//!   * `names`     : `wire::dns::Packet::parse_name` on buffers full of labels and pointers
//!                   (forward, backward, self, loops) against the independent decoder.
//! Every case runs on its own thread under a wall-clock watchdog: a call that does not
//! return (a decompression loop) is reported instead of hanging the run.
use crate::indep::x2::dns as idns;
use crate::indep::Addr;
use crate::sim::dns_net::*;
use crate::sim::Micros;
use crate::util::json::Json;
use crate::util::rng::Rng;
use crate::util::run::*;
use std::sync::atomic::{AtomicU64, Ordering};
use std::sync::mpsc;

pub const RULE: &str = "the harness is the network of one Medium::Ip host running dns::Socket; every emitted query and every delivered response is parsed with the independent codec. matching(R,q) := (R from port 53 of a configured server, or from port 5353) and dst port == q's source port and id == q's id and QR=1 and first question == q's name (ASCII case-insensitive) and type. (1) get_query_result == Ok(addrs) only after a poll that was handed a matching R, addrs non-empty and a subset of the A/AAAA records of R whose owner is reachable from q's name through CNAME records of R; (2) Failed earlier than 10 s after the first transmission only after a matching R; (3) under poll_at-driven polling every query is Ok/Failed within servers x 25 s (mDNS: 2 groups), gaps between transmissions to one server never shrink and are <= 10 s, the next server is first contacted >= 10 s and <= 25 s after the previous one; (4) no panic and no non-returning call (watchdog) for any response, including truncation at every byte, random bodies and compression pointer loops; names: parse_name yields at most as many labels as the buffer has octets, and when it succeeds the labels equal those of the independent decoder. A class is (result kind) | (gap) | (response kind x outcome).";

const WATCHDOG_SECS: u64 = 30;
static HANGS: AtomicU64 = AtomicU64::new(0);

/// Run a case on its own thread; a case that does not return within the watchdog
/// time is reported as a violation (the thread is abandoned).  After three such
/// reports the remaining cases of the run are skipped (each would cost the full
/// watchdog time and the verdict is already decided).
pub fn guarded(idx: u64, rng: &mut Rng, ctx: &Ctx, f: fn(u64, &mut Rng, &Ctx) -> CaseOut) -> CaseOut {
    if HANGS.load(Ordering::Relaxed) >= 3 {
        let mut o = CaseOut::default();
        o.count("cases_skipped_after_watchdog", 1);
        return o;
    }
    let (tx, rx) = mpsc::channel();
    let mut r2 = rng.clone();
    let c2 = ctx.clone();
    let spawned = std::thread::Builder::new().name(format!("c19-case-{}", idx)).spawn(move || {
        let res = catch(|| f(idx, &mut r2, &c2));
        let _ = tx.send(res);
    });
    if let Err(e) = spawned {
        let mut o = CaseOut::default();
        o.harness_errors.push(format!("cannot spawn case thread: {}", e));
        return o;
    }
    match rx.recv_timeout(std::time::Duration::from_secs(WATCHDOG_SECS)) {
        Ok(Ok(out)) => out,
        Ok(Err(p)) => {
            let mut out = CaseOut::default();
            if p.in_target() {
                out.violations.push(
                    Violation::new(p.signature(), format!("library code panicked at {}:{}: {}", p.file, p.line, p.msg))
                        .with(Json::obj().set("panic_file", Json::s(p.file.clone())).set("line", Json::u(p.line as u64))),
                );
            } else {
                out.harness_errors.push(format!("harness panic at {}:{}: {}", p.file, p.line, p.msg));
            }
            out
        }
        Err(_) => {
            HANGS.fetch_add(1, Ordering::Relaxed);
            let mut out = CaseOut::default();
            out.violations.push(Violation::new(
                "dns:non-returning-call",
                format!("the case did not return within {} s of wall-clock time (cases take milliseconds): a call into the DNS code loops; replay the case to see the last input", WATCHDOG_SECS),
            ));
            out
        }
    }
}

// ---------------------------------------------------------------- configurations

fn query_names(rng: &mut Rng, n: usize) -> Vec<QuerySpec> {
    let mut v = Vec::new();
    let mut t: Micros = 0;
    for i in 0..n {
        let name = match rng.below(9) {
            0 => format!("printer{}.local", i),
            1 => format!("host{}", i),
            2 => format!("a{}.b.c.d.e.f.g.test", i),
            3 => format!("{}{}.long.example", "x".repeat(62), i),
            4 => {
                // close to the 255-octet limit
                let l = "y".repeat(60);
                format!("q{}.{}.{}.{}.{}.z", i, l, l, l, &l[..50])
            }
            5 => format!("MiXed{}.Example.COM", i),
            6 => format!("deep{}.sub.local", i),
            _ => format!("www{}.example.com", i),
        };
        if rng.chance(1, 4) {
            t += *rng.pick(&[1i64, 500_000, 3_000_000, 11_000_000]);
        }
        v.push(QuerySpec { name, aaaa: rng.chance(2, 5), start_at: t });
    }
    v
}

fn servers(rng: &mut Rng) -> Vec<Addr> {
    let pool = [
        Addr::V4([10, 0, 0, 53]),
        Addr::V4([192, 0, 2, 53]),
        Addr::V6([0xfd, 0, 0, 0, 0, 0, 0, 0, 0, 0, 0, 0, 0, 0, 0, 0x53]),
        Addr::V4([10, 0, 0, 54]),
        Addr::V6([0x20, 0x01, 0x0d, 0xb8, 0, 0, 0, 0, 0, 0, 0, 0, 0, 0, 0, 0x53]),
    ];
    let mut idx: Vec<usize> = (0..pool.len()).collect();
    rng.shuffle(&mut idx);
    // sometimes more servers than the build can hold (the socket truncates the list)
    let n = match rng.below(6) {
        0 => MAX_SERVERS + 1,
        1 | 2 => 1,
        _ => rng.urange(1, MAX_SERVERS.min(3)),
    }
    .min(pool.len());
    idx.into_iter().take(n).map(|i| pool[i]).collect()
}

fn base_cfg(rng: &mut Rng) -> DnsCfg {
    let nq = rng.urange(1, 4);
    DnsCfg {
        servers: servers(rng),
        queries: query_names(rng, nq),
        iface_seed: rng.next_u64(),
        menu: vec![(Kind::Good, 1)],
        extra_pm: *rng.pick(&[0u32, 200, 500]),
        latencies: match rng.below(4) {
            0 => vec![0],
            1 => vec![0, 1_000, 20_000],
            2 => vec![1_000, 300_000, 900_000, 2_500_000],
            _ => vec![0, 5_000_000, 9_999_999, 10_000_001, 14_000_000],
        },
        dup_pm: *rng.pick(&[0u32, 100, 400]),
        early_poll_pm: *rng.pick(&[0u32, 200, 500]),
        trunc_at: None,
        max_polls: 400,
        l2: *rng.pick(&[0u8, 0, 0, 1, 2, 2, 3]),
    }
}

const WRONG: &[Kind] = &[
    Kind::WrongTxid,
    Kind::WrongDstPort,
    Kind::WrongSrcAddr,
    Kind::WrongSrcPort,
    Kind::WrongQName,
    Kind::WrongQType,
    Kind::QrZero,
    Kind::Opcode,
    Kind::QdCount0,
    Kind::QdCount2,
];

fn cfg_resolve(rng: &mut Rng) -> DnsCfg {
    let mut c = base_cfg(rng);
    let mut menu: Vec<(Kind, u32)> = Vec::new();
    for k in ALL_KINDS {
        let w = match k {
            Kind::Good => 30,
            Kind::Silent => 15,
            Kind::Truncated | Kind::PointerTricks | Kind::Garbage => 4,
            Kind::Many | Kind::CnameThenMalformed | Kind::NxDomain => 3,
            _ => 2,
        };
        menu.push((*k, w));
    }
    // each run emphasises one kind
    let e = rng.usize_below(menu.len());
    menu[e].1 += 25;
    c.menu = menu;
    c
}

fn cfg_wrong_one(rng: &mut Rng) -> (DnsCfg, Kind) {
    let mut c = base_cfg(rng);
    let k = if rng.chance(1, 8) { Kind::Silent } else { *rng.pick(WRONG) };
    c.menu = vec![(k, 70), (Kind::Silent, 30)];
    c.extra_pm = *rng.pick(&[0u32, 300]);
    (c, k)
}

fn cfg_fuzz(rng: &mut Rng, idx: u64) -> DnsCfg {
    let mut c = base_cfg(rng);
    c.menu = vec![(Kind::Truncated, 40), (Kind::Garbage, 30), (Kind::PointerTricks, 20), (Kind::CnameThenMalformed, 10), (Kind::Many, 5), (Kind::Good, 5), (Kind::Silent, 5)];
    // "truncated at every byte": the cut position walks with the case index
    c.trunc_at = Some((idx % 160) as usize);
    c.extra_pm = 500;
    c
}

fn run_sim(idx: u64, rng: &mut Rng, ctx: &Ctx, cfg: DnsCfg, part: &str, tag: &str) -> CaseOut {
    let mut out = CaseOut::default();
    let mut sim = DnsSim::new(cfg.clone());
    sim.trace_on = ctx.verbose;
    if ctx.verbose {
        println!("config: {:?}", cfg);
    }
    sim.run(rng);
    let st = sim.stats.clone();
    if ctx.verbose {
        println!("stats: {:?}", st);
    }
    out.evals = st.evals;
    for c in &sim.classes {
        out.class(format!("{}:{}", part, c));
    }
    if !tag.is_empty() {
        out.class(format!("{}:menu:{}", part, tag));
    }
    out.class(format!("servers:{}:queries:{}", cfg.servers.len().min(MAX_SERVERS), cfg.queries.len()));
    out.count("runs", 1);
    out.count("polls", st.polls);
    out.count("queries_started", st.queries_started);
    out.count("query_datagrams_emitted", st.queries_emitted);
    out.count("retransmissions", st.retransmissions);
    out.count("server_switches", st.server_switches);
    out.count("responses_delivered", st.responses_delivered);
    out.count("responses_matching_a_pending_query", st.responses_matching);
    out.count("responses_wrong_in_one_respect", st.responses_wrong_one);
    out.count("queries_completed_ok", st.completed_ok);
    out.count("queries_completed_via_cname", st.completed_via_cname);
    out.count("queries_failed", st.failed);
    out.count("queries_failed_by_timeout", st.failed_by_timeout);
    out.count("queries_failed_by_matching_response", st.failed_by_response);
    out.count("spacing_checks", st.spacing_checks);
    out.count("result_checks", st.result_checks);
    out.count("termination_checks", st.termination_checks);
    out.count("icmp_errors_from_host", st.icmp_from_host);
    out.count("emitted_with_rewritten_question", st.rewritten_question_emitted);
    out.count("early_polls", st.early_polls);
    out.count("start_query_refused", sim.refused);
    for v in sim.violations {
        out.violate(v);
    }
    if idx == 0 {
        out.sample = Some(
            Json::obj()
                .set("part", Json::s(part))
                .set("config", Json::s(format!("{:?}", cfg)))
                .set("stats", Json::s(format!("{:?}", st)))
                .set("trace_head", Json::Arr(sim.trace.iter().take(30).map(|s| Json::s(s.clone())).collect())),
        );
    }
    out
}

pub fn resolve_body(i: u64, r: &mut Rng, c: &Ctx) -> CaseOut {
    let cfg = cfg_resolve(r);
    run_sim(i, r, c, cfg, "resolve", "")
}
fn wrong_one_body(i: u64, r: &mut Rng, c: &Ctx) -> CaseOut {
    let (cfg, k) = cfg_wrong_one(r);
    run_sim(i, r, c, cfg, "wrong-one", &format!("{:?}", k))
}
pub fn fuzz_body(i: u64, r: &mut Rng, c: &Ctx) -> CaseOut {
    let cfg = cfg_fuzz(r, i);
    let t = cfg.trunc_at.unwrap_or(0);
    run_sim(i, r, c, cfg, "fuzz", &format!("cut@{}", t / 20 * 20))
}

pub fn resolve_case(i: u64, r: &mut Rng, c: &Ctx) -> CaseOut {
    guarded(i, r, c, resolve_body)
}
pub fn wrong_one_case(i: u64, r: &mut Rng, c: &Ctx) -> CaseOut {
    guarded(i, r, c, wrong_one_body)
}
pub fn fuzz_case(i: u64, r: &mut Rng, c: &Ctx) -> CaseOut {
    guarded(i, r, c, fuzz_body)
}

// ---------------------------------------------------------------- names

/// A buffer of name fragments: labels, terminators and pointers of every kind.
fn name_soup(rng: &mut Rng) -> (Vec<u8>, Vec<usize>) {
    let mut b = rng.bytes(12);
    let mut starts: Vec<usize> = Vec::new();
    let target_len = rng.urange(14, 200);
    while b.len() < target_len {
        starts.push(b.len());
        // a run of labels ...
        for _ in 0..rng.below(4) {
            let l = match rng.below(6) {
                0 => 63,
                1 => 1,
                _ => rng.urange(1, 12),
            };
            b.push(l as u8);
            for _ in 0..l {
                b.push(b'a' + rng.below(26) as u8);
            }
        }
        // ... ended by a terminator, a pointer, or something else
        let here = b.len();
        match rng.below(12) {
            0 | 1 | 2 => b.push(0),
            3 | 4 | 5 => {
                // backward pointer to a fragment start (or into the header)
                let t = if starts.is_empty() || rng.chance(1, 8) { rng.usize_below(12) } else { *rng.pick(&starts) };
                b.push(0xC0 | (t >> 8) as u8);
                b.push(t as u8);
            }
            6 => {
                // pointer to itself
                b.push(0xC0 | (here >> 8) as u8);
                b.push(here as u8);
            }
            7 | 8 => {
                // forward pointer
                let t = here + 2 + rng.usize_below(40);
                b.push(0xC0 | ((t >> 8) as u8 & 0x3f));
                b.push(t as u8);
            }
            9 => {
                // pointer far outside
                b.push(0xC0 | rng.below(64) as u8);
                b.push(rng.u8());
            }
            10 => b.push(*rng.pick(&[0x40u8, 0x80, 0xbf, 0x7f])),
            _ => {
                // pointer to the previous pointer (two-element loops appear this way)
                let t = here.saturating_sub(2);
                b.push(0xC0 | (t >> 8) as u8);
                b.push(t as u8);
            }
        }
    }
    if rng.chance(1, 3) {
        let cut = rng.usize_below(b.len().saturating_sub(12)) + 12;
        b.truncate(cut);
        starts.retain(|s| *s < cut);
    }
    if starts.is_empty() {
        starts.push(12.min(b.len().saturating_sub(1)));
    }
    (b, starts)
}

fn names_body(idx: u64, rng: &mut Rng, ctx: &Ctx) -> CaseOut {
    let mut out = CaseOut::default();
    for round in 0..40 {
        let (buf, mut starts) = name_soup(rng);
        // also a few arbitrary offsets
        for _ in 0..3 {
            starts.push(rng.usize_below(buf.len()));
        }
        let pkt = smoltcp::wire::DnsPacket::new_unchecked(&buf[..]);
        for &s in &starts {
            if s >= buf.len() {
                continue;
            }
            out.evals += 1;
            // smoltcp: iterate with a step cap (a terminating decoder cannot yield more labels than octets)
            let cap = buf.len() + 8;
            let mut labels: Vec<Vec<u8>> = Vec::new();
            let mut verdict = "ok";
            let mut steps = 0usize;
            for item in pkt.parse_name(&buf[s..]) {
                steps += 1;
                if steps > cap {
                    verdict = "unbounded";
                    break;
                }
                match item {
                    Ok(l) => labels.push(l.to_vec()),
                    Err(_) => {
                        verdict = "err";
                        break;
                    }
                }
            }
            let ind = idns::read_name(&buf, s);
            if ctx.verbose {
                println!("buf {} start {} -> smoltcp {} {:?} | indep {:?}", hexs(&buf), s, verdict, labels.iter().map(|l| String::from_utf8_lossy(l).to_string()).collect::<Vec<_>>(), ind.as_ref().map(|x| idns::name_str(&x.0)));
            }
            let npt = count_pointers(&buf, s);
            match (verdict, &ind) {
                ("unbounded", _) => {
                    out.violate(Violation::new(
                        "dns:parse_name:unbounded-labels",
                        format!("Packet::parse_name on buffer {} from offset {} yielded more than {} labels", hexs(&buf), s, cap),
                    ));
                }
                ("ok", Ok((n, _))) => {
                    if *n != labels {
                        out.violate(Violation::new(
                            "dns:parse_name:labels-differ",
                            format!("buffer {} offset {}: Packet::parse_name decoded {:?}, RFC 1035 decompression gives {:?}", hexs(&buf), s, idns::name_str(&labels), idns::name_str(n)),
                        ));
                    }
                    out.class(format!("names:both-ok:ptrs={}:labels={}", npt.min(6), labels.len().min(8)));
                    out.count("names_decoded_and_compared", 1);
                }
                ("ok", Err(e)) => {
                    out.violate(Violation::new(
                        "dns:parse_name:accepts-undecodable-name",
                        format!("buffer {} offset {}: Packet::parse_name decoded {:?} although the name cannot be decoded: {}", hexs(&buf), s, idns::name_str(&labels), e),
                    ));
                }
                (_, Ok(_)) => {
                    // stricter than necessary (e.g. a second forward pointer): permitted
                    out.class(format!("names:smoltcp-rejects-decodable:ptrs={}", npt.min(6)));
                    out.count("names_rejected_though_decodable", 1);
                }
                (_, Err(e)) => {
                    let kind = if e.contains("loop") {
                        "loop"
                    } else if e.contains("leaves") {
                        "ptr-outside"
                    } else if e.contains("label type") {
                        "label-type"
                    } else {
                        "cut"
                    };
                    out.class(format!("names:both-reject:{}:ptrs={}", kind, npt.min(6)));
                    out.count("names_rejected_by_both", 1);
                    if kind == "loop" {
                        out.count("names_pointer_loops_fed", 1);
                    }
                }
            }
        }
        if idx == 0 && round == 0 {
            out.sample = Some(Json::obj().set("part", Json::s("names")).set("buffer", Json::s(hexs(&buf))).set("starts", Json::s(format!("{:?}", starts))));
        }
    }
    out.count("runs", 1);
    out
}

fn count_pointers(buf: &[u8], start: usize) -> usize {
    // pointers the independent decoder follows before it stops (for the class only)
    let mut i = start;
    let mut n = 0;
    let mut guard = 0;
    while i < buf.len() && guard < 64 {
        guard += 1;
        let x = buf[i];
        if x == 0 {
            break;
        }
        match x & 0xC0 {
            0 => i += 1 + x as usize,
            0xC0 => {
                if i + 1 >= buf.len() {
                    break;
                }
                n += 1;
                i = (((x & 0x3f) as usize) << 8) | buf[i + 1] as usize;
            }
            _ => break,
        }
    }
    n
}

fn hexs(b: &[u8]) -> String {
    let mut s = String::with_capacity(b.len() * 2);
    for x in b {
        s.push_str(&format!("{:02x}", x));
    }
    s
}

pub fn names_case(i: u64, r: &mut Rng, c: &Ctx) -> CaseOut {
    guarded(i, r, c, names_body)
}

pub fn monitor() -> super::Monitor {
    super::Monitor {
        id: "C19",
        rule: RULE,
        assumptions: &[
            "'eventually' is restated as the bound servers x 25 s of virtual time (10 s per server + 10 s maximal back-off + slack); mDNS names count the two mDNS groups as servers",
            "name comparison in the oracle is ASCII case-insensitive and compression pointers may point anywhere as long as no pointer is followed twice: the most permissive reading, so a response the oracle calls non-matching is non-matching under every reading",
            "a response that fails only IP/UDP level checks (checksum, destination address) still counts as delivered-and-matching (weaker oracle, never a false alarm)",
            "QDCOUNT != 1, opcode != 0 and record class are not part of the matching predicate (the stack may be stricter)",
            "DNS_MAX_SERVER_COUNT / DNS_MAX_RESULT_COUNT are read from smoltcp::config; server lists longer than the build allows are truncated by the socket and by the oracle alike",
            "watchdog: a case that needs more than 30 s of wall-clock time is reported as a non-returning call",
        ],
        floors: &[
            ("runs", 500),
            ("queries_started", 1500),
            ("queries_completed_ok", 300),
            ("queries_completed_via_cname", 30),
            ("queries_failed_by_timeout", 300),
            ("queries_failed_by_matching_response", 100),
            ("responses_wrong_in_one_respect", 1000),
            ("retransmissions", 2000),
            ("spacing_checks", 2000),
            ("names_decoded_and_compared", 5000),
            ("names_pointer_loops_fed", 1000),
            ("distinct", 60),
        ],
        parts: vec![
            super::Part { name: "resolve", cases: |c| c.n(16_000, 400_000), f: resolve_case },
            super::Part { name: "wrong-one", cases: |c| c.n(10_000, 250_000), f: wrong_one_case },
            super::Part { name: "fuzz", cases: |c| c.n(10_000, 250_000), f: fuzz_case },
            super::Part { name: "names", cases: |c| c.n(4000, 80_000), f: names_case },
        ],
        post: None,
    }
}
